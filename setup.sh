#!/bin/bash
# Build every harness profile once, offline, from the files on disk.
set -e
cd "$(dirname "${BASH_SOURCE[0]}")"
export CARGO_NET_OFFLINE=true
TDIR="${VERIF_TARGET_DIR:-$(pwd)/target}"
mkdir -p "$TDIR"
cd harness
cargo build --quiet --profile verif --target-dir "$TDIR/verif"
cargo build --quiet --profile release --target-dir "$TDIR/release"
cargo build --quiet --profile dev --target-dir "$TDIR/dev"
echo "setup done"
