#!/bin/bash
# tools/allquick.sh <seed>... : run every quick check under each seed, print one line per run
cd "$(dirname "${BASH_SOURCE[0]}")/.."
for s in "$@"; do
  for i in 01 02 03 04 05 06 07 08 09 10 11 12 13 14 15 16 17 18 19 20; do
    t0=$(date +%s)
    out=$(./check C$i --tier quick --seed $s 2>&1); rc=$?
    t1=$(date +%s)
    echo "seed=$s C$i rc=$rc $((t1-t0))s $(echo "$out" | grep -c '^VIOLATION') violations; $(echo "$out" | grep -E 'tier=quick' | cut -c1-120)"
    if [ $rc -ne 0 ]; then echo "$out" | grep -E "VIOLATION|signature|INCONCLUSIVE|BUILD" | head -8; fi
  done
done
