#!/bin/bash
# tools/mkmut.sh <ID> <N> : create a scratch worktree + prompt for a mutation agent
set -e
ID="$1"; N="${2:-2}"
WT=/tmp/seed/wt-$ID; OUT=/tmp/seed/out-$ID
git -C /repo worktree remove --force "$WT" 2>/dev/null || true
rm -rf "$WT" "$OUT"; mkdir -p "$OUT"
git -C /repo worktree add --detach "$WT" HEAD >/dev/null 2>&1
python3 - "$ID" "$N" "$WT" "$OUT" <<'PY'
import json,sys
ID,N,WT,OUT=sys.argv[1:5]
for l in open('/verif/properties.jsonl'):
    p=json.loads(l)
    if p['id']==ID:
        text=f"[{p['id']}] {p['title']}\n\nStatement: {p['statement']}\n\nQuantified over: {p['quantifier']['text']}\n\nRelevant source files: {', '.join(p['anchors']['files'])}"
t=open('/verif/tools/mutator_prompt.md').read()
t=t.replace('{WT}',WT).replace('{OUT}',OUT).replace('{PROPERTY}',text).replace('{N}',N).replace('{ID}',ID)
open(f'/tmp/seed/prompt-{ID}.md','w').write(t)
PY
echo /tmp/seed/prompt-$ID.md
