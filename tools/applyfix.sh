#!/bin/bash
# tools/applyfix.sh <patch> "<commit message without fix: prefix>"
P="$1"; MSG="$2"
cd /repo || exit 2
git diff --quiet || { echo "repo dirty"; exit 2; }
if git apply --recount -C1 "$P" 2>/tmp/applyfix.err || git apply --recount -C0 "$P" 2>/tmp/applyfix.err || git apply -3 "$P" 2>/tmp/applyfix.err; then
  git add -A && git commit -qm "fix: $MSG" && git log --oneline | head -1
else
  echo "FAILED to apply $P"; cat /tmp/applyfix.err; exit 1
fi
