#!/bin/bash
# tools/seedtest.sh <patch.diff> <ID> [extra check args] : apply a seeded change to /repo, run the quick check, undo.
P="$(realpath "$1")"; ID="$2"; shift 2
cd /repo || exit 2
if ! git diff --quiet; then echo "/repo has uncommitted changes"; exit 2; fi
git apply "$P" || { echo "patch does not apply"; exit 2; }
cd /verif
timeout 1800 ./check "$ID" "$@" > /tmp/seedtest.$$.log 2>&1
rc=$?
git -C /repo checkout -- .
git -C /repo clean -fdq -e target >/dev/null 2>&1
grep -a -E "VIOLATION|signature|evaluations=|BUILD-FAILED|INCONCLUSIVE" /tmp/seedtest.$$.log | head -8
rm -f /tmp/seedtest.$$.log
echo "exit=$rc"
