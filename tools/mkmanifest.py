#!/usr/bin/env python3
"""Regenerate MANIFEST.json from the table below (run from /verif)."""
import json, subprocess
CHECKS = {
 "C11": dict(cat="exploration", tech="proptest stateful histories vs list/set reference model of views",
   text="Random mutation/read histories through every view adapter on 15 store types against a reference model; finds any input-dependent incoherence within the generated alphabet, never proves absence.",
   note="Trusted: harness model of matcher semantics (written from the docs), MT<->SimpleTerm conversion. Flags only checked for set stores.", ref="5/C11"),
}
NOT_APPLICABLE = []
def main():
    hooks_commits = subprocess.run(["git","-C","/repo","log","--format=%h %s"],capture_output=True,text=True).stdout.splitlines()
    hook_commits=[l.split()[0] for l in hooks_commits if l.split(' ',1)[1].startswith("verif-hook")]
    checks=[]
    for pid in sorted(CHECKS):
        c=CHECKS[pid]
        checks.append({
          "property_id": pid,
          "quick_cmd": f"./check {pid} --tier quick",
          "thorough_cmd": f"./check {pid} --tier thorough",
          "evidence_file": f"/verif/evidence/{pid}.json",
          "replay_cmd_template": f"./check {pid} --replay {{path}}",
          "engine": "vcheck",
          "level_claimed": {"category": c["cat"], "text": c["text"], "design_ref": c["ref"]},
          "level_note": c["note"],
          "technique": c["tech"],
        })
    m={"version":1,
       "setup_cmd":"./setup.sh",
       "hooks":{"guard":"cargo feature verif_hooks (sophia_inmem)","enable":"harness/Cargo.toml depends on sophia_inmem with features=[\"verif_hooks\"]; the repository workspace never enables it",
                "baseline_off_cmd":"cd /repo && cargo nextest run --workspace --no-fail-fast --offline || cargo test --workspace --no-fail-fast --offline",
                "source_commits":hook_commits,"add_only":True},
       "engines":[{"name":"vcheck","path":"/verif/harness","serves_properties":sorted(CHECKS),"kind_free_text":"Rust binary: proptest TestRunner (fixed seed, sharded over 16 threads) + corpus replay + enumerated cases + child-process scenarios + cargo-fuzz targets, explicit reference-model oracles per property"}],
       "checks":checks,
       "not_applicable":NOT_APPLICABLE,
       "notes":"Exit codes: 0 held, 1 VIOLATION (replay file written under /verif/replays), 2 inconclusive/infrastructure (build failure, timeout). Known findings: /verif/known_findings.json."}
    json.dump(m,open("MANIFEST.json","w"),indent=1)
main()
