#!/usr/bin/env python3
"""Regenerate MANIFEST.json from the table below (run from /verif)."""
import json, subprocess
CHECKS = {
 "C11": dict(cat="exploration", tech="proptest stateful histories vs list/set reference model of views",
   text="Random mutation/read histories through every view adapter on 15 store types against a reference model; finds any input-dependent incoherence within the generated alphabet, never proves absence.",
   note="Trusted: harness model of matcher semantics (written from the docs), MT<->SimpleTerm conversion. Flags only checked for set stores.", ref="5/C11"),
 "C13": dict(cat="exploration", tech="proptest grammar-generated SPARQL queries + datasets vs naive reference evaluator over the spargebra algebra (differential)",
   text="Query text generated from a grammar over the supported and unsupported operators, evaluated by sophia_sparql on five store types and by an independent brute-force evaluator of the SPARQL algebra; compares solution multisets / ASK, demands NotImplemented for unsupported algebra nodes, no panic. Exploration only: expression semantics judged on a crisp subset.",
   note="Trusted: spargebra's parse of the query text into algebra (shared with sophia), the harness evaluator (c13.rs) and its exact decimal arithmetic. Cases touching non-crisp expression semantics are skipped and counted.", ref="5/C13, 11"),
 "C14": dict(cat="exploration", tech="proptest value multisets x key lists x input permutations vs exact-arithmetic reference order relation (validity predicate + cross-permutation preorder check)",
   text="Multisets of solution values over every term kind / numeric type / ill-typed literal, 1-3 ASC/DESC keys, each loaded in 3 input permutations; output must be a permutation and no pair may contradict the reference relation (kind order, exact SPARQL '<'); cross-permutation cycle check for preorder consistency.",
   note="Trusted: harness reference relation (exact decimal expansion of doubles, XSD dateTime order). Pairs that '<' cannot compare are unconstrained.", ref="5/C14, 11"),
 "C03": dict(cat="exploration", tech="proptest datasets over full lexical/label/IRI alphabets; serialise -> parse round trip (sophia nt/nq/gnq) + independent W3C N-Quads reader + line-structure check",
   text="Generated strict and RDF-star datasets over all escape-relevant characters, exotic blank labels, IP-literal IRIs, BCP47 tags; output must be one statement per LF-terminated line and re-read to exactly the input multiset by sophia's parsers and by an independent hand-written N-Quads reader.",
   note="Trusted: nqread.rs (reviewed against the W3C grammar), MT conversions. Tags compared case-insensitively (drift counted). Labels starting with 'riog' excluded.", ref="5/C03, 11"),
 "C04": dict(cat="exploration", tech="proptest shape-library datasets x config (pretty/stream, prefix maps, indentation, Turtle/TriG); parse-back + exact isomorphism oracle; abbreviation tokenizer for non-triviality",
   text="Datasets assembled from blank-node shapes, well-/ill-formed rdf lists, annotations, shorthand-literal candidates and awkward local names; output must parse with the strict parser, contain no duplicate statement and be exactly isomorphic (backtracking search) to the input.",
   note="Trusted: sophia's own strict Turtle/TriG parser as syntax judge, iso.rs exact isomorphism (budgeted; budget never hit). Generalized RDF and duplicate prefixes out of scope.", ref="5/C04, 11"),
 "C01": dict(cat="exploration", tech="proptest operation histories on 35 store types vs multiset/set reference model incl. term-index capacity model (stateful model-based)",
   text="Random histories (insert/remove/bulk/pattern mutations/rebuild/queries with all 2^4 bound shapes and every matcher kind) run on every shipped store type (fast/light, u16/u32/tiny index, graph/dataset, hash/btree/vec) and compared after each step with a reference set/list model; index-full behaviour modelled exactly for tiny and 16-bit indexes (boundary scenarios pre-fill ~65535 terms).",
   note="Trusted: pat.rs model of matcher semantics, capacity/ensure-order model read from the code, MT conversions. Vec flags not judged (documented as not significant).", ref="5/C01, 11"),
 "C02": dict(cat="exploration", tech="proptest near-miss term triples realised in 25-45 Term implementations each; pairwise eq/cmp/hash vs documented model order (differential across implementations)",
   text="Model terms and near-miss mutants realised in every nameable shipped Term implementation (incl. parser-backed, JSON-LD, c14n, NsTerm splits); all ordered pairs compared for Term::eq/cmp/hash and std trait impls against the model relation; conversions must yield equal terms.",
   note="Trusted: model.rs equality/order (from Term::eq/cmp docs). IsoTerm is private and not covered; C14nTerm only for atoms.", ref="5/C02, 11"),
 "C10": dict(cat="exploration", tech="proptest clone/drop/swap/move/grow histories with self-containment audit hook + per-store reference models; thorough: same histories replayed under AddressSanitizer in child processes",
   text="Histories over an arena of stores interleaving mutation with clone, clone_from, drop, mem::swap, moves and growth; after every step each live store must pass the i2t-borrows-from-own-keys audit (hook) and equal its own model; thorough tier replays under ASan (any report = failure).",
   note="Trusted: the audit hook (feature verif_hooks), ASan only sees addressability errors on executed paths; no Miri. If the ASan build is unavailable the thorough tier is inconclusive (exit 2), never a violation.", ref="5/C10, 7, 11"),
 "C20": dict(cat="exploration", tech="proptest native values and typed literals; XSD lexical recognisers + exact big-integer decimal->binary rounding oracle; round trips through 17 representations and 10 serialiser/parser pairs",
   text="Every edge value and uniform samples of i32/isize/usize/bool/f64/str as terms: lexical form must be in the XSD lexical space, value must come back identical through every representation and NT/NQ/Turtle/TriG/RDF-XML/JSON-LD round trips; arbitrary literals: conversions never panic and successes equal an independent exact parse.",
   note="Trusted: harness XSD recognisers and exact rounding oracle. Ill-typed lexicals accepted by a conversion are counted, not failed.", ref="5/C20, 11"),
 "C12": dict(cat="exploration", tech="proptest list/compound-literal/graph shape ingredients x options; serialise -> parse round trip with exact isomorphism oracle; supervised child process for crash capture",
   text="Datasets built from well-/ill-formed rdf list chains, compound-literal shapes, shared blank nodes across graphs, rdf:JSON literals and non-representable quads, under every lossless option combination; output must parse back exactly isomorphic to the representable part. Runs in a supervised child so that stack overflows are attributed to a case.",
   note="Trusted: iso.rs, harness definition of 'representable', own RFC 8785 writer. Third-party (json-ld 0.15) losses recorded as trigger-keyed known findings; spec-mandated loss of rdf:type rdf:List on compacted lists is a known finding.", ref="5/C12, 11"),
 "C18": dict(cat="exploration", tech="proptest graphs over XML-legal/illegal text, QName split points, reserved names, odd blank labels x indentation; own XML well-formedness checker + parse-back exact isomorphism; metamorphic indentation relation",
   text="Serialising must fail with an error or give a well-formed document (own XML 1.0 checker) that sophia's parser reads back isomorphic to the expressible part; must-succeed class (QName-able predicates, XML-legal text) may not fail or lose anything; parse at indentation k equals parse at 0.",
   note="Trusted: harness XML well-formedness checker, iso.rs. Only sophia's parser is used as RDF/XML reader. rio_xml dropping whitespace-only literals on parse is a known finding.", ref="5/C18, 11"),
 "C05": dict(cat="exploration", tech="proptest symmetric blank-node families; metamorphic pairs (relabel+shuffle+other container; near-isomorphic mutants) judged by exact isomorphism search; output re-read by independent N-Quads reader",
   text="For each dataset an isomorphic twin and a near-isomorphic mutant: canonical bytes equal iff exact isomorphism (tags literal), output sorted, labels exactly c14n0..n-1, parse-back isomorphic, issued-id map a bijection reproducing the returned quads; both hash functions.",
   note="Trusted: iso.rs (tags compared literally through a pseudo-datatype wrapper), nqread.rs. Cases whose reference canonicalisation exceeds a work budget are skipped and counted. One RDFC-1.0-inherent ambiguity is a trigger-keyed known finding.", ref="5/C05, 11"),
 "C06": dict(cat="exploration", tech="differential testing against an independent RDFC-1.0 reference implementation (unpruned) over exhaustively enumerated small blank-node digraphs + sampled symmetric families x hash x limits",
   text="Exhaustive: all 512 digraphs with self-loops on 3 blank nodes (x decoration x hash), all 2-node two-predicate and blank-graph-name digraphs; sampled families up to 14 blank nodes; output bytes and issued ids must equal the reference, Unsupported/ToxicGraph only when justified by the unpruned reference exceeding the limits.",
   note="Trusted: the harness reference (c06.rs rdfc_ref, written from the Recommendation's numbered steps, self-checked against the 7 vectors shipped in c14n tests on every run). U+FFFE/FFFF excluded. Orders the text leaves open are accepted via a reproducing bijection.", ref="5/C06, 11"),
 "C07": dict(cat="exploration", tech="proptest generalized datasets with positive twins (bijective relabel + shuffle + container) and negative mutants; exact isomorphism search decides when 'true' is mandatory, blanked-out multisets decide when 'false' is mandatory",
   text="Generalized datasets/graphs (all term kinds anywhere, nested quoted triples with blank nodes, blank graph names) on 5x5 container pairs: relabelled copies must answer true both ways, answers symmetric, false whenever size / blank count / blanked statements differ. False positives allowed by the contract are only counted.",
   note="Trusted: iso.rs as ground truth for 'isomorphic'.", ref="5/C07, 11"),
 "C08": dict(cat="exploration", tech="proptest grammar-generated documents + byte-level edits through all 8 parsers in assertion-on and release builds (child process), deep-nesting children on a 2 MiB stack; thorough: libFuzzer (cargo-fuzz) campaigns with the same in-target oracle",
   text="Valid documents of every syntax plus 1-3 byte edits, token near-misses and invalid UTF-8, with and without base IRI; no panic, and every accessor of every yielded term re-validates with the toolkit's own validators; same inputs replayed in a release-build child; nesting 10^3..10^5 in child processes (crash = failure, timeout = inconclusive). Thorough adds coverage-guided fuzzing of four targets.",
   note="Trusted: the validators themselves (Iri/IriRef/BnodeId/LanguageTag/VarName::new) as definition of well-formed. Third-party (rio_turtle, rio_xml, iref, json-ld) defects are trigger-keyed known findings; each hides other faults of the same (accessor kind, syntax) class.", ref="5/C08, 11"),
 "C09": dict(cat="exploration", tech="proptest grammar-derived strings and single-character mutants vs hand-written RFC 3987 recogniser (set-of-positions ABNF interpreter) and RFC 3986 5.2 reference resolver (differential)",
   text="Strings derived from the ABNF itself with boundary-biased choices (all IPv6/IPvFuture/IPv4 forms, ucschar/iprivate range edges), near-miss generators and one-character mutants; every validator entry point must agree with the reference recogniser; accepted values must survive as_base/to_base/resolve; resolution through 7 API routes must equal the reference resolver.",
   note="Trusted: c09.rs rfc module (self-tested on every run against the RFC 3986 5.4 examples and ~110 hand-classified strings). Five deviations of the third-party oxiri resolver from RFC 3986 5.2 are trigger-keyed known findings.", ref="5/C09, 11"),
 "C17": dict(cat="exploration", tech="proptest (base, IRI, parents) pairs derived by path-segment edits; round-trip oracle through BaseIri::resolve + RFC reference resolver; validity and parent-step bound predicates",
   text="IRIs derived from the base by segment edits (long common prefixes, empty/dot/colon segments, multi-byte divergence, authority and query/fragment edits): Some(r) must be a valid reference with at most `parents` '..' that resolves back exactly; the always-relativisable family must give Some.",
   note="Trusted: c09.rs rfc module; 'resolving' is sophia's BaseIri::resolve (cases where only the RFC resolver disagrees, all inside C09's recorded resolver deviations, are counted).", ref="5/C17, 11"),
}
NOT_APPLICABLE = []
def main():
    hooks_commits = subprocess.run(["git","-C","/repo","log","--format=%h %s"],capture_output=True,text=True).stdout.splitlines()
    hook_commits=[l.split()[0] for l in hooks_commits if l.split(' ',1)[1].startswith("verif-hook")]
    checks=[]
    for pid in sorted(CHECKS):
        c=CHECKS[pid]
        checks.append({
          "property_id": pid,
          "quick_cmd": f"./check {pid} --tier quick",
          "thorough_cmd": f"./check {pid} --tier thorough",
          "evidence_file": f"/verif/evidence/{pid}.json",
          "replay_cmd_template": f"./check {pid} --replay {{path}}",
          "engine": "vcheck",
          "level_claimed": {"category": c["cat"], "text": c["text"], "design_ref": c["ref"]},
          "level_note": c["note"],
          "technique": c["tech"],
        })
    m={"version":1,
       "setup_cmd":"./setup.sh",
       "hooks":{"guard":"cargo feature verif_hooks (sophia_inmem)","enable":"harness/Cargo.toml depends on sophia_inmem with features=[\"verif_hooks\"]; the repository workspace never enables it",
                "baseline_off_cmd":"cd /repo && cargo nextest run --workspace --no-fail-fast --offline || cargo test --workspace --no-fail-fast --offline",
                "source_commits":hook_commits,"add_only":True},
       "engines":[{"name":"vcheck","path":"/verif/harness","serves_properties":sorted(CHECKS),"kind_free_text":"Rust binary: proptest TestRunner (fixed seed, sharded over 16 threads) + corpus replay + enumerated cases + child-process scenarios + cargo-fuzz targets, explicit reference-model oracles per property"}],
       "checks":checks,
       "not_applicable":NOT_APPLICABLE,
       "notes":"Exit codes: 0 held, 1 VIOLATION (replay file written under /verif/replays), 2 inconclusive/infrastructure (build failure, timeout). Known findings: /verif/known_findings.json."}
    json.dump(m,open("MANIFEST.json","w"),indent=1)
main()
