#!/bin/bash
# remove every seed slot (worktrees and private copies)
for R in /tmp/scratch/repo*; do [ -d "$R" ] && git -C /repo worktree remove --force "$R"; done
rm -rf /tmp/scratch
git -C /repo worktree prune
