#!/bin/bash
# tools/allthorough.sh [seed] : run every thorough check once, print one line per run
cd "$(dirname "${BASH_SOURCE[0]}")/.."
s="${1:-20261003}"
for i in 11 07 18 15 19 09 17 03 04 12 20 02 10 13 14 01 05 06 16 08; do
  t0=$(date +%s)
  out=$(./check C$i --tier thorough --seed $s 2>&1); rc=$?
  t1=$(date +%s)
  echo "seed=$s C$i rc=$rc $((t1-t0))s $(echo "$out" | grep -c '^VIOLATION') violations; $(echo "$out" | grep -E 'tier=thorough' | cut -c1-140)"
  if [ $rc -ne 0 ]; then echo "$out" | grep -E "VIOLATION|signature|INCONCLUSIVE|BUILD|ASAN" | head -10; fi
  mkdir -p thorough-evidence; cp evidence/C$i.json thorough-evidence/C$i.json 2>/dev/null
done
