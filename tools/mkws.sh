#!/bin/bash
# tools/mkws.sh <name> : private workspace for a builder (copy of /verif + worktree of /repo)
set -e
N="$1"
W=/tmp/scratch/w$N
R=/tmp/scratch/repo$N
mkdir -p /tmp/scratch
rm -rf "$W"
git -C /repo worktree remove --force "$R" 2>/dev/null || true
git -C /repo worktree add --detach "$R" HEAD >/dev/null 2>&1
mkdir -p "$W"
rsync -a --exclude target --exclude .git --exclude replays /verif/ "$W/"
sed -i "s#/repo/#$R/#g" "$W/harness/Cargo.toml"
sed -i "s#TDIR=\"\${VERIF_TARGET_DIR:-/verif/target}\"#TDIR=\"\${VERIF_TARGET_DIR:-$W/target}\"#" "$W/check" "$W/setup.sh"
mkdir -p "$W/out" "$W/replays"
echo "$W $R"
