#!/bin/bash
# tools/seedtest2.sh <patch.diff> <ID> [args] : like seedtest.sh but in a private copy of /verif
# and a private worktree of /repo (so that background sweeps using /repo are not disturbed)
P="$(realpath "$1")"; ID="$2"; shift 2
W=/tmp/scratch/wT; R=/tmp/scratch/repoT
mkdir -p /tmp/scratch
if [ ! -d "$R" ]; then git -C /repo worktree add --detach "$R" HEAD >/dev/null 2>&1 || exit 2; fi
git -C "$R" checkout -q --detach "$(git -C /repo rev-parse HEAD)" || exit 2
git -C "$R" checkout -- . ; git -C "$R" clean -fdq
mkdir -p "$W"
rsync -a --delete --exclude target --exclude .git --exclude replays --exclude fuzz/target --exclude fuzz/work /verif/ "$W/"
sed -i "s#/repo/#$R/#g" "$W/harness/Cargo.toml"
mkdir -p "$W/replays"
( cd "$R" && git apply "$P" ) || { echo "patch does not apply"; exit 2; }
( cd "$W" && timeout 1800 ./check "$ID" "$@" ) > /tmp/scratch/seedtest2.$$.log 2>&1
rc=$?
git -C "$R" checkout -- . ; git -C "$R" clean -fdq
grep -a -E "VIOLATION|signature|evaluations=|BUILD-FAILED|INCONCLUSIVE" /tmp/scratch/seedtest2.$$.log | head -8
rm -f /tmp/scratch/seedtest2.$$.log
echo "exit=$rc"
