#!/usr/bin/env python3
import json,sys,glob
sys.path.insert(0,'/opt/veriftools/pyvenv/lib/python3.11/site-packages')
import jsonschema
jsonschema.validate(json.load(open('MANIFEST.json')),json.load(open('/root/.vp/MANIFEST.schema.json')))
es=json.load(open('/root/.vp/EVIDENCE.schema.json'))
for f in sorted(glob.glob('evidence/*.json')):
    jsonschema.validate(json.load(open(f)),es); print('ok',f)
print('manifest ok')
