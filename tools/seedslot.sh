#!/bin/bash
# tools/seedslot.sh <slot> <patch.diff> <ID> [args] : like seedtest2.sh but with a named slot, so that several
# seeded changes can be tested side by side (private copy of /verif and private worktree of /repo per slot).
# The slot's target dir is primed from /verif/target (third-party crates are not rebuilt).
SLOT="$1"; P="$(realpath "$2")"; ID="$3"; shift 3
W=/tmp/scratch/w$SLOT; R=/tmp/scratch/repo$SLOT
mkdir -p /tmp/scratch
if [ ! -d "$R" ]; then git -C /repo worktree add --detach "$R" HEAD >/dev/null 2>&1 || exit 2; fi
git -C "$R" checkout -q --detach "$(git -C /repo rev-parse HEAD)" || exit 2
git -C "$R" checkout -- . ; git -C "$R" clean -fdq
mkdir -p "$W"
rsync -a --delete --exclude target --exclude .git --exclude replays --exclude fuzz/target --exclude fuzz/work /verif/ "$W/"
if [ ! -d "$W/target" ] && [ -d /verif/target ]; then cp -a /verif/target "$W/target"; fi
sed -i "s#/repo/#$R/#g" "$W/harness/Cargo.toml"
mkdir -p "$W/replays"
( cd "$R" && git apply "$P" ) || { echo "patch does not apply"; exit 2; }
( cd "$W" && timeout 2400 ./check "$ID" "$@" ) > /tmp/scratch/seedslot.$SLOT.log 2>&1
rc=$?
git -C "$R" checkout -- . ; git -C "$R" clean -fdq
grep -a -E "VIOLATION|signature|evaluations=|BUILD-FAILED|INCONCLUSIVE" /tmp/scratch/seedslot.$SLOT.log | head -8
echo "exit=$rc"
