#!/bin/bash
# tools/confirm_seed.sh <seed dir> : in a scratch worktree confirm that (1) demo passes on pristine tree,
# (2) patch applies + compiles, (3) demo fails with patch, (4) the touched crates' existing tests pass with patch.
# Appends the outcome to <seed dir>/confirmed.txt
D="$(cd "$1" && pwd)"
WT=/tmp/seed/confirm-$$
export CARGO_TARGET_DIR=/tmp/seed/confirm-target
export CARGO_NET_OFFLINE=true
git -C /repo worktree add --detach "$WT" HEAD >/dev/null 2>&1 || exit 2
cd "$WT"
hdr="$(head -1 "$D/demo.rs")"
dest="$(echo "$hdr" | sed -E 's#^.*copy to ([^ ;]+).*#\1#')"
cmd="$(echo "$hdr" | sed -E 's#^[^;]*; *##')"
crates="$(python3 -c "
import json,re
cs=json.load(open('$D/meta.json'))['crates_tested']
names=[]
for c in cs:
    for t in re.findall(r'sophia[_a-z0-9]*', c):
        if t not in names: names.append(t)
if any('workspace' in c for c in cs): print('--workspace')
else: print(' '.join('-p '+c for c in names))
")"
mkdir -p "$(dirname "$dest")"; cp "$D/demo.rs" "$dest"
r1=FAIL; r3=FAIL; r4=FAIL
if $cmd >/tmp/seed/confirm.log 2>&1; then r1=pass; fi
if git apply "$D/patch.diff"; then
  if $cmd >/tmp/seed/confirm.log 2>&1; then r3="UNEXPECTED-pass"; else if grep -q "test result: FAILED\|panicked" /tmp/seed/confirm.log; then r3=fails; elif grep -q "stack overflow\|SIGABRT\|SIGSEGV\|signal: " /tmp/seed/confirm.log; then r3="fails(process-killed)"; else r3="build-error?"; fi; fi
  rm -f "$dest"
  if cargo test $crates --offline >/tmp/seed/confirm.log 2>&1; then r4=pass; else r4=FAIL; fi
else r3="patch-does-not-apply"; fi
cd /; git -C /repo worktree remove --force "$WT"
line="$(date -u +%FT%TZ) repo=$(git -C /repo rev-parse --short HEAD) demo_on_pristine=$r1 demo_with_patch=$r3 existing_tests_with_patch($crates)=$r4"
echo "$line" | tee -a "$D/confirmed.txt"
