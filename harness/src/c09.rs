//! C09 — IRI validation is exactly RFC 3987 and agrees with the resolver.
//!
//! Oracle: `rfc` below = (1) a literal transcription of the RFC 3987 / RFC 3986 ABNF into a
//! data structure interpreted by a set-of-positions matcher (so alternatives are explored
//! exhaustively: no first-match-wins artefacts), and (2) the RFC 3986 section 5.2 reference
//! resolution algorithm (Appendix B split, 5.2.2 transform, 5.2.3 merge, 5.2.4
//! remove_dot_segments, 5.3 recomposition). Neither uses `regex`, `oxiri` or sophia.
use crate::engine::*;
use proptest::prelude::*;
use serde::{Deserialize, Serialize};
use serde_json::{json, Value};

pub mod rfc {
    use std::collections::BTreeMap;
    use std::sync::LazyLock;

    /// ABNF element.
    #[derive(Clone, Debug)]
    pub enum G {
        /// quoted string: case-insensitive (RFC 5234 section 2.3)
        L(&'static str),
        /// %xLO-HI
        R(u32, u32),
        /// concatenation
        S(Vec<G>),
        /// alternatives
        A(Vec<G>),
        /// <min>*<max> repetition
        N(usize, Option<usize>, Box<G>),
        /// rule reference
        Ref(&'static str),
    }
    use G::*;
    fn l(s: &'static str) -> G {
        L(s)
    }
    fn r(lo: u32, hi: u32) -> G {
        R(lo, hi)
    }
    fn seq<const K: usize>(v: [G; K]) -> G {
        S(v.into_iter().collect())
    }
    fn alt<const K: usize>(v: [G; K]) -> G {
        A(v.into_iter().collect())
    }
    fn opt(g: G) -> G {
        N(0, Some(1), Box::new(g))
    }
    fn star(g: G) -> G {
        N(0, None, Box::new(g))
    }
    fn plus(g: G) -> G {
        N(1, None, Box::new(g))
    }
    fn rep(min: usize, max: usize, g: G) -> G {
        N(min, Some(max), Box::new(g))
    }
    fn rule(n: &'static str) -> G {
        Ref(n)
    }

    /// The grammar: RFC 3987 section 2.2 plus the rules it imports from RFC 3986 appendix A
    /// and RFC 5234 appendix B. Rules whose name starts with "gen:" are NOT part of the RFC: they
    /// only feed the generator with near-miss material.
    pub static GRAMMAR: LazyLock<BTreeMap<&'static str, G>> = LazyLock::new(|| {
        let mut m = BTreeMap::new();
        let q = || opt(seq([l("?"), rule("iquery")]));
        let f = || opt(seq([l("#"), rule("ifragment")]));
        let segs = || star(seq([l("/"), rule("isegment")]));
        // IRI = scheme ":" ihier-part [ "?" iquery ] [ "#" ifragment ]
        m.insert("IRI", seq([rule("scheme"), l(":"), rule("ihier-part"), q(), f()]));
        // ihier-part = "//" iauthority ipath-abempty / ipath-absolute / ipath-rootless / ipath-empty
        m.insert(
            "ihier-part",
            alt([
                seq([l("//"), rule("iauthority"), rule("ipath-abempty")]),
                rule("ipath-absolute"),
                rule("ipath-rootless"),
                rule("ipath-empty"),
            ]),
        );
        // IRI-reference = IRI / irelative-ref
        m.insert("IRI-reference", alt([rule("IRI"), rule("irelative-ref")]));
        // absolute-IRI = scheme ":" ihier-part [ "?" iquery ]
        m.insert("absolute-IRI", seq([rule("scheme"), l(":"), rule("ihier-part"), q()]));
        // irelative-ref = irelative-part [ "?" iquery ] [ "#" ifragment ]
        m.insert("irelative-ref", seq([rule("irelative-part"), q(), f()]));
        // irelative-part = "//" iauthority ipath-abempty / ipath-absolute / ipath-noscheme / ipath-empty
        m.insert(
            "irelative-part",
            alt([
                seq([l("//"), rule("iauthority"), rule("ipath-abempty")]),
                rule("ipath-absolute"),
                rule("ipath-noscheme"),
                rule("ipath-empty"),
            ]),
        );
        // iauthority = [ iuserinfo "@" ] ihost [ ":" port ]
        m.insert(
            "iauthority",
            seq([opt(seq([rule("iuserinfo"), l("@")])), rule("ihost"), opt(seq([l(":"), rule("port")]))]),
        );
        // iuserinfo = *( iunreserved / pct-encoded / sub-delims / ":" )
        m.insert("iuserinfo", star(alt([rule("iunreserved"), rule("pct-encoded"), rule("sub-delims"), l(":")])));
        // ihost = IP-literal / IPv4address / ireg-name
        m.insert("ihost", alt([rule("IP-literal"), rule("IPv4address"), rule("ireg-name")]));
        // ireg-name = *( iunreserved / pct-encoded / sub-delims )
        m.insert("ireg-name", star(alt([rule("iunreserved"), rule("pct-encoded"), rule("sub-delims")])));
        // ipath-abempty = *( "/" isegment )
        m.insert("ipath-abempty", segs());
        // ipath-absolute = "/" [ isegment-nz *( "/" isegment ) ]
        m.insert("ipath-absolute", seq([l("/"), opt(seq([rule("isegment-nz"), segs()]))]));
        // ipath-noscheme = isegment-nz-nc *( "/" isegment )
        m.insert("ipath-noscheme", seq([rule("isegment-nz-nc"), segs()]));
        // ipath-rootless = isegment-nz *( "/" isegment )
        m.insert("ipath-rootless", seq([rule("isegment-nz"), segs()]));
        // ipath-empty = 0<ipchar>
        m.insert("ipath-empty", seq([]));
        // isegment = *ipchar ; isegment-nz = 1*ipchar
        m.insert("isegment", star(rule("ipchar")));
        m.insert("isegment-nz", plus(rule("ipchar")));
        // isegment-nz-nc = 1*( iunreserved / pct-encoded / sub-delims / "@" )
        m.insert("isegment-nz-nc", plus(alt([rule("iunreserved"), rule("pct-encoded"), rule("sub-delims"), l("@")])));
        // ipchar = iunreserved / pct-encoded / sub-delims / ":" / "@"
        m.insert("ipchar", alt([rule("iunreserved"), rule("pct-encoded"), rule("sub-delims"), l(":"), l("@")]));
        // iquery = *( ipchar / iprivate / "/" / "?" )
        m.insert("iquery", star(alt([rule("ipchar"), rule("iprivate"), l("/"), l("?")])));
        // ifragment = *( ipchar / "/" / "?" )
        m.insert("ifragment", star(alt([rule("ipchar"), l("/"), l("?")])));
        // iunreserved = ALPHA / DIGIT / "-" / "." / "_" / "~" / ucschar
        m.insert("iunreserved", alt([rule("ALPHA"), rule("DIGIT"), l("-"), l("."), l("_"), l("~"), rule("ucschar")]));
        // ucschar
        m.insert(
            "ucschar",
            alt([
                r(0xA0, 0xD7FF),
                r(0xF900, 0xFDCF),
                r(0xFDF0, 0xFFEF),
                r(0x10000, 0x1FFFD),
                r(0x20000, 0x2FFFD),
                r(0x30000, 0x3FFFD),
                r(0x40000, 0x4FFFD),
                r(0x50000, 0x5FFFD),
                r(0x60000, 0x6FFFD),
                r(0x70000, 0x7FFFD),
                r(0x80000, 0x8FFFD),
                r(0x90000, 0x9FFFD),
                r(0xA0000, 0xAFFFD),
                r(0xB0000, 0xBFFFD),
                r(0xC0000, 0xCFFFD),
                r(0xD0000, 0xDFFFD),
                r(0xE1000, 0xEFFFD),
            ]),
        );
        // iprivate = %xE000-F8FF / %xF0000-FFFFD / %x100000-10FFFD
        m.insert("iprivate", alt([r(0xE000, 0xF8FF), r(0xF0000, 0xFFFFD), r(0x100000, 0x10FFFD)]));
        // ---- RFC 3986
        // scheme = ALPHA *( ALPHA / DIGIT / "+" / "-" / "." )
        m.insert("scheme", seq([rule("ALPHA"), star(alt([rule("ALPHA"), rule("DIGIT"), l("+"), l("-"), l(".")]))]));
        // port = *DIGIT
        m.insert("port", star(rule("DIGIT")));
        // IP-literal = "[" ( IPv6address / IPvFuture ) "]"
        m.insert("IP-literal", seq([l("["), alt([rule("IPv6address"), rule("IPvFuture")]), l("]")]));
        // IPvFuture = "v" 1*HEXDIG "." 1*( unreserved / sub-delims / ":" )
        m.insert(
            "IPvFuture",
            seq([l("v"), plus(rule("HEXDIG")), l("."), plus(alt([rule("unreserved"), rule("sub-delims"), l(":")]))]),
        );
        // IPv6address
        let h16c = || seq([rule("h16"), l(":")]);
        let pre = |n: usize| opt(seq([rep(0, n, h16c()), rule("h16")])); // [ *n( h16 ":" ) h16 ]
        m.insert(
            "IPv6address",
            alt([
                //                            6( h16 ":" ) ls32
                seq([rep(6, 6, h16c()), rule("ls32")]),
                //                       "::" 5( h16 ":" ) ls32
                seq([l("::"), rep(5, 5, h16c()), rule("ls32")]),
                // [               h16 ] "::" 4( h16 ":" ) ls32
                seq([opt(rule("h16")), l("::"), rep(4, 4, h16c()), rule("ls32")]),
                // [ *1( h16 ":" ) h16 ] "::" 3( h16 ":" ) ls32
                seq([pre(1), l("::"), rep(3, 3, h16c()), rule("ls32")]),
                // [ *2( h16 ":" ) h16 ] "::" 2( h16 ":" ) ls32
                seq([pre(2), l("::"), rep(2, 2, h16c()), rule("ls32")]),
                // [ *3( h16 ":" ) h16 ] "::"    h16 ":"   ls32
                seq([pre(3), l("::"), h16c(), rule("ls32")]),
                // [ *4( h16 ":" ) h16 ] "::"              ls32
                seq([pre(4), l("::"), rule("ls32")]),
                // [ *5( h16 ":" ) h16 ] "::"              h16
                seq([pre(5), l("::"), rule("h16")]),
                // [ *6( h16 ":" ) h16 ] "::"
                seq([pre(6), l("::")]),
            ]),
        );
        // h16 = 1*4HEXDIG
        m.insert("h16", rep(1, 4, rule("HEXDIG")));
        // ls32 = ( h16 ":" h16 ) / IPv4address
        m.insert("ls32", alt([seq([rule("h16"), l(":"), rule("h16")]), rule("IPv4address")]));
        // IPv4address = dec-octet "." dec-octet "." dec-octet "." dec-octet
        m.insert(
            "IPv4address",
            seq([rule("dec-octet"), l("."), rule("dec-octet"), l("."), rule("dec-octet"), l("."), rule("dec-octet")]),
        );
        // dec-octet = DIGIT / %x31-39 DIGIT / "1" 2DIGIT / "2" %x30-34 DIGIT / "25" %x30-35
        m.insert(
            "dec-octet",
            alt([
                rule("DIGIT"),
                seq([r(0x31, 0x39), rule("DIGIT")]),
                seq([l("1"), rep(2, 2, rule("DIGIT"))]),
                seq([l("2"), r(0x30, 0x34), rule("DIGIT")]),
                seq([l("25"), r(0x30, 0x35)]),
            ]),
        );
        // pct-encoded = "%" HEXDIG HEXDIG
        m.insert("pct-encoded", seq([l("%"), rule("HEXDIG"), rule("HEXDIG")]));
        // unreserved = ALPHA / DIGIT / "-" / "." / "_" / "~"
        m.insert("unreserved", alt([rule("ALPHA"), rule("DIGIT"), l("-"), l("."), l("_"), l("~")]));
        // sub-delims
        m.insert(
            "sub-delims",
            alt([l("!"), l("$"), l("&"), l("'"), l("("), l(")"), l("*"), l("+"), l(","), l(";"), l("=")]),
        );
        // ---- RFC 5234
        m.insert("ALPHA", alt([r(0x41, 0x5A), r(0x61, 0x7A)]));
        m.insert("DIGIT", r(0x30, 0x39));
        m.insert("HEXDIG", alt([rule("DIGIT"), l("A"), l("B"), l("C"), l("D"), l("E"), l("F")]));

        // ---- generator-only material (never used by the recogniser's verdicts)
        m.insert(
            "gen:ipv6ish",
            rep(
                1,
                10,
                alt([rule("h16"), l(":"), l("::"), seq([rule("h16"), l(":")]), seq([l(":"), rule("h16")]), rule("IPv4address"), l(".")]),
            ),
        );
        m.insert("gen:ipv4ish", seq([rep(1, 3, rule("DIGIT")), rep(2, 4, seq([l("."), rep(0, 3, rule("DIGIT"))]))]));
        m.insert(
            "gen:octetish",
            alt([
                l("0"), l("9"), l("10"), l("99"), l("100"), l("199"), l("200"), l("249"), l("250"), l("255"), l("256"), l("259"),
                l("260"), l("299"), l("300"), l("00"), l("01"), l("001"), l("1000"), l(""), rule("dec-octet"),
            ]),
        );
        m.insert(
            "gen:ipv4near",
            seq([rule("gen:octetish"), l("."), rule("gen:octetish"), l("."), rule("gen:octetish"), l("."), rule("gen:octetish")]),
        );
        m.insert("gen:pctish", seq([l("%"), rep(0, 2, alt([rule("HEXDIG"), l("g"), l("%")]))]));
        m.insert(
            "gen:junkseg",
            star(alt([rule("ipchar"), rule("gen:pctish"), rule("iprivate"), l("["), l("]"), l(" "), l("<"), l("\\"), l("^"), l("|")])),
        );
        m
    });

    /// All end positions of matches of `g` starting from any position in `from` (sorted, unique).
    pub fn ends(g: &G, s: &[char], from: &[usize]) -> Vec<usize> {
        match g {
            L(lit) => {
                let lc: Vec<char> = lit.chars().collect();
                from.iter()
                    .filter(|&&p| {
                        p + lc.len() <= s.len()
                            && lc.iter().zip(&s[p..]).all(|(a, b)| a.eq_ignore_ascii_case(b))
                    })
                    .map(|&p| p + lc.len())
                    .collect()
            }
            R(lo, hi) => from
                .iter()
                .filter(|&&p| p < s.len() && (*lo..=*hi).contains(&(s[p] as u32)))
                .map(|&p| p + 1)
                .collect(),
            S(items) => {
                let mut cur = from.to_vec();
                for it in items {
                    if cur.is_empty() {
                        break;
                    }
                    cur = ends(it, s, &cur);
                }
                cur
            }
            A(items) => {
                let mut out: Vec<usize> = vec![];
                for it in items {
                    out.extend(ends(it, s, from));
                }
                out.sort_unstable();
                out.dedup();
                out
            }
            N(min, max, inner) => {
                let mut out: Vec<usize> = if *min == 0 { from.to_vec() } else { vec![] };
                let mut cur = from.to_vec();
                let mut i = 0usize;
                loop {
                    if let Some(mx) = max {
                        if i >= *mx {
                            break;
                        }
                    }
                    if i > min + s.len() + 1 {
                        break;
                    }
                    cur = ends(inner, s, &cur);
                    if cur.is_empty() {
                        break;
                    }
                    i += 1;
                    if i >= *min {
                        out.extend(cur.iter().copied());
                    }
                }
                out.sort_unstable();
                out.dedup();
                out
            }
            Ref(name) => ends(GRAMMAR.get(name).unwrap_or_else(|| panic!("no rule {name}")), s, from),
        }
    }

    /// Does the whole of `text` match `rule_name`?
    pub fn matches(rule_name: &str, text: &str) -> bool {
        let s: Vec<char> = text.chars().collect();
        let g = GRAMMAR.get(rule_name).unwrap_or_else(|| panic!("no rule {rule_name}"));
        ends(g, &s, &[0]).contains(&s.len())
    }
    pub fn is_iri(text: &str) -> bool {
        matches("IRI", text)
    }
    pub fn is_relative_ref(text: &str) -> bool {
        matches("irelative-ref", text)
    }
    pub fn is_iri_reference(text: &str) -> bool {
        matches("IRI-reference", text)
    }

    // ------------------------------------------------------------ generation from the grammar

    /// A tape of random choices; exhausted tape = always choice 0 (first alternative, fewest repetitions).
    pub struct Tape<'a> {
        pub t: &'a [u32],
        pub i: usize,
    }
    impl Tape<'_> {
        pub fn next(&mut self, n: usize) -> usize {
            let v = self.t.get(self.i).copied().unwrap_or(0);
            self.i += 1;
            (v as usize) % n.max(1)
        }
    }

    /// Random derivation of `g`, with boundary-biased choices for ranges and repetition counts.
    pub fn derive(g: &G, tape: &mut Tape, out: &mut String, depth: usize) {
        match g {
            L(lit) => {
                if lit.chars().any(|c| c.is_ascii_alphabetic()) && tape.next(3) == 1 {
                    // ABNF strings are case-insensitive
                    for c in lit.chars() {
                        out.push(if c.is_ascii_uppercase() { c.to_ascii_lowercase() } else { c.to_ascii_uppercase() });
                    }
                } else {
                    out.push_str(lit);
                }
            }
            R(lo, hi) => {
                let span = hi - lo;
                let v = match tape.next(7) {
                    0 => *lo,
                    1 => *hi,
                    2 => lo + 1u32.min(span),
                    3 => hi - 1u32.min(span),
                    _ => lo + (tape.next(1 << 30) as u32) % (span + 1),
                };
                out.push(char::from_u32(v).unwrap_or('a'));
            }
            S(items) => {
                for it in items {
                    derive(it, tape, out, depth + 1);
                }
            }
            A(items) => {
                let k = if depth > 200 { 0 } else { tape.next(items.len()) };
                derive(&items[k], tape, out, depth + 1);
            }
            N(min, max, inner) => {
                let cap = max.unwrap_or(min + 4);
                let n = match tape.next(7) {
                    0 => *min,
                    1 => (min + 1).min(cap),
                    2 => cap,
                    3 => (min + 2).min(cap),
                    4 => min + tape.next(cap - min + 1),
                    // an unbounded repetition is unbounded: now and then a long run (6-40 items), beyond any
                    // small limit an implementation might have put on a port, a label, a number of segments
                    6 if max.is_none() && depth < 40 => min + 5 + tape.next(35),
                    _ => cap.saturating_sub(1).max(*min),
                };
                let n = if depth > 200 { *min } else { n };
                for _ in 0..n {
                    derive(inner, tape, out, depth + 1);
                }
            }
            Ref(name) => derive(GRAMMAR.get(name).unwrap_or_else(|| panic!("no rule {name}")), tape, out, depth + 1),
        }
    }
    pub fn derive_rule(name: &str, tape: &mut Tape, out: &mut String) {
        derive(GRAMMAR.get(name).unwrap_or_else(|| panic!("no rule {name}")), tape, out, 0)
    }

    // ------------------------------------------------------------ RFC 3986 section 5.2

    #[derive(Clone, Debug, PartialEq, Eq)]
    pub struct Parts<'a> {
        pub scheme: Option<&'a str>,
        pub authority: Option<&'a str>,
        pub path: &'a str,
        pub query: Option<&'a str>,
        pub fragment: Option<&'a str>,
    }

    /// Appendix B: ^(([^:/?#]+):)?(//([^/?#]*))?([^?#]*)(\?([^#]*))?(#(.*))?
    pub fn split(s: &str) -> Parts<'_> {
        let mut rest = s;
        let mut scheme = None;
        // (([^:/?#]+):)?
        if let Some(i) = rest.find([':', '/', '?', '#']) {
            if i > 0 && rest[i..].starts_with(':') {
                scheme = Some(&rest[..i]);
                rest = &rest[i + 1..];
            }
        }
        // (//([^/?#]*))?
        let mut authority = None;
        if let Some(r2) = rest.strip_prefix("//") {
            let e = r2.find(['/', '?', '#']).unwrap_or(r2.len());
            authority = Some(&r2[..e]);
            rest = &r2[e..];
        }
        // ([^?#]*)
        let e = rest.find(['?', '#']).unwrap_or(rest.len());
        let path = &rest[..e];
        rest = &rest[e..];
        // (\?([^#]*))?
        let mut query = None;
        if let Some(r2) = rest.strip_prefix('?') {
            let e = r2.find('#').unwrap_or(r2.len());
            query = Some(&r2[..e]);
            rest = &r2[e..];
        }
        // (#(.*))?
        let fragment = rest.strip_prefix('#');
        Parts { scheme, authority, path, query, fragment }
    }

    /// 5.2.4
    pub fn remove_dot_segments(path: &str) -> String {
        let mut input: String = path.to_string();
        let mut output = String::new();
        fn drop_last_segment(output: &mut String) {
            // "removing the last segment and its preceding "/" (if any) from the output buffer"
            match output.rfind('/') {
                Some(i) => output.truncate(i),
                None => output.clear(),
            }
        }
        while !input.is_empty() {
            if input.starts_with("../") {
                // A
                input.drain(..3);
            } else if input.starts_with("./") {
                input.drain(..2);
            } else if input.starts_with("/./") {
                // B
                input.drain(..2);
            } else if input == "/." {
                input = "/".into();
            } else if input.starts_with("/../") {
                // C
                input.drain(..3);
                drop_last_segment(&mut output);
            } else if input == "/.." {
                input = "/".into();
                drop_last_segment(&mut output);
            } else if input == "." || input == ".." {
                // D
                input.clear();
            } else {
                // E: first path segment incl. the initial "/" (if any) up to, not including, the next "/"
                let start = if input.starts_with('/') { 1 } else { 0 };
                let e = input[start..].find('/').map(|i| i + start).unwrap_or(input.len());
                output.push_str(&input[..e]);
                input.drain(..e);
            }
        }
        output
    }

    /// 5.2.3
    pub fn merge(base: &Parts, rpath: &str) -> String {
        if base.authority.is_some() && base.path.is_empty() {
            format!("/{rpath}")
        } else {
            match base.path.rfind('/') {
                Some(i) => format!("{}{}", &base.path[..=i], rpath),
                None => rpath.to_string(),
            }
        }
    }

    #[derive(Clone, Debug, PartialEq, Eq)]
    pub struct Target {
        pub scheme: String,
        pub authority: Option<String>,
        pub path: String,
        pub query: Option<String>,
        pub fragment: Option<String>,
    }
    impl Target {
        /// 5.3
        pub fn recompose(&self) -> String {
            let mut r = String::new();
            r.push_str(&self.scheme);
            r.push(':');
            if let Some(a) = &self.authority {
                r.push_str("//");
                r.push_str(a);
            }
            r.push_str(&self.path);
            if let Some(q) = &self.query {
                r.push('?');
                r.push_str(q);
            }
            if let Some(f) = &self.fragment {
                r.push('#');
                r.push_str(f);
            }
            r
        }
    }

    /// 5.2.2 (strict parser). `base` must have a scheme.
    pub fn transform(base: &str, reference: &str) -> Target {
        let b = split(base);
        let r = split(reference);
        let o = |x: Option<&str>| x.map(str::to_string);
        let (scheme, authority, path, query);
        if let Some(rs) = r.scheme {
            scheme = rs.to_string();
            authority = o(r.authority);
            path = remove_dot_segments(r.path);
            query = o(r.query);
        } else {
            if r.authority.is_some() {
                authority = o(r.authority);
                path = remove_dot_segments(r.path);
                query = o(r.query);
            } else {
                if r.path.is_empty() {
                    path = b.path.to_string();
                    query = if r.query.is_some() { o(r.query) } else { o(b.query) };
                } else {
                    if r.path.starts_with('/') {
                        path = remove_dot_segments(r.path);
                    } else {
                        path = remove_dot_segments(&merge(&b, r.path));
                    }
                    query = o(r.query);
                }
                authority = o(b.authority);
            }
            scheme = b.scheme.unwrap_or("").to_string();
        }
        Target { scheme, authority, path, query, fragment: o(r.fragment) }
    }
    pub fn resolve(base: &str, reference: &str) -> String {
        transform(base, reference).recompose()
    }
    pub fn has_dot_segment(path: &str) -> bool {
        path.split('/').any(|s| s == "." || s == "..")
    }
}

// =====================================================================================

#[derive(Clone, Debug, Serialize, Deserialize)]
pub enum Case {
    /// validate one string (all validators), then use it as a base if accepted
    Str(String),
    /// a string and a one-character mutation of it (op 0 = delete, 1 = insert, 2 = replace)
    Mut { orig: String, pos: u32, op: u8, ch: char },
    /// resolve `rf` against `base` through every API
    Pair { base: String, rf: String },
    /// Namespace::new(ns) / get(suffix) / is_valid_suffixed_iri_ref
    Ns { ns: String, suffix: String },
    /// self-test of the reference implementation against the tables printed in RFC 3986
    SelfTest,
}

pub struct C09;

/// Characters used for mutations: every delimiter, both sides of every ucschar / iprivate range
/// boundary, and characters that are excluded everywhere.
pub fn mutation_chars() -> Vec<char> {
    let mut v: Vec<char> = ":/?#[]@%.-+~_!$&'()*,;=vVaAfFgGzZ0123456789 <>\"{}|\\^`\t\n\u{7f}\u{80}\u{9f}\u{a0}é"
        .chars()
        .collect();
    let bounds: &[(u32, u32)] = &[
        (0xA0, 0xD7FF),
        (0xE000, 0xF8FF),
        (0xF900, 0xFDCF),
        (0xFDF0, 0xFFEF),
        (0x10000, 0x1FFFD),
        (0x20000, 0x2FFFD),
        (0x80000, 0x8FFFD),
        (0xD0000, 0xDFFFD),
        (0xE0000, 0xE0FFF),
        (0xE1000, 0xEFFFD),
        (0xF0000, 0xFFFFD),
        (0x100000, 0x10FFFD),
    ];
    for (lo, hi) in bounds {
        for c in [lo.wrapping_sub(1), *lo, *hi, hi + 1] {
            if let Some(ch) = char::from_u32(c) {
                v.push(ch);
            }
        }
    }
    v.push('\u{FFFD}');
    v.push('\u{FFFE}');
    v.push('\u{10FFFF}');
    v
}

pub fn mutate(orig: &str, pos: u32, op: u8, ch: char) -> String {
    let cs: Vec<char> = orig.chars().collect();
    let mut out: Vec<char> = cs.clone();
    match op % 3 {
        0 => {
            if !cs.is_empty() {
                out.remove(pos as usize % cs.len());
            }
        }
        1 => out.insert(pos as usize % (cs.len() + 1), ch),
        _ => {
            if !cs.is_empty() {
                out[pos as usize % cs.len()] = ch;
            } else {
                out.push(ch);
            }
        }
    }
    out.into_iter().collect()
}

#[derive(Clone, Debug)]
enum Piece {
    T(&'static str),
    R(&'static str),
}
use Piece::{R as PR, T as PT};

/// Templates: sequences of literal text and grammar rules. The first group produces members of
/// the productions by construction, the second group near misses.
fn templates() -> Vec<Vec<Piece>> {
    vec![
        vec![PR("IRI")],
        vec![PR("IRI")],
        vec![PR("irelative-ref")],
        vec![PR("irelative-ref")],
        vec![PR("scheme"), PT("://"), PR("iauthority"), PR("ipath-abempty")],
        vec![PR("scheme"), PT("://"), PR("iauthority"), PR("ipath-abempty"), PT("?"), PR("iquery"), PT("#"), PR("ifragment")],
        vec![PT("http://["), PR("IPv6address"), PT("]"), PR("ipath-abempty")],
        vec![PT("http://["), PR("IPv6address"), PT("]")],
        vec![PT("//["), PR("IPv6address"), PT("]:"), PR("port"), PT("/")],
        vec![PT("x://"), PR("iuserinfo"), PT("@["), PR("IPv6address"), PT("]:"), PR("port")],
        vec![PT("http://["), PR("IPvFuture"), PT("]/")],
        vec![PT("//["), PR("IPvFuture"), PT("]")],
        vec![PT("http://"), PR("IPv4address"), PT("/")],
        vec![PT("http://"), PR("IPv4address"), PT(":"), PR("port")],
        vec![PT("http://"), PR("iuserinfo"), PT("@"), PR("ihost"), PT(":"), PR("port"), PR("ipath-abempty")],
        vec![PT("//"), PR("iauthority"), PR("ipath-abempty")],
        vec![PR("scheme"), PT(":"), PR("ipath-absolute")],
        vec![PR("scheme"), PT(":"), PR("ipath-rootless")],
        vec![PR("scheme"), PT(":"), PT("?"), PR("iquery")],
        vec![PR("ipath-noscheme")],
        vec![PR("ipath-absolute"), PT("?"), PR("iquery"), PT("#"), PR("ifragment")],
        vec![PT("http://a/"), PR("isegment"), PT("/"), PR("isegment-nz"), PT("?"), PR("iquery")],
        vec![PT("http://a/#"), PR("ifragment")],
        vec![PT("http://"), PR("ireg-name"), PT("/")],
        // ---- near misses
        vec![PT("http://["), PR("gen:ipv6ish"), PT("]/")],
        vec![PT("http://["), PR("gen:ipv6ish"), PT("]/")],
        vec![PT("//["), PR("gen:ipv6ish"), PT("]")],
        vec![PT("http://"), PR("gen:ipv4ish"), PT("/")],
        vec![PT("http://["), PR("gen:ipv4ish"), PT("]/")],
        vec![PT("http://[::"), PR("gen:ipv4ish"), PT("]/")],
        vec![PT("http://[::"), PR("gen:ipv4near"), PT("]/")],
        vec![PT("//[1:2:3:4:5:6:"), PR("gen:ipv4near"), PT("]")],
        vec![PT("http://[1::2:"), PR("gen:ipv4near"), PT("]:1/")],
        vec![PT("http://"), PR("gen:ipv4near"), PT("/")],
        vec![PR("scheme"), PT("://"), PR("ihost"), PT(":"), PR("port"), PR("isegment"), PT("/")],
        vec![PR("scheme"), PT("://"), PR("gen:junkseg"), PT("/"), PR("isegment")],
        vec![PR("scheme"), PT(":"), PT("//"), PR("iuserinfo"), PT("@"), PR("iuserinfo"), PT("@"), PR("ireg-name")],
        vec![PR("scheme"), PT(":/"), PR("ipath-absolute")],
        vec![PR("ipath-absolute"), PR("ipath-absolute")],
        vec![PT("//"), PR("ihost"), PT(":"), PR("port"), PR("isegment-nz")],
        vec![PR("isegment-nz"), PR("ipath-abempty")],
        vec![PR("gen:junkseg"), PT("?"), PR("gen:junkseg"), PT("#"), PR("gen:junkseg")],
        vec![PT("http://a/"), PR("gen:pctish"), PR("isegment")],
        vec![PR("scheme"), PR("ipath-rootless")],
        vec![PR("DIGIT"), PR("scheme"), PT(":"), PR("ipath-rootless")],
        vec![PT("http://a/?"), PR("iquery"), PT("#"), PR("iquery")],
    ]
}

fn expand(template: usize, tape: &[u32]) -> String {
    let ts = templates();
    let t = &ts[template % ts.len()];
    let mut tp = rfc::Tape { t: tape, i: 0 };
    let mut out = String::new();
    for p in t {
        match p {
            PT(s) => out.push_str(s),
            PR(r) => rfc::derive_rule(r, &mut tp, &mut out),
        }
    }
    out
}

fn gen_string() -> BoxedStrategy<String> {
    let n = templates().len();
    (0..n, prop::collection::vec(any::<u32>(), 8..96))
        .prop_map(|(t, tape)| expand(t, &tape))
        .boxed()
}

fn seg_pool_base() -> Vec<&'static str> {
    vec!["a", "b", "c", "", ".", "..", "d:e", "é", "%2E", "x.y", "..."]
}
fn seg_pool_ref() -> Vec<&'static str> {
    vec!["..", ".", "a", "g", "", "b:c", "...", "..a", ".a", "a.", "%2e%2e", "é", ";x", "g;x=1"]
}

fn structured_base() -> BoxedStrategy<String> {
    (
        pick_str(&["http", "a", "x-y.z+1", "file", "urn"]),
        pick(vec![None, Some(""), Some("a"), Some("u@h:80"), Some("[::1]"), Some("é.org")]),
        any::<bool>(),
        prop::collection::vec(pick(seg_pool_base()), 0..6),
        pick(vec![None, Some("q"), Some("a/b?c"), Some(""), Some("x=../y")]),
        pick(vec![None, Some("f"), Some("")]),
    )
        .prop_map(|(s, auth, rooted, segs, q, f)| {
            let mut out = format!("{s}:");
            let mut path = segs.join("/");
            if let Some(a) = auth {
                out.push_str("//");
                out.push_str(a);
                if !segs.is_empty() {
                    path = format!("/{path}");
                }
            } else if rooted && !path.starts_with('/') {
                path = format!("/{path}");
            }
            out.push_str(&path);
            if let Some(q) = q {
                out.push('?');
                out.push_str(q);
            }
            if let Some(f) = f {
                out.push('#');
                out.push_str(f);
            }
            out
        })
        .boxed()
}

fn structured_ref() -> BoxedStrategy<String> {
    (
        pick(vec![None, None, None, None, None, None, None, Some("http"), Some("a"), Some("x")]),
        pick(vec![None, None, None, None, None, None, None, None, Some("h"), Some(""), Some("[::2]:8")]),
        0..4u8,
        prop::collection::vec(pick(seg_pool_ref()), 0..6),
        pick(vec![None, None, Some("y"), Some(""), Some("a/../b")]),
        pick(vec![None, None, Some("s"), Some(""), Some("s/../x")]),
    )
        .prop_map(|(s, auth, lead, segs, q, f)| {
            let mut out = String::new();
            if let Some(s) = s {
                out.push_str(s);
                out.push(':');
            }
            let mut path = segs.join("/");
            if let Some(a) = auth {
                out.push_str("//");
                out.push_str(a);
                if !segs.is_empty() {
                    path = format!("/{path}");
                }
            } else {
                match lead {
                    0 => path = format!("/{path}"),
                    1 if !path.is_empty() => path = format!("./{path}"),
                    _ => {}
                }
            }
            out.push_str(&path);
            if let Some(q) = q {
                out.push('?');
                out.push_str(q);
            }
            if let Some(f) = f {
                out.push('#');
                out.push_str(f);
            }
            out
        })
        .boxed()
}

/// Find the content of the first `[...]` (IP literal candidate).
fn bracket_content(s: &str) -> Option<&str> {
    let i = s.find('[')?;
    let rest = &s[i + 1..];
    Some(match rest.find(']') {
        Some(j) => &rest[..j],
        None => rest,
    })
}

/// Stable key describing which part of the *input* is the likely trigger of a validator disagreement.
fn trigger(s: &str) -> &'static str {
    if let Some(inner) = bracket_content(s) {
        if inner.starts_with(['v', 'V']) {
            return if inner.starts_with('V') { "ipvfuture-uppercase-v" } else { "ipvfuture" };
        }
        if inner.contains("::") {
            return "ipv6-elision";
        }
        return "ip-literal";
    }
    // after the scheme (if any)
    let rest = match s.find([':', '/', '?', '#']) {
        Some(i) if i > 0 && s[i..].starts_with(':') && rfc::matches("scheme", &s[..i]) => &s[i + 1..],
        _ => s,
    };
    if rest.starts_with("//") {
        "double-slash-not-authority"
    } else if s.contains('%') {
        "percent"
    } else if !s.is_ascii() {
        "non-ascii"
    } else {
        "other"
    }
}

struct Verdict {
    abs: bool,
    rel: bool,
}
fn reference_verdict(s: &str) -> Verdict {
    Verdict { abs: rfc::is_iri(s), rel: rfc::is_relative_ref(s) }
}

fn short(s: &str) -> String {
    format!("{:?}", s)
}

/// Compare every validator with the reference; then exercise the base constructors. Returns
/// (reference verdict, sophia accepts as Iri, sophia accepts as IriRef)
fn check_string(s: &str, ctx: &mut Ctx) -> (Verdict, bool, bool) {
    use sophia_iri::resolve::{BaseIri, BaseIriRef};
    use sophia_iri::{is_absolute_iri_ref, is_relative_iri_ref, is_valid_iri_ref, Iri, IriRef};
    let v = reference_verdict(s);
    let any = v.abs || v.rel;
    let tr = trigger(s);
    let got_abs = is_absolute_iri_ref(s);
    let got_rel = is_relative_iri_ref(s);
    let got_any = is_valid_iri_ref(s);
    let iri_ok = Iri::new(s).is_ok();
    let iriref_ok = IriRef::new(s).is_ok();
    let iri_ok_s = Iri::new(s.to_string()).is_ok();
    let mut mismatch = vec![];
    if got_abs != v.abs {
        mismatch.push(format!("is_absolute_iri_ref={got_abs} but RFC 3987 IRI={}", v.abs));
    }
    if got_rel != v.rel {
        mismatch.push(format!("is_relative_iri_ref={got_rel} but RFC 3987 irelative-ref={}", v.rel));
    }
    if got_any != any {
        mismatch.push(format!("is_valid_iri_ref={got_any} but RFC 3987 IRI-reference={any}"));
    }
    if iri_ok != v.abs || iri_ok_s != v.abs {
        mismatch.push(format!("Iri::new ok={iri_ok}/{iri_ok_s} but RFC 3987 IRI={}", v.abs));
    }
    if iriref_ok != any {
        mismatch.push(format!("IriRef::new ok={iriref_ok} but RFC 3987 IRI-reference={any}"));
    }
    // every accepted value can be used as a base
    let mut base_problems = vec![];
    if iri_ok {
        match catch(|| {
            let i = Iri::new(s).unwrap();
            let b = i.as_base();
            b.as_str().len()
        }) {
            Ok(n) if n == s.len() => {}
            Ok(n) => base_problems.push(format!("Iri::as_base() changed the string (len {n})")),
            Err(e) => base_problems.push(format!("Iri::as_base() panicked: {e}")),
        }
        if let Err(e) = catch(|| Iri::new(s.to_string()).unwrap().to_base().into_inner()) {
            base_problems.push(format!("Iri::to_base() panicked: {e}"));
        }
        if let Err(e) = BaseIri::new(s) {
            base_problems.push(format!("BaseIri::new rejects it: {e}"));
        }
    }
    if iriref_ok {
        if let Err(e) = catch(|| {
            let i = IriRef::new(s).unwrap();
            let b = i.as_base();
            b.as_str().len()
        }) {
            base_problems.push(format!("IriRef::as_base() panicked: {e}"));
        }
        if let Err(e) = catch(|| {
            let b = IriRef::new(s.to_string()).unwrap().to_base();
            b.as_str().len()
        }) {
            base_problems.push(format!("IriRef::to_base() panicked: {e}"));
        }
        if let Err(e) = BaseIriRef::new(s) {
            base_problems.push(format!("BaseIriRef::new rejects it: {e}"));
        }
    }
    if !mismatch.is_empty() {
        let dir = if (got_any && !any) || (got_abs && !v.abs) || (got_rel && !v.rel) || (iri_ok && !v.abs) {
            "accepts-invalid"
        } else {
            "rejects-valid"
        };
        ctx.fail(
            format!("validate/{tr}/{dir}"),
            format!("string {}: {}{}", short(s), mismatch.join("; "), if base_problems.is_empty() { String::new() } else { format!("; consequences: {}", base_problems.join("; ")) }),
        );
    } else if !base_problems.is_empty() {
        ctx.fail(
            format!("base/{tr}"),
            format!("string {} is accepted (and is valid per RFC 3987) but: {}", short(s), base_problems.join("; ")),
        );
    }
    (v, iri_ok, iriref_ok)
}

fn interesting(s: &str) -> bool {
    s.contains('[') || s.contains('%') || !s.is_ascii()
}

fn classify_string(s: &str, v: &Verdict, ctx: &mut Ctx) {
    ctx.class(if v.abs {
        "str:IRI"
    } else if v.rel {
        "str:irelative-ref"
    } else {
        "str:invalid"
    });
    if v.abs || v.rel {
        let p = rfc::split(s);
        if let Some(a) = p.authority {
            ctx.class("valid:authority");
            if let Some(inner) = bracket_content(a) {
                if inner.starts_with(['v', 'V']) {
                    ctx.class("valid:ipvfuture");
                } else {
                    // which IPv6 alternative (by what follows/precedes "::")
                    let label = match inner.find("::") {
                        None => "valid:ipv6-full".to_string(),
                        Some(i) => {
                            let before = if i == 0 { 0 } else { inner[..i].split(':').count() };
                            let after_s = &inner[i + 2..];
                            let after = if after_s.is_empty() { 0 } else { after_s.split(':').count() };
                            format!("valid:ipv6-{before}::{after}{}", if after_s.contains('.') { "+v4" } else { "" })
                        }
                    };
                    ctx.class(label);
                }
            } else if rfc::matches("IPv4address", a.rsplit('@').next().unwrap_or("").split(':').next().unwrap_or("")) {
                ctx.class("valid:ipv4");
            }
            if a.contains('@') {
                ctx.class("valid:userinfo");
            }
            if a.rsplit(']').next().unwrap_or("").rsplit('@').next().unwrap_or("").contains(':') {
                ctx.class("valid:port");
            }
        }
        if p.path.contains("//") || (p.authority.is_some() && p.path.starts_with("//")) {
            ctx.class("valid:empty-segment");
        }
        if s.contains('%') {
            ctx.class("valid:pct");
        }
        if !s.is_ascii() {
            ctx.class("valid:non-ascii");
        }
        if s.chars().any(|c| rfc::matches("iprivate", &c.to_string())) {
            ctx.class("valid:iprivate");
        }
    }
}

/// names of the pair classes used for both statistics and signatures
fn pair_kind(base: &str, rf: &str) -> &'static str {
    let b = rfc::split(base);
    let r = rfc::split(rf);
    if r.scheme.is_some() {
        if rfc::has_dot_segment(r.path) {
            "ref-with-scheme-has-dot-segments"
        } else {
            "ref-with-scheme"
        }
    } else if r.authority.is_some() {
        if rfc::has_dot_segment(r.path) {
            "ref-with-authority-has-dot-segments"
        } else {
            "ref-with-authority"
        }
    } else if r.path.is_empty() {
        "ref-empty-path"
    } else {
        let t = rfc::transform(base, rf);
        let absolute_ref = r.path.starts_with('/');
        if t.authority.is_none() {
            // the resolver refuses a path that starts with "//" when there is no authority, and it
            // applies that test after every segment: the trigger is a path that starts with "//"
            // at the end *or* once its leading dot segments are removed
            let merged = if absolute_ref { r.path.to_string() } else { rfc::merge(&b, r.path) };
            let mut m = merged.as_str();
            loop {
                if let Some(x) = m.strip_prefix("./").or_else(|| m.strip_prefix("../")) {
                    m = x;
                } else if m.starts_with("/./") {
                    m = &m[2..];
                } else if m.starts_with("/../") {
                    m = &m[3..];
                } else {
                    break;
                }
            }
            if t.path.starts_with("//") || m.starts_with("//") {
                return "result-path-starts-with-two-slashes";
            }
        }
        let dir = match b.path.rfind('/') {
            Some(i) => &b.path[..=i],
            None => "",
        };
        let merged = if absolute_ref { r.path.to_string() } else { rfc::merge(&b, r.path) };
        if !absolute_ref && rfc::has_dot_segment(dir) {
            "merge-base-path-has-dot-segments"
        } else if b.authority.is_none() && dotdot_reaches_root(&merged) {
            "no-authority-dotdot-reaches-root"
        } else if absolute_ref {
            "ref-absolute-path"
        } else if b.authority.is_none() {
            "merge-no-authority"
        } else {
            "merge"
        }
    }
}

/// Does some ".." segment of `path` pop the first segment (or hit the root)?
fn dotdot_reaches_root(path: &str) -> bool {
    let mut level = 0i64;
    let p = path.strip_prefix('/').unwrap_or(path);
    for s in p.split('/') {
        match s {
            ".." => {
                if level <= 1 {
                    return true;
                }
                level -= 1;
            }
            "." => {}
            _ => level += 1,
        }
    }
    false
}

fn check_pair(base: &str, rf: &str, ctx: &mut Ctx) {
    use sophia_iri::resolve::{BaseIri, BaseIriRef};
    use sophia_iri::{Iri, IriRef};
    let (vb, b_ok, _) = check_string(base, ctx);
    let (vr, _, r_ok) = check_string(rf, ctx);
    if !(vb.abs && (vr.abs || vr.rel)) {
        ctx.class("pair:skipped-not-in-domain");
        return;
    }
    if !(b_ok && r_ok) {
        // already reported by check_string
        ctx.class("pair:skipped-validator-disagrees");
        return;
    }
    let kind = pair_kind(base, rf);
    ctx.class(format!("pair:{kind}"));
    ctx.nontrivial();
    let expected = rfc::resolve(base, rf);
    let exp_valid = rfc::is_iri(&expected);
    if !exp_valid {
        ctx.class("pair:rfc-result-not-an-IRI");
        if std::env::var_os("C09_DEBUG").is_some() {
            eprintln!("rfc-result-not-an-IRI: base {base:?} ref {rf:?} -> {expected:?}");
        }
    }
    let mut problems: Vec<String> = vec![];
    let mut record = |name: &str, got: Result<Result<String, String>, String>| match got {
        Ok(Ok(g)) => {
            if g != expected {
                problems.push(format!("{name} = {} (expected {})", short(&g), short(&expected)));
            } else if !rfc::is_iri(&g) || Iri::new(g.as_str()).is_err() {
                problems.push(format!("{name} = {} is not an accepted absolute IRI", short(&g)));
            }
        }
        Ok(Err(e)) => problems.push(format!("{name} returned Err({e}) (expected {})", short(&expected))),
        Err(p) => problems.push(format!("{name} panicked: {p} (expected {})", short(&expected))),
    };
    // 1. typed resolve (Iri x IriRef -> Iri<String>)
    record(
        "Iri::resolve(IriRef)",
        catch(|| Ok(Iri::new(base).unwrap().resolve(IriRef::new(rf).unwrap()).unwrap())),
    );
    // 2. BaseIri (borrowed) x &str -> Result
    record(
        "Iri::as_base().resolve(&str)",
        catch(|| Iri::new(base).unwrap().as_base().resolve(rf).map(|i| i.unwrap()).map_err(|e| e.to_string())),
    );
    // 3. resolve_into, typed
    record(
        "BaseIri::resolve_into(IriRef)",
        catch(|| {
            let b = BaseIri::new(base.to_string()).map_err(|e| e.to_string())?;
            let mut buf = String::new();
            let r = b.resolve_into(IriRef::new(rf).unwrap(), &mut buf);
            Ok(r.unwrap().to_string())
        }),
    );
    // 4. resolve_into, &str
    record(
        "Iri::to_base().resolve_into(&str)",
        catch(|| {
            let b = Iri::new(base.to_string()).unwrap().to_base();
            let mut buf = String::from("junk");
            buf.clear();
            let r = b.resolve_into(rf, &mut buf).map(|i| i.unwrap().to_string()).map_err(|e| e.to_string());
            r
        }),
    );
    // 5. through IriRef / BaseIriRef
    record(
        "IriRef::resolve(IriRef)",
        catch(|| Ok(IriRef::new(base).unwrap().resolve(IriRef::new(rf).unwrap()).unwrap())),
    );
    record(
        "BaseIriRef::resolve(&str)",
        catch(|| {
            let b = BaseIriRef::new(base).map_err(|e| e.to_string())?;
            b.resolve(rf).map(|i| i.unwrap()).map_err(|e| e.to_string())
        }),
    );
    // 6. a typed absolute reference (Iri) as the reference
    if vr.abs {
        record(
            "BaseIri::resolve(Iri)",
            catch(|| Ok(Iri::new(base).unwrap().as_base().resolve(Iri::new(rf).unwrap()).unwrap())),
        );
    }
    if !problems.is_empty() {
        ctx.fail(
            format!("resolve/{kind}"),
            format!("base {} ref {}: {}", short(base), short(rf), problems.join("; ")),
        );
    }
}

fn check_ns(ns: &str, suffix: &str, ctx: &mut Ctx) {
    use sophia_api::ns::Namespace;
    use sophia_iri::is_valid_suffixed_iri_ref;
    let whole = format!("{ns}{suffix}");
    let exp_ns = rfc::is_iri_reference(ns);
    let exp_whole = rfc::is_iri_reference(&whole);
    ctx.class(match (exp_ns, exp_whole) {
        (true, true) => "ns:valid+valid",
        (true, false) => "ns:valid+invalid",
        (false, true) => "ns:invalid+valid",
        (false, false) => "ns:invalid+invalid",
    });
    if exp_ns != exp_whole || interesting(&whole) {
        ctx.nontrivial();
    }
    let tr = trigger(&whole);
    let mut problems = vec![];
    let got = is_valid_suffixed_iri_ref(ns, Some(suffix));
    if got != exp_whole {
        problems.push(format!("is_valid_suffixed_iri_ref(ns, Some(suffix)) = {got}, RFC 3987 IRI-reference(ns+suffix) = {exp_whole}"));
    }
    let got_none = is_valid_suffixed_iri_ref(&whole, None);
    if got_none != exp_whole {
        problems.push(format!("is_valid_suffixed_iri_ref(ns+suffix, None) = {got_none}, expected {exp_whole}"));
    }
    match Namespace::new(ns) {
        Ok(n) => {
            if !exp_ns {
                problems.push(format!("Namespace::new accepts {}", short(ns)));
            }
            let g = n.get(suffix).is_ok();
            if g != exp_whole {
                problems.push(format!("Namespace::get ok = {g}, RFC 3987 IRI-reference(ns+suffix) = {exp_whole}"));
            }
        }
        Err(_) => {
            if exp_ns {
                problems.push(format!("Namespace::new rejects {}", short(ns)));
            }
        }
    }
    if !problems.is_empty() {
        let dir = if problems.iter().any(|p| p.contains("= true, ") || p.contains("accepts")) { "accepts-invalid" } else { "rejects-valid" };
        ctx.fail(format!("validate/{tr}/{dir}"), format!("ns {} suffix {}: {}", short(ns), short(suffix), problems.join("; ")));
    }
}

fn self_test(ctx: &mut Ctx) {
    // RFC 3986 section 5.4.1 and 5.4.2 (strict parser), base http://a/b/c/d;p?q
    let base = "http://a/b/c/d;p?q";
    let table: &[(&str, &str)] = &[
        ("g:h", "g:h"),
        ("g", "http://a/b/c/g"),
        ("./g", "http://a/b/c/g"),
        ("g/", "http://a/b/c/g/"),
        ("/g", "http://a/g"),
        ("//g", "http://g"),
        ("?y", "http://a/b/c/d;p?y"),
        ("g?y", "http://a/b/c/g?y"),
        ("#s", "http://a/b/c/d;p?q#s"),
        ("g#s", "http://a/b/c/g#s"),
        ("g?y#s", "http://a/b/c/g?y#s"),
        (";x", "http://a/b/c/;x"),
        ("g;x", "http://a/b/c/g;x"),
        ("g;x?y#s", "http://a/b/c/g;x?y#s"),
        ("", "http://a/b/c/d;p?q"),
        (".", "http://a/b/c/"),
        ("./", "http://a/b/c/"),
        ("..", "http://a/b/"),
        ("../", "http://a/b/"),
        ("../g", "http://a/b/g"),
        ("../..", "http://a/"),
        ("../../", "http://a/"),
        ("../../g", "http://a/g"),
        ("../../../g", "http://a/g"),
        ("../../../../g", "http://a/g"),
        ("/./g", "http://a/g"),
        ("/../g", "http://a/g"),
        ("g.", "http://a/b/c/g."),
        (".g", "http://a/b/c/.g"),
        ("g..", "http://a/b/c/g.."),
        ("..g", "http://a/b/c/..g"),
        ("./../g", "http://a/b/g"),
        ("./g/.", "http://a/b/c/g/"),
        ("g/./h", "http://a/b/c/g/h"),
        ("g/../h", "http://a/b/c/h"),
        ("g;x=1/./y", "http://a/b/c/g;x=1/y"),
        ("g;x=1/../y", "http://a/b/c/y"),
        ("g?y/./x", "http://a/b/c/g?y/./x"),
        ("g?y/../x", "http://a/b/c/g?y/../x"),
        ("g#s/./x", "http://a/b/c/g#s/./x"),
        ("g#s/../x", "http://a/b/c/g#s/../x"),
        ("http:g", "http:g"),
    ];
    for (r, exp) in table {
        let got = rfc::resolve(base, r);
        if got != *exp {
            ctx.fail("harness/self-test", format!("reference resolver: {r:?} -> {got:?}, RFC 3986 5.4 says {exp:?}"));
        }
    }
    // 5.2.4 worked examples
    for (i, o) in [("/a/b/c/./../../g", "/a/g"), ("mid/content=5/../6", "mid/6")] {
        let got = rfc::remove_dot_segments(i);
        if got != o {
            ctx.fail("harness/self-test", format!("remove_dot_segments({i:?}) = {got:?}, RFC says {o:?}"));
        }
    }
    // recogniser: examples from RFC 3986 section 1.1.2, RFC 4291 / RFC 5952 textual forms, RFC 3987
    let valid_iri = [
        "ftp://ftp.is.co.za/rfc/rfc1808.txt",
        "http://www.ietf.org/rfc/rfc2396.txt",
        "ldap://[2001:db8::7]/c=GB?objectClass?one",
        "mailto:John.Doe@example.com",
        "news:comp.infosystems.www.servers.unix",
        "tel:+1-816-555-1212",
        "telnet://192.0.2.16:80/",
        "urn:oasis:names:specification:docbook:dtd:xml:4.1.2",
        "http://[ABCD:EF01:2345:6789:ABCD:EF01:2345:6789]/",
        "http://[2001:DB8:0:0:8:800:200C:417A]/",
        "http://[FF01::101]/",
        "http://[::1]/",
        "http://[::]/",
        "http://[1::]/",
        "http://[1:2:3:4:5:6:7::]/",
        "http://[::2:3:4:5:6:7:8]/",
        "http://[1:2::3:4:5:6:7]/",
        "http://[1:2:3:4:5:6::8]/",
        "http://[0:0:0:0:0:0:13.1.68.3]/",
        "http://[::13.1.68.3]/",
        "http://[::FFFF:129.144.52.38]:80/index.html",
        "http://[1:2:3:4:5::129.144.52.38]/",
        "http://[v7.a:b]/",
        "http://[V7.a:b]/",
        "http://r\u{E9}sum\u{E9}.example.org",
        "http://example.org/?\u{E000}",
        "a:",
        "a:/",
        "a://",
        "a:///",
        "a://@:",
        "a://@:/",
        "http://256.1.1.1/",
        "http://1.2.3/",
        "http://a/%41%ff",
    ];
    for s in valid_iri {
        if !rfc::is_iri(s) || rfc::is_relative_ref(s) {
            ctx.fail("harness/self-test", format!("recogniser: {s:?} should be an IRI (and not a relative reference)"));
        }
    }
    let invalid = [
        "http://[1:2:3:4:5:6:7]/",
        "http://[1:2:3:4:5:6:7:8:9]/",
        "http://[1:2:3:4:5:6:7::8]/",
        "http://[:1::]/",
        "http://[1:::2]/",
        "http://[1::2::3]/",
        "http://[12345::]/",
        "http://[::1.2.3.256]/",
        "http://[::1.2.3]/",
        "http://[1.2.3.4::]/",
        "http://[::1.2.3.4:5]/",
        "http://[1:2:3:4:5:6::1.2.3.4]/",
        "http://[v.a]/",
        "http://[v1.]/",
        "http://[v1g.a]/",
        "http://[::1/",
        "http://a:80x/",
        "a://@@",
        "http://a b/",
        "http://a/%4",
        "http://a/%4g",
        "http://a/<",
        "http://a/\u{E000}",
        "http://a/#\u{E000}",
        "http://a/#a#b",
        "http://\u{FFF0}/",
        "1a:b",
        ":a",
        "",
        " http://a/",
    ];
    for s in invalid {
        if rfc::is_iri(s) {
            ctx.fail("harness/self-test", format!("recogniser: {s:?} should not be an IRI"));
        }
    }
    let valid_rel = ["", "a", "a/b:c", "./a:b", "//a", "//a:80/x", "/", "/a//b", "?q", "#f", "a%20b", "//[::1]", "//@", "..", "\u{E9}", "?\u{E000}", "a@b/c:d"];
    for s in valid_rel {
        if !rfc::is_relative_ref(s) || rfc::is_iri(s) {
            ctx.fail("harness/self-test", format!("recogniser: {s:?} should be a relative reference (and not an IRI)"));
        }
    }
    let invalid_ref = ["a:b c", ":a", "1:a/b", "//a:80x/", "//@@", "a b", "%", "%G0", "/\u{E000}", "#\u{E000}", "//[::1", "//[1:2]", "a#b#c", "[a]", "a/[b]"];
    for s in invalid_ref {
        if rfc::is_iri_reference(s) {
            ctx.fail("harness/self-test", format!("recogniser: {s:?} should not be an IRI reference"));
        }
    }
    // Appendix B split
    let p = rfc::split("http://www.ics.uci.edu/pub/ietf/uri/#Related");
    if p.scheme != Some("http") || p.authority != Some("www.ics.uci.edu") || p.path != "/pub/ietf/uri/" || p.query.is_some() || p.fragment != Some("Related") {
        ctx.fail("harness/self-test", format!("split: {p:?}"));
    }
    ctx.nontrivial();
}

impl Check for C09 {
    type Case = Case;
    const ID: &'static str = "C09";
    fn rule() -> String {
        "Str/Mut: a string (grammar-derived member of an RFC 3987 production, a near miss, or a one-character mutation of either) is non-trivial when it contains an IP literal, a percent sign or a non-ASCII character, or when the mutation flips the reference verdict; Pair: (base, reference) pairs where both are accepted by the reference and by sophia (all non-trivial); Ns: namespace/suffix splits where prefix and whole differ in validity or the whole is 'interesting' as above. Distinct by hash of the case.".into()
    }
    fn assumptions() -> Vec<String> {
        vec![
            "ABNF quoted strings are case-insensitive (RFC 5234 2.3): \"v\" in IPvFuture also matches 'V', HEXDIG matches a-f".into(),
            "the reference recogniser explores all alternatives (set of end positions), so it decides membership in the language of the ABNF, not first-match parsing".into(),
            "resolution oracle = RFC 3986 5.2.2 strict algorithm incl. remove_dot_segments on references with a scheme/authority and over the merged base path".into(),
        ]
    }
    fn cases(tier: Tier) -> u32 {
        tier.pick(800_000, 24_000_000)
    }
    fn fixed_cases(_tier: Tier, _seed: u64) -> Vec<Case> {
        let mut v = vec![Case::SelfTest];
        // the boundary code points of every range, in every component
        for c in mutation_chars() {
            for t in ["http://a{}b/", "http://a/{}", "http://a/?{}", "http://a/#{}", "http://u{}@h/", "{}", "a{}:b", "//{}", "?{}", "#{}", "http://[v1.{}]/", "http://a:8{}/"] {
                v.push(Case::Str(t.replace("{}", &c.to_string())));
            }
        }
        v
    }
    fn strategy(_tier: Tier) -> BoxedStrategy<Case> {
        let chars = mutation_chars();
        let s = gen_string();
        let mutant = (s.clone(), any::<u32>(), 0..3u8, pick(chars.clone()))
            .prop_map(|(orig, pos, op, ch)| Case::Mut { orig, pos, op, ch });
        let base = prop_oneof![3 => structured_base(), 2 => gen_string()];
        let rf = prop_oneof![4 => structured_ref(), 2 => gen_string()];
        let pair = (base, rf).prop_map(|(base, rf)| Case::Pair { base, rf });
        let ns = (prop_oneof![2 => gen_string(), 1 => structured_base()], any::<u32>(), prop::option::of((any::<u32>(), 0..3u8, pick(chars))))
            .prop_map(|(s, cut, m)| {
                let s = match m {
                    Some((pos, op, ch)) => mutate(&s, pos, op, ch),
                    None => s,
                };
                let cs: Vec<char> = s.chars().collect();
                let k = cut as usize % (cs.len() + 1);
                Case::Ns { ns: cs[..k].iter().collect(), suffix: cs[k..].iter().collect() }
            });
        prop_oneof![
            3 => s.prop_map(Case::Str),
            4 => mutant,
            4 => pair,
            1 => ns,
        ]
        .boxed()
    }
    fn run(case: &Case, ctx: &mut Ctx) {
        match case {
            Case::Str(s) => {
                let (v, ..) = check_string(s, ctx);
                classify_string(s, &v, ctx);
                if interesting(s) {
                    ctx.nontrivial();
                }
            }
            Case::Mut { orig, pos, op, ch } => {
                let m = mutate(orig, *pos, *op, *ch);
                let (v0, ..) = check_string(orig, ctx);
                let (v1, ..) = check_string(&m, ctx);
                classify_string(&m, &v1, ctx);
                let flipped = v0.abs != v1.abs || v0.rel != v1.rel;
                ctx.class(match (v0.abs || v0.rel, v1.abs || v1.rel) {
                    (true, true) => "mut:valid->valid",
                    (true, false) => "mut:valid->invalid",
                    (false, true) => "mut:invalid->valid",
                    (false, false) => "mut:invalid->invalid",
                });
                if flipped {
                    ctx.class("mut:verdict-flipped");
                }
                if flipped || interesting(&m) {
                    ctx.nontrivial();
                }
            }
            Case::Pair { base, rf } => check_pair(base, rf, ctx),
            Case::Ns { ns, suffix } => check_ns(ns, suffix, ctx),
            Case::SelfTest => self_test(ctx),
        }
    }
    fn show(case: &Case) -> Value {
        match case {
            Case::Mut { orig, pos, op, ch } => json!({"Mut": {"orig": orig, "mutant": mutate(orig, *pos, *op, *ch)}}),
            other => serde_json::to_value(other).unwrap_or(Value::Null),
        }
    }
}

pub fn main(opts: &Opts) -> i32 {
    drive::<C09>(opts)
}
pub fn worker(_args: &[String]) -> i32 {
    2
}
