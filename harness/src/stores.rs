//! Uniform access to every shipped store type through the public traits, with results
//! converted to model quads.
#![allow(dead_code)]

use crate::model::*;
use crate::pat::*;
use sophia_api::dataset::{CollectibleDataset, Dataset, MutableDataset};
use sophia_api::graph::{CollectibleGraph, Graph, MutableGraph};
use sophia_api::quad::{Gspo, Spog};
use sophia_api::source::StreamError;
use sophia_api::term::SimpleTerm;
use sophia_inmem::index::{Index, SimpleTermIndex};
use std::collections::{BTreeSet, HashSet};

pub type ST = SimpleTerm<'static>;

/// A tiny index type: exercises the real `ensure_index` capacity boundary
/// (`MAX` is reserved for the default graph, so `MAX` terms fit: indices 0..MAX-1).
#[derive(Clone, Copy, Debug, PartialEq, Eq, PartialOrd, Ord, Hash, Default)]
pub struct Tiny<const M: u8>(pub u8);
impl<const M: u8> Index for Tiny<M> {
    const ZERO: Self = Tiny(0);
    const MAX: Self = Tiny(M);
    fn from_usize(other: usize) -> Self {
        // saturate: ensure_index compares with MAX right after the conversion
        Tiny(other.min(M as usize) as u8)
    }
    fn into_usize(self) -> usize {
        self.0 as usize
    }
}

pub type TinyFastDataset<const M: u8> = sophia_inmem::dataset::GenericFastDataset<SimpleTermIndex<Tiny<M>>>;
pub type TinyLightDataset<const M: u8> = sophia_inmem::dataset::GenericLightDataset<SimpleTermIndex<Tiny<M>>>;
pub type TinyFastGraph<const M: u8> = sophia_inmem::graph::GenericFastGraph<SimpleTermIndex<Tiny<M>>>;
pub type TinyLightGraph<const M: u8> = sophia_inmem::graph::GenericLightGraph<SimpleTermIndex<Tiny<M>>>;

pub use sophia_inmem::dataset::{FastDataset, LightDataset};
pub use sophia_inmem::graph::{FastGraph, LightGraph};
pub type SmallFastDataset = sophia_inmem::dataset::small::FastDataset;
pub type SmallLightDataset = sophia_inmem::dataset::small::LightDataset;
pub type SmallFastGraph = sophia_inmem::graph::small::FastGraph;
pub type SmallLightGraph = sophia_inmem::graph::small::LightGraph;

pub type HashSpog = HashSet<Spog<ST>>;
pub type HashGspo = HashSet<Gspo<ST>>;
pub type BTreeSpog = BTreeSet<Spog<ST>>;
pub type BTreeGspo = BTreeSet<Gspo<ST>>;
pub type VecSpog = Vec<Spog<ST>>;
pub type VecGspo = Vec<Gspo<ST>>;
pub type HashTriples = HashSet<[ST; 3]>;
pub type BTreeTriples = BTreeSet<[ST; 3]>;
pub type VecTriples = Vec<[ST; 3]>;

fn e2s<E: std::fmt::Debug>(e: E) -> String {
    format!("{e:?}")
}

// ------------------------------------------------------------------ datasets

pub fn d_new<D: CollectibleDataset>() -> D {
    let v: Vec<Result<Spog<ST>, std::convert::Infallible>> = vec![];
    match D::from_quad_source(v.into_iter()) {
        Ok(d) => d,
        Err(_) => panic!("cannot build empty dataset"),
    }
}
pub fn d_from<D: CollectibleDataset>(qs: &[MQ]) -> Result<D, String> {
    let v: Vec<Result<Spog<ST>, std::convert::Infallible>> = qs.iter().map(|q| Ok(q.to_spog())).collect();
    D::from_quad_source(v.into_iter()).map_err(|e| match e {
        StreamError::SourceError(e) => format!("source:{e:?}"),
        StreamError::SinkError(e) => format!("sink:{e:?}"),
    })
}
pub fn d_insert<D: MutableDataset>(d: &mut D, q: &MQ) -> Result<bool, String> {
    let ([s, p, o], g) = q.to_spog();
    d.insert(s, p, o, g).map_err(e2s)
}
pub fn d_remove<D: MutableDataset>(d: &mut D, q: &MQ) -> Result<bool, String> {
    let ([s, p, o], g) = q.to_spog();
    d.remove(&s, &p, &o, g.as_ref()).map_err(e2s)
}
pub fn d_all<D: Dataset>(d: &D) -> Vec<MQ> {
    d.quads().map(|q| MQ::from_quad(q.expect("quads() error"))).collect()
}
pub fn d_matching<D: Dataset>(d: &D, pat: &QPat) -> Vec<MQ> {
    d.quads_matching(pat.s.real(), pat.p.real(), pat.o.real(), pat.g.real())
        .map(|q| MQ::from_quad(q.expect("quads_matching() error")))
        .collect()
}
pub fn d_contains<D: Dataset>(d: &D, q: &MQ) -> bool {
    let ([s, p, o], g) = q.to_spog();
    d.contains(&s, &p, &o, g.as_ref()).expect("contains() error")
}
pub fn d_remove_matching<D: MutableDataset>(d: &mut D, pat: &QPat) -> Result<usize, String>
where
    D::MutationError: From<D::Error>,
{
    d.remove_matching(pat.s.real(), pat.p.real(), pat.o.real(), pat.g.real())
        .map_err(e2s)
}
pub fn d_retain_matching<D: MutableDataset>(d: &mut D, pat: &QPat) -> Result<(), String>
where
    D::MutationError: From<D::Error>,
{
    d.retain_matching(pat.s.real(), pat.p.real(), pat.o.real(), pat.g.real())
        .map_err(e2s)
}
/// Ok(count) or Err((is_sink_error, message))
pub fn d_insert_all<D: MutableDataset>(d: &mut D, qs: &[MQ]) -> Result<usize, (bool, String)> {
    let v: Vec<Result<Spog<ST>, std::convert::Infallible>> = qs.iter().map(|q| Ok(q.to_spog())).collect();
    d.insert_all(v.into_iter()).map_err(|e| match e {
        StreamError::SourceError(e) => (false, format!("{e:?}")),
        StreamError::SinkError(e) => (true, format!("{e:?}")),
    })
}
pub fn d_remove_all<D: MutableDataset>(d: &mut D, qs: &[MQ]) -> Result<usize, (bool, String)> {
    let v: Vec<Result<Spog<ST>, std::convert::Infallible>> = qs.iter().map(|q| Ok(q.to_spog())).collect();
    d.remove_all(v.into_iter()).map_err(|e| match e {
        StreamError::SourceError(e) => (false, format!("{e:?}")),
        StreamError::SinkError(e) => (true, format!("{e:?}")),
    })
}

macro_rules! term_enum {
    ($name:ident, $tr:ident, $m:ident) => {
        pub fn $name<D: $tr>(d: &D) -> Vec<MT> {
            d.$m().map(|t| MT::from_term(t.expect("term enumeration error"))).collect()
        }
    };
}
term_enum!(d_subjects, Dataset, subjects);
term_enum!(d_predicates, Dataset, predicates);
term_enum!(d_objects, Dataset, objects);
term_enum!(d_graph_names, Dataset, graph_names);
term_enum!(d_iris, Dataset, iris);
term_enum!(d_blank_nodes, Dataset, blank_nodes);
term_enum!(d_literals, Dataset, literals);
term_enum!(d_variables, Dataset, variables);
term_enum!(g_subjects, Graph, subjects);
term_enum!(g_predicates, Graph, predicates);
term_enum!(g_objects, Graph, objects);
term_enum!(g_iris, Graph, iris);
term_enum!(g_blank_nodes, Graph, blank_nodes);
term_enum!(g_literals, Graph, literals);
term_enum!(g_variables, Graph, variables);

// ------------------------------------------------------------------ graphs

pub fn g_new<G: CollectibleGraph>() -> G {
    let v: Vec<Result<[ST; 3], std::convert::Infallible>> = vec![];
    match G::from_triple_source(v.into_iter()) {
        Ok(g) => g,
        Err(_) => panic!("cannot build empty graph"),
    }
}
pub fn g_from<G: CollectibleGraph>(qs: &[MQ]) -> Result<G, String> {
    let v: Vec<Result<[ST; 3], std::convert::Infallible>> = qs.iter().map(|q| Ok(q.to_triple())).collect();
    G::from_triple_source(v.into_iter()).map_err(|e| match e {
        StreamError::SourceError(e) => format!("source:{e:?}"),
        StreamError::SinkError(e) => format!("sink:{e:?}"),
    })
}
pub fn g_insert<G: MutableGraph>(g: &mut G, q: &MQ) -> Result<bool, String> {
    let [s, p, o] = q.to_triple();
    g.insert(s, p, o).map_err(e2s)
}
pub fn g_remove<G: MutableGraph>(g: &mut G, q: &MQ) -> Result<bool, String> {
    let [s, p, o] = q.to_triple();
    g.remove(&s, &p, &o).map_err(e2s)
}
pub fn g_all<G: Graph>(g: &G) -> Vec<MQ> {
    g.triples()
        .map(|t| MQ::from_triple(t.expect("triples() error")))
        .collect()
}
pub fn g_matching<G: Graph>(g: &G, pat: &QPat) -> Vec<MQ> {
    g.triples_matching(pat.s.real(), pat.p.real(), pat.o.real())
        .map(|t| MQ::from_triple(t.expect("triples_matching() error")))
        .collect()
}
pub fn g_contains<G: Graph>(g: &G, q: &MQ) -> bool {
    let [s, p, o] = q.to_triple();
    g.contains(&s, &p, &o).expect("contains() error")
}
pub fn g_remove_matching<G: MutableGraph>(g: &mut G, pat: &QPat) -> Result<usize, String>
where
    G::MutationError: From<G::Error>,
{
    g.remove_matching(pat.s.real(), pat.p.real(), pat.o.real()).map_err(e2s)
}
pub fn g_retain_matching<G: MutableGraph>(g: &mut G, pat: &QPat) -> Result<(), String>
where
    G::MutationError: From<G::Error>,
{
    g.retain_matching(pat.s.real(), pat.p.real(), pat.o.real()).map_err(e2s)
}
pub fn g_insert_all<G: MutableGraph>(g: &mut G, qs: &[MQ]) -> Result<usize, (bool, String)> {
    let v: Vec<Result<[ST; 3], std::convert::Infallible>> = qs.iter().map(|q| Ok(q.to_triple())).collect();
    g.insert_all(v.into_iter()).map_err(|e| match e {
        StreamError::SourceError(e) => (false, format!("{e:?}")),
        StreamError::SinkError(e) => (true, format!("{e:?}")),
    })
}
pub fn g_remove_all<G: MutableGraph>(g: &mut G, qs: &[MQ]) -> Result<usize, (bool, String)> {
    let v: Vec<Result<[ST; 3], std::convert::Infallible>> = qs.iter().map(|q| Ok(q.to_triple())).collect();
    g.remove_all(v.into_iter()).map_err(|e| match e {
        StreamError::SourceError(e) => (false, format!("{e:?}")),
        StreamError::SinkError(e) => (true, format!("{e:?}")),
    })
}

/// multiset comparison helper: sorted copies
pub fn ms(mut v: Vec<MQ>) -> Vec<MQ> {
    v.sort();
    v
}
pub fn as_set(v: &[MT]) -> BTreeSet<MT> {
    v.iter().cloned().collect()
}
