//! C12 — JSON-LD serialisation round-trips every representable dataset.
//!
//! Statement: serialising any dataset whose quads JSON-LD can express (IRI or blank subjects and
//! graph names, IRI predicates, any object) and parsing the result back gives a dataset
//! isomorphic to the input, in every processing mode and with every lossless option setting;
//! quads JSON-LD cannot express are the only ones omitted.
//!
//! Oracle: `representable(input)` (decided here from the statement, on model terms)
//! must be `iso_exact` to `parse(serialize(input))`, same options on both sides, NoLoader.
use crate::engine::*;
use crate::iso::{diff_summary, iso_exact_budget};
use crate::model::*;
use proptest::prelude::*;
use serde::{Deserialize, Serialize};
use sophia_api::parser::QuadParser;
use sophia_api::quad::Spog;
use sophia_api::serializer::{QuadSerializer, Stringifier};
use sophia_api::source::QuadSource;
use sophia_api::term::SimpleTerm;
use sophia_jsonld::loader::NoLoader;
use sophia_jsonld::loader_factory::DefaultLoaderFactory;
use sophia_jsonld::options::{ProcessingMode, RdfDirection};
use sophia_jsonld::{JsonLdOptions, JsonLdParser, JsonLdSerializer};
use std::collections::{BTreeMap, BTreeSet};

#[derive(Clone, Debug, Serialize, Deserialize)]
pub struct Case {
    pub quads: Vec<MQ>,
    pub mode11: bool,
    pub use_rdf_type: bool,
    /// 0 = none, 1 = i18n-datatype, 2 = compound-literal
    pub dir: u8,
    pub spaces: u8,
}

pub struct C12;

const I18N: &str = "https://www.w3.org/ns/i18n#";
const ISO_BUDGET: u64 = 3_000_000;

fn r(l: &str) -> MT {
    MT::Iri(rdf(l))
}
fn x(l: &str) -> MT {
    MT::Iri(format!("http://x/{l}"))
}

// ------------------------------------------------------------------ what JSON-LD can express

/// From the statement: IRI or blank subjects and graph names, IRI predicates, any object
/// (any RDF object: IRI, blank node or literal).
pub fn representable(q: &MQ) -> bool {
    (q.s.is_iri() || q.s.is_bnode())
        && q.p.is_iri()
        && (q.o.is_iri() || q.o.is_bnode() || q.o.is_literal())
        && q.g.as_ref().map(|g| g.is_iri() || g.is_bnode()).unwrap_or(true)
}

/// i18n datatype IRIs that the JSON-LD "i18n-datatype" convention defines: `#<lang>_<dir>`,
/// `<lang>` empty or a well-formed tag (any case: the case must be preserved), `<dir>` ltr or rtl.
fn i18n_canonical(dt: &str) -> bool {
    let Some(rest) = dt.strip_prefix(I18N) else { return false };
    let Some((lang, dir)) = rest.split_once('_') else { return false };
    (dir == "ltr" || dir == "rtl")
        && (lang.is_empty()
            || (lang.split('-').all(|p| !p.is_empty() && p.len() <= 8 && p.chars().all(|c| c.is_ascii_alphanumeric()))
                && lang.chars().next().unwrap().is_ascii_alphabetic()))
}

// ------------------------------------------------------------------ JCS-canonical JSON generation

#[derive(Clone, Debug)]
enum J {
    Null,
    Bool(bool),
    Int(i32),
    Half(i32),
    Str(String),
    Arr(Vec<J>),
    Obj(Vec<(String, J)>),
}
fn jcs_str(s: &str, out: &mut String) {
    out.push('"');
    for c in s.chars() {
        match c {
            '"' => out.push_str("\\\""),
            '\\' => out.push_str("\\\\"),
            '\u{8}' => out.push_str("\\b"),
            '\u{c}' => out.push_str("\\f"),
            '\n' => out.push_str("\\n"),
            '\r' => out.push_str("\\r"),
            '\t' => out.push_str("\\t"),
            c if (c as u32) < 0x20 => out.push_str(&format!("\\u{:04x}", c as u32)),
            c => out.push(c),
        }
    }
    out.push('"');
}
/// RFC 8785 serialisation for the value shapes generated here
fn jcs(j: &J, out: &mut String) {
    match j {
        J::Null => out.push_str("null"),
        J::Bool(b) => out.push_str(if *b { "true" } else { "false" }),
        J::Int(i) => out.push_str(&i.to_string()),
        // n + 0.5 : exactly representable, ES6 Number::toString gives "<n>.5"
        J::Half(i) => {
            if *i < 0 {
                out.push_str(&format!("-{}.5", -(*i + 1)));
            } else {
                out.push_str(&format!("{i}.5"))
            }
        }
        J::Str(s) => jcs_str(s, out),
        J::Arr(v) => {
            out.push('[');
            for (i, e) in v.iter().enumerate() {
                if i > 0 {
                    out.push(',')
                }
                jcs(e, out);
            }
            out.push(']');
        }
        J::Obj(kv) => {
            // sort by UTF-16 code units, unique keys
            let mut m: BTreeMap<Vec<u16>, (&String, &J)> = BTreeMap::new();
            for (k, v) in kv {
                m.entry(k.encode_utf16().collect()).or_insert((k, v));
            }
            out.push('{');
            for (i, (k, v)) in m.values().enumerate() {
                if i > 0 {
                    out.push(',')
                }
                jcs_str(k, out);
                out.push(':');
                jcs(v, out);
            }
            out.push('}');
        }
    }
}
fn json_value() -> BoxedStrategy<J> {
    let leaf = prop_oneof![
        Just(J::Null),
        any::<bool>().prop_map(J::Bool),
        (-3i32..1000).prop_map(J::Int),
        (-3i32..20).prop_map(J::Half),
        pick(vec!["", "a", "é", "\"q\"", "a\\b", "\n", "\u{1}", "\u{1F600}", "@id", "http://x/a"]).prop_map(|s| J::Str(s.to_string())),
    ];
    leaf.prop_recursive(3, 12, 3, |inner| {
        prop_oneof![
            prop::collection::vec(inner.clone(), 0..3).prop_map(J::Arr),
            prop::collection::vec((pick(vec!["a", "b", "@id", "é", "", "A", "\u{1F600}", "\u{d7ff}"]).prop_map(String::from), inner), 0..3).prop_map(J::Obj),
        ]
    })
    .boxed()
}
fn json_literal() -> BoxedStrategy<MT> {
    json_value()
        .prop_map(|j| {
            let mut s = String::new();
            jcs(&j, &mut s);
            MT::Lit(s, rdf("JSON"))
        })
        .boxed()
}

// ------------------------------------------------------------------ generator

fn graphs() -> Vec<Option<MT>> {
    vec![None, Some(x("g1")), Some(x("g2")), Some(MT::bn("g")), Some(x("a")), None]
}
fn node_labels() -> Vec<&'static str> {
    vec!["l0", "l1", "l2", "l3", "a", "b", "g"]
}
fn subjects() -> BoxedStrategy<MT> {
    prop_oneof![
        3 => pick(vec![x("a"), x("b"), x("c"), MT::iri("tag:t")]),
        3 => pick(node_labels()).prop_map(MT::bn),
        1 => pick(vec!["c0", "c1", "0x", "e\u{301}", "c0", "c1", "0x", "e\u{301}", "c1", "a.b"]).prop_map(MT::bn),
    ]
    .boxed()
}
fn predicates() -> BoxedStrategy<MT> {
    prop_oneof![
        6 => pick(vec![x("p"), x("q"), MT::iri("tag:t"), MT::iri("http://é.example/ç?q=é#frag")]),
        2 => Just(r("type")),
        2 => pick(vec![r("first"), r("rest")]),
        1 => pick(vec![r("value"), r("direction"), r("language")]),
    ]
    .boxed()
}
fn lexicals() -> BoxedStrategy<String> {
    prop_oneof![
        6 => pick(vec!["", "a", "hello", " x ", "1", "true", "ltr", "en", "é\u{1F600}", "\"q\"\\", "\n\t\r", "\u{0}\u{1}\u{7f}", "01", "1.5E0", "[1]", "{\"a\":1}"]).prop_map(String::from),
        1 => prop::collection::vec(any::<char>(), 0..4).prop_map(|v| v.into_iter().collect::<String>()),
    ]
    .boxed()
}
fn literal() -> BoxedStrategy<MT> {
    let dts = vec![
        xsd("string"),
        xsd("integer"),
        xsd("double"),
        xsd("boolean"),
        "http://x/dt".to_string(),
        rdf("HTML"),
        format!("{I18N}en_ltr"),
        format!("{I18N}_rtl"),
        format!("{I18N}fr-ca_rtl"),
        format!("{I18N}en"),
        format!("{I18N}"),
        format!("{I18N}EN_ltr"),
        format!("{I18N}en-US_ltr"),
        format!("{I18N}zh-Hant_rtl"),
        format!("{I18N}en_foo"),
    ];
    prop_oneof![
        4 => lexicals().prop_map(MT::string),
        4 => (lexicals(), pick(dts)).prop_map(|(l, d)| MT::Lit(l, d)),
        1 => (lexicals(), pick(crate::gen::near_miss_datatypes())).prop_map(|(l, d)| MT::Lit(l, d)),
        3 => (lexicals(), pick(vec!["en", "EN", "en-US", "fr", "fr-ca", "de-Latn-DE", "x-priv", "en-t-ja", "de-DE-u-co-phonebk", "sl-rozaj-biske-1994", "es-419"])).prop_map(|(l, t)| MT::Lang(l, t.to_string())),
        2 => json_literal(),
    ]
    .boxed()
}
fn objects() -> BoxedStrategy<MT> {
    prop_oneof![
        3 => pick(vec![x("a"), x("b"), x("c"), r("nil"), r("List"), r("nil")]),
        4 => pick(node_labels()).prop_map(MT::bn),
        1 => pick(vec!["c0", "c1", "0x", "e\u{301}", "c0", "c1", "0x", "e\u{301}", "c1", "a.b"]).prop_map(MT::bn),
        5 => literal(),
    ]
    .boxed()
}

/// well-formed list and all its deformations
#[derive(Clone, Debug)]
struct ListSpec {
    g: Option<MT>,
    g2: Option<MT>,
    labels: Vec<&'static str>,
    items: Vec<MT>,
    /// 0 nil, 1 none (unterminated), 2 IRI, 3 literal, 4 back to node 0 (cycle), 5 another blank node
    term: u8,
    /// (subject, predicate, in_other_graph)
    parents: Vec<(MT, MT, bool)>,
    typed: u8,
    /// 0 none, 1 extra property, 2 two rdf:first, 3 two rdf:rest, 4 no rdf:first,
    /// 5 node's triples in the other graph, 6 node also described in the other graph,
    /// 7 the same list repeated in the other graph, 8 node is an IRI
    variant: u8,
    at: usize,
}
impl ListSpec {
    fn quads(&self) -> Vec<MQ> {
        let n = self.labels.len();
        let at = self.at % n;
        let node = |i: usize| {
            if self.variant == 8 && i == at {
                x("ln")
            } else {
                MT::bn(self.labels[i])
            }
        };
        let mut out = vec![];
        let mut chain = |g: &Option<MT>, out: &mut Vec<MQ>| {
            for i in 0..n {
                let gi = if self.variant == 5 && i == at { &self.g2 } else { g };
                if !(self.variant == 4 && i == at) {
                    out.push(MQ::new(node(i), r("first"), self.items[i % self.items.len()].clone(), gi.clone()));
                }
                let next = if i + 1 < n {
                    Some(node(i + 1))
                } else {
                    match self.term {
                        0 => Some(r("nil")),
                        1 => None,
                        2 => Some(x("a")),
                        3 => Some(MT::string("end")),
                        4 => Some(node(0)),
                        _ => Some(MT::bn("b")),
                    }
                };
                if let Some(nx) = next {
                    out.push(MQ::new(node(i), r("rest"), nx, gi.clone()));
                }
                if self.typed & (1 << i) != 0 {
                    out.push(MQ::new(node(i), r("type"), r("List"), gi.clone()));
                }
            }
        };
        chain(&self.g, &mut out);
        match self.variant {
            1 => out.push(MQ::new(node(at), x("p"), MT::string("extra"), self.g.clone())),
            2 => out.push(MQ::new(node(at), r("first"), MT::string("second"), self.g.clone())),
            3 => out.push(MQ::new(node(at), r("rest"), r("nil"), self.g.clone())),
            6 => out.push(MQ::new(node(at), x("p"), x("b"), self.g2.clone())),
            7 => chain(&self.g2, &mut out),
            _ => {}
        }
        for (s, p, other) in &self.parents {
            out.push(MQ::new(s.clone(), p.clone(), node(0), if *other { self.g2.clone() } else { self.g.clone() }));
        }
        out
    }
}
fn list_spec() -> BoxedStrategy<Vec<MQ>> {
    let labels = prop::collection::vec(pick(vec!["l0", "l1", "l2", "l3", "a"]), 1..=4);
    let items = prop::collection::vec(objects(), 1..=3);
    let parent = (subjects(), prop_oneof![5 => pick(vec![x("p"), x("q")]), 1 => Just(r("first")), 1 => Just(r("rest")), 1 => Just(r("type"))], prop::bool::weighted(0.15));
    let parents = prop_oneof![2 => Just(1usize), 1 => Just(0usize), 1 => Just(2usize)].prop_flat_map(move |n| prop::collection::vec(parent.clone(), n));
    let term = prop_oneof![12 => Just(0u8), 1 => 1u8..=5];
    let variant = prop_oneof![10 => Just(0u8), 8 => 1u8..=8];
    let typed = prop_oneof![3 => Just(0u8), 1 => 0u8..16];
    (pick(graphs()), pick(graphs()), labels, items, term, parents, typed, variant, 0usize..4)
        .prop_map(|(g, g2, labels, items, term, parents, typed, variant, at)| ListSpec { g, g2, labels, items, term, parents, typed, variant, at }.quads())
        .boxed()
}
/// compound literal shapes (meaningful under rdf_direction = compound-literal)
fn compound_spec() -> BoxedStrategy<Vec<MQ>> {
    let value = prop_oneof![4 => lexicals().prop_map(MT::string), 1 => literal()];
    let dirn = prop_oneof![6 => pick(vec!["ltr", "rtl"]).prop_map(MT::string), 1 => literal()];
    let lang = prop_oneof![3 => Just(None), 4 => pick(vec!["en", "fr-ca"]).prop_map(|t| Some(MT::string(t))), 1 => literal().prop_map(Some)];
    let refs = prop_oneof![4 => Just(1usize), 1 => Just(0usize), 1 => Just(2usize)].prop_flat_map(|n| prop::collection::vec((subjects(), pick(vec![x("p"), x("q")]), prop::bool::weighted(0.15)), n));
    (pick(vec!["c0", "c1", "a"]), pick(graphs()), pick(graphs()), value, dirn, lang, refs, prop::bool::weighted(0.1))
        .prop_map(|(l, g, g2, value, dirn, lang, refs, extra)| {
            let c = MT::bn(l);
            let mut out = vec![MQ::new(c.clone(), r("value"), value, g.clone()), MQ::new(c.clone(), r("direction"), dirn, g.clone())];
            if let Some(t) = lang {
                out.push(MQ::new(c.clone(), r("language"), t, g.clone()));
            }
            if extra {
                out.push(MQ::new(c.clone(), x("p"), MT::string("extra"), g.clone()));
            }
            for (s, p, other) in refs {
                out.push(MQ::new(s, p, c.clone(), if other { g2.clone() } else { g.clone() }));
            }
            out
        })
        .boxed()
}
fn plain_quad() -> BoxedStrategy<MQ> {
    (subjects(), predicates(), objects(), pick(graphs())).prop_map(|(s, p, o, g)| MQ::new(s, p, o, g)).boxed()
}
fn non_representable() -> BoxedStrategy<MQ> {
    let tr = MT::triple(x("a"), x("p"), x("b"));
    prop_oneof![
        (literal(), predicates(), objects(), pick(graphs())).prop_map(|(s, p, o, g)| MQ::new(s, p, o, g)),
        (subjects(), pick(vec![MT::bn("a"), MT::string("p"), MT::var("v")]), objects(), pick(graphs())).prop_map(|(s, p, o, g)| MQ::new(s, p, o, g)),
        (subjects(), predicates(), objects(), pick(vec![MT::string("g"), MT::lang("g", "en"), tr.clone(), MT::var("g")])).prop_map(|(s, p, o, g)| MQ::new(s, p, o, Some(g))),
        (subjects(), predicates(), pick(vec![tr.clone(), MT::var("o")]), pick(graphs())).prop_map(|(s, p, o, g)| MQ::new(s, p, o, g)),
        (pick(vec![tr.clone(), MT::var("s")]), predicates(), objects(), pick(graphs())).prop_map(|(s, p, o, g)| MQ::new(s, p, o, g)),
    ]
    .boxed()
}

fn strategy() -> BoxedStrategy<Case> {
    let ingredient = prop_oneof![
        6 => plain_quad().prop_map(|q| vec![q]),
        5 => list_spec(),
        2 => compound_spec(),
        1 => non_representable().prop_map(|q| vec![q]),
    ];
    (prop::collection::vec(ingredient, 0..=5), any::<bool>(), any::<bool>(), 0u8..3, 0u8..5)
        .prop_map(|(parts, mode11, use_rdf_type, dir, spaces)| Case { quads: parts.concat(), mode11, use_rdf_type, dir, spaces })
        .boxed()
}

// ------------------------------------------------------------------ system under test

fn options(c: &Case) -> JsonLdOptions<DefaultLoaderFactory<NoLoader>> {
    let o = JsonLdOptions::new()
        .with_processing_mode(if c.mode11 { ProcessingMode::JsonLd1_1 } else { ProcessingMode::JsonLd1_0 })
        .with_use_rdf_type(c.use_rdf_type)
        .with_spaces(c.spaces as u16);
    match c.dir {
        1 => o.with_rdf_direction(RdfDirection::I18nDatatype),
        2 => o.with_rdf_direction(RdfDirection::CompoundLiteral),
        _ => o,
    }
}
fn serialize(c: &Case, quads: &[MQ]) -> Result<Result<String, String>, String> {
    let ds: Vec<Spog<SimpleTerm<'static>>> = quads.iter().map(MQ::to_spog).collect();
    catch(|| {
        let mut ser = JsonLdSerializer::new_with_options(Vec::<u8>::new(), options(c));
        let txt = match ser.serialize_dataset(&ds) {
            Ok(s) => s.to_string(),
            Err(e) => return Err(format!("{e}")),
        };
        // the document must not depend on the writer: one that accepts only what fits in its current
        // block of 17 bytes (short writes, as the io::Write contract allows) must receive the same bytes
        struct Block(std::rc::Rc<std::cell::RefCell<Vec<u8>>>);
        impl std::io::Write for Block {
            fn write(&mut self, b: &[u8]) -> std::io::Result<usize> {
                let mut v = self.0.borrow_mut();
                let n = b.len().min(17 - v.len() % 17);
                v.extend_from_slice(&b[..n]);
                Ok(n)
            }
            fn flush(&mut self) -> std::io::Result<()> {
                Ok(())
            }
        }
        let sink = std::rc::Rc::new(std::cell::RefCell::new(vec![]));
        let mut ser2 = JsonLdSerializer::new_with_options(Block(sink.clone()), options(c));
        let r2 = ser2.serialize_dataset(&ds).map(|_| ());
        drop(ser2);
        let got = sink.borrow().clone();
        // (two runs of the serializer may order object members differently: compare the bytes as multisets)
        let same = {
            let (mut a, mut b) = (got.clone(), txt.as_bytes().to_vec());
            a.sort_unstable();
            b.sort_unstable();
            a == b
        };
        match r2 {
            Ok(()) if same => Ok(txt),
            Ok(()) => Err(format!("WRITER: serialize_dataset returned Ok but a writer doing short writes received {} of {} bytes", got.len(), txt.len())),
            Err(e) => Err(format!("WRITER: serialising to a writer doing short writes fails ({e}) although a Vec works")),
        }
    })
}
fn parse(c: &Case, txt: &str) -> Result<Result<Vec<MQ>, String>, String> {
    catch(|| {
        let p = JsonLdParser::new_with_options(options(c));
        let r: Result<Vec<Spog<SimpleTerm<'static>>>, _> = p.parse_str(txt).collect_quads();
        match r {
            Ok(v) => Ok(v
                .iter()
                .map(|(t, g)| MQ::new(MT::from_term(&t[0]), MT::from_term(&t[1]), MT::from_term(&t[2]), g.as_ref().map(MT::from_term)))
                .collect()),
            Err(e) => Err(format!("{e}")),
        }
    })
}

// ------------------------------------------------------------------ input analysis (triggers)

struct Ana {
    /// (graph, blank subject) -> predicates -> objects
    nodes: BTreeMap<(Option<MT>, String), BTreeMap<String, Vec<MT>>>,
    /// blank label -> number of representable quads having it as object
    as_object: BTreeMap<String, usize>,
}
fn analyse(rep: &[MQ]) -> Ana {
    let mut nodes: BTreeMap<(Option<MT>, String), BTreeMap<String, Vec<MT>>> = BTreeMap::new();
    let mut as_object: BTreeMap<String, usize> = BTreeMap::new();
    for q in rep {
        if let (MT::Bnode(b), MT::Iri(p)) = (&q.s, &q.p) {
            nodes.entry((q.g.clone(), b.clone())).or_default().entry(p.clone()).or_default().push(q.o.clone());
        }
        if let MT::Bnode(b) = &q.o {
            *as_object.entry(b.clone()).or_default() += 1;
        }
    }
    Ana { nodes, as_object }
}
impl Ana {
    fn has(&self, key: &(Option<MT>, String), p: &str) -> bool {
        self.nodes.get(key).map(|m| m.contains_key(p)).unwrap_or(false)
    }
    /// a blank node with rdf:rest rdf:nil, or a blank node preceding it through rdf:rest links,
    /// that is nobody's object (in any graph): the head of a nil-terminated chain without parent
    fn seed_without_parent(&self) -> bool {
        let nil = r("nil");
        let mut frontier: Vec<(Option<MT>, String)> =
            self.nodes.iter().filter(|(_, m)| m.get(&rdf("rest")).is_some_and(|v| v.contains(&nil))).map(|(k, _)| k.clone()).collect();
        let mut seen: BTreeSet<(Option<MT>, String)> = frontier.iter().cloned().collect();
        while let Some((g, b)) = frontier.pop() {
            if !self.as_object.contains_key(&b) {
                return true;
            }
            for ((g2, b2), m) in &self.nodes {
                if *g2 == g && m.get(&rdf("rest")).is_some_and(|v| v.contains(&MT::bn(b.clone()))) && seen.insert((g2.clone(), b2.clone())) {
                    frontier.push((g2.clone(), b2.clone()));
                }
            }
        }
        false
    }
    /// a label that carries rdf:first/rdf:rest in one graph and is a subject in another graph
    fn list_label_in_two_graphs(&self) -> bool {
        self.nodes.iter().any(|((g, b), m)| {
            (m.contains_key(&rdf("first")) || m.contains_key(&rdf("rest"))) && self.nodes.keys().any(|(g2, b2)| b2 == b && g2 != g)
        })
    }
    /// blank nodes having rdf:type rdf:List together with rdf:first and rdf:rest
    fn typed_list_nodes(&self) -> Vec<(Option<MT>, String)> {
        self.nodes
            .iter()
            .filter(|(_, m)| m.contains_key(&rdf("first")) && m.contains_key(&rdf("rest")) && m.get(&rdf("type")).is_some_and(|v| v.contains(&r("List"))))
            .map(|(k, _)| k.clone())
            .collect()
    }
    fn has_list_node(&self) -> bool {
        self.nodes.values().any(|m| m.contains_key(&rdf("first")) || m.contains_key(&rdf("rest")))
    }
    fn nested_list(&self) -> bool {
        self.nodes.iter().any(|((g, _), m)| {
            m.get(&rdf("first")).is_some_and(|v| v.iter().any(|o| matches!(o, MT::Bnode(b) if self.has(&(g.clone(), b.clone()), &rdf("rest")))))
        })
    }
    /// nodes having the compound-literal shape: only rdf:value, rdf:direction (both required) and
    /// rdf:language, each with a single literal value
    fn compound_nodes(&self) -> Vec<(Option<MT>, String)> {
        let ok = |m: &BTreeMap<String, Vec<MT>>, p: &str| m.get(&rdf(p)).is_some_and(|v| v.len() == 1 && v[0].is_literal());
        self.nodes
            .iter()
            .filter(|(_, m)| {
                ok(m, "value") && ok(m, "direction") && (m.len() == 2 || (m.len() == 3 && ok(m, "language")))
            })
            .map(|(k, _)| k.clone())
            .collect()
    }
    fn direction_nodes(&self) -> bool {
        self.nodes.values().any(|m| m.contains_key(&rdf("direction")))
    }
}

fn shared_between_graphs(rep: &[MQ]) -> bool {
    let mut seen: BTreeMap<String, BTreeSet<Option<MT>>> = BTreeMap::new();
    for q in rep {
        for t in [&q.s, &q.o] {
            if let MT::Bnode(b) = t {
                seen.entry(b.clone()).or_default().insert(q.g.clone());
            }
        }
    }
    seen.values().any(|s| s.len() > 1)
}

fn run(case: &Case, ctx: &mut Ctx) {
    ctx.class(format!("mode:{}", if case.mode11 { "1.1" } else { "1.0" }));
    ctx.class(format!("use_rdf_type:{}", case.use_rdf_type));
    ctx.class(format!("rdf_direction:{}", ["none", "i18n-datatype", "compound-literal"][case.dir as usize % 3]));
    ctx.class(format!("spaces:{}", case.spaces));
    // excluded by construction (counted): non-canonical i18n datatypes under rdf_direction=i18n-datatype,
    // for which the W3C algorithms themselves are not inverse of each other
    let mut input: Vec<MQ> = vec![];
    for q in &case.quads {
        let noncanon = case.dir == 1 && matches!(&q.o, MT::Lit(_, dt) if dt.starts_with(I18N) && !i18n_canonical(dt));
        // under rdf_direction=compound-literal, an rdf:language string that is a LanguageTag for sophia
        // but not a well-formed BCP47 tag for the json-ld crate (e.g. "a") makes the parser drop the
        // whole value object: excluded (counted)
        let odd_lang = case.dir == 2
            && q.p == r("language")
            && matches!(&q.o, MT::Lit(l, dt) if dt == XSD_STRING && !{
                let mut parts = l.split('-');
                let first = parts.next().unwrap_or("");
                (2..=3).contains(&first.len()) && first.chars().all(|c| c.is_ascii_lowercase())
                    && parts.all(|p| (2..=8).contains(&p.len()) && p.chars().all(|c| c.is_ascii_lowercase() || c.is_ascii_digit()))
            });
        if noncanon {
            ctx.count("excluded/i18n-noncanonical-datatype-under-i18n-direction", 1);
        } else if odd_lang {
            ctx.count("excluded/rdf-language-not-bcp47-under-compound-direction", 1);
        } else {
            input.push(q.clone());
        }
    }
    let rep_all: Vec<MQ> = input.iter().filter(|q| representable(q)).cloned().collect();
    ctx.count("quads", input.len() as u64);
    ctx.count("quads-not-representable", (input.len() - rep_all.len()) as u64);
    // a dataset is a set: the analysis below works on distinct quads (the serializer is fed the duplicates)
    let rep: Vec<MQ> = crate::gen::dedup(rep_all.clone());
    let ana = analyse(&rep);
    let named = rep.iter().any(|q| q.g.is_some());
    let shared = shared_between_graphs(&rep);
    let typed = ana.typed_list_nodes();
    for (c, n) in [
        (ana.has_list_node(), "has:list-node"),
        (named, "has:named-graph"),
        (shared, "has:bnode-shared-between-graphs"),
        (ana.seed_without_parent(), "has:list-seed-without-parent"),
        (ana.list_label_in_two_graphs(), "has:list-label-in-two-graphs"),
        (!typed.is_empty(), "has:typed-rdf-List-node"),
        (ana.nested_list(), "has:nested-list"),
        (ana.direction_nodes(), "has:rdf-direction-node"),
        (rep_all.len() != input.len(), "has:non-representable-quad"),
        (rep.iter().any(|q| q.g.as_ref().is_some_and(MT::is_bnode)), "has:blank-graph-name"),
        (rep.iter().any(|q| q.o.datatype() == Some(&rdf("JSON")[..])), "has:rdf-JSON-literal"),
        (rep.iter().any(|q| q.o.datatype().is_some_and(|d| d.starts_with(I18N))), "has:i18n-datatype"),
        (rep.iter().any(|q| q.p == r("type") && !q.o.is_iri()), "has:rdf-type-non-iri-object"),
        (rep.iter().any(|q| q.p == r("type") && q.o.is_iri()), "has:rdf-type-iri-object"),
        (rep.iter().any(|q| q.g.as_ref().is_some_and(|g| rep.iter().any(|q2| &q2.s == g))), "has:graph-name-also-subject"),
    ] {
        if c {
            ctx.class(n);
        }
    }
    if ana.has_list_node() || named || shared {
        ctx.nontrivial();
    }

    let fail = |ctx: &mut Ctx, sig: String, what: String, txt: Option<&str>, parsed: Option<&[MQ]>| {
        ctx.fail(
            sig,
            format!(
                "{what}\noptions: mode={} use_rdf_type={} rdf_direction={} spaces={}\ninput (representable part):\n{}\n{}{}",
                if case.mode11 { "1.1" } else { "1.0" },
                case.use_rdf_type,
                case.dir,
                case.spaces,
                show_quads(&rep),
                parsed.map(|p| format!("parsed back:\n{}\n", show_quads(p))).unwrap_or_default(),
                txt.map(|t| format!("JSON-LD:\n{t}\n")).unwrap_or_default(),
            ),
        );
    };
    // generic trigger for failures that no specific analysis explains
    let generic = || -> &'static str {
        if ana.seed_without_parent() {
            "list-seed-without-parent"
        } else if ana.list_label_in_two_graphs() {
            "list-label-in-two-graphs"
        } else if case.dir == 2 && ana.direction_nodes() {
            "compound-literal-shape"
        } else if ana.nested_list() {
            "nested-list"
        } else if ana.has_list_node() {
            "list-node"
        } else if shared {
            "bnode-shared-between-graphs"
        } else if named {
            "named-graph"
        } else {
            "plain"
        }
    };

    let txt = match serialize(case, &input) {
        Err(p) => {
            let sig = if ana.seed_without_parent() { "jsonld/list-seed-without-parent".to_string() } else { format!("jsonld/panic-serialize/{}", generic()) };
            fail(ctx, sig, format!("serializer panicked: {p}"), None, None);
            return;
        }
        Ok(Err(e)) if e.starts_with("WRITER:") => {
            // keyed on the trigger (how the writer accepts bytes), whatever the dataset
            fail(ctx, "jsonld/output-depends-on-writer".to_string(), e, None, None);
            return;
        }
        Ok(Err(e)) => {
            fail(ctx, format!("jsonld/serialize-error/{}", generic()), format!("serializer failed: {e}"), None, None);
            return;
        }
        Ok(Ok(t)) => t,
    };
    {
        let squeezed: String = txt.chars().filter(|c| !c.is_whitespace()).collect();
        if squeezed.contains("\"@list\":[{") {
            ctx.class("out:@list-with-items");
        }
        if squeezed.contains("\"@graph\":[{") {
            ctx.class("out:@graph-with-nodes");
        }
        if squeezed.contains("\"@direction\"") {
            ctx.class("out:@direction");
        }
        if squeezed.contains("\"@json\"") {
            ctx.class("out:@json");
        }
    }
    let parsed = match parse(case, &txt) {
        Err(p) => {
            fail(ctx, format!("jsonld/panic-parse/{}", generic()), format!("parser panicked on the serializer's output: {p}"), Some(&txt), None);
            return;
        }
        Ok(Err(e)) => {
            fail(ctx, format!("jsonld/output-rejected-by-parser/{}", generic()), format!("parser rejects the serializer's output: {e}"), Some(&txt), None);
            return;
        }
        Ok(Ok(p)) => p,
    };
    match iso_exact_budget(&rep, &parsed, Some(ISO_BUDGET)) {
        Some(true) => {}
        None => ctx.count("iso-budget-exhausted", 1),
        Some(false) => {
            // Explanations that are recorded findings; each is a transformation of the expectation.
            // (a) third-party parser: blank node labels containing '.' are not recognised as blank
            //     node identifiers by the json-ld crate and come back as IRIs relative to the base
            let dotted = rep.iter().any(|q| q.bnodes().iter().any(|b| b.contains('.')));
            let t_dot = |qs: &[MQ]| -> Vec<MQ> {
                let f = |t: &MT| match t {
                    MT::Bnode(b) if b.contains('.') => MT::Iri(format!("x-string:///_:{b}")),
                    o => o.clone(),
                };
                qs.iter().map(|q| MQ::new(f(&q.s), q.p.clone(), f(&q.o), q.g.as_ref().map(f))).collect()
            };
            // (b) third-party parser: under rdf_direction=compound-literal the json-ld crate creates the
            //     blank node of a value object with @direction but never its rdf:value/direction/language triples
            let cl_all: Vec<(Option<MT>, String)> = if case.dir == 2 { ana.compound_nodes() } else { vec![] };
            // only those referenced exactly once, from their own graph, may legitimately become value objects
            let cl_nodes: Vec<(Option<MT>, String)> = cl_all
                .iter()
                .filter(|(g, b)| {
                    let refs: Vec<&MQ> = rep.iter().filter(|q| q.o == MT::bn(b.clone())).collect();
                    refs.len() == 1 && refs[0].g == *g
                })
                .take(4)
                .cloned()
                .collect();
            let t_cl = |qs: &[MQ], m: u32| -> Vec<MQ> {
                qs.iter()
                    .filter(|q| !matches!(&q.s, MT::Bnode(b) if cl_nodes.iter().enumerate().any(|(i, n)| m & (1 << i) != 0 && *n == (q.g.clone(), b.clone()))))
                    .cloned()
                    .collect()
            };
            // (c) spec-mandated loss: rdf:type rdf:List on list nodes that were compacted into @list
            //     - up to 8 typed list nodes: exact search over the subsets of their rdf:type quads;
            //     - more: both sides are compared after removing every rdf:type rdf:List quad of a
            //       node having rdf:first and rdf:rest (the parse must not have more of them)
            let tq: Vec<MQ> = if !case.use_rdf_type && typed.len() <= 8 {
                typed.iter().map(|(g, b)| MQ::new(MT::bn(b.clone()), r("type"), r("List"), g.clone())).collect()
            } else {
                vec![]
            };
            let strip = |qs: &[MQ]| -> Vec<MQ> {
                let t = analyse(qs).typed_list_nodes();
                qs.iter()
                    .filter(|q| !(q.p == r("type") && q.o == r("List") && matches!(&q.s, MT::Bnode(b) if t.contains(&(q.g.clone(), b.clone())))))
                    .cloned()
                    .collect()
            };
            let big_typed = !case.use_rdf_type && typed.len() > 8 && {
                let p = crate::gen::dedup(parsed.clone());
                strip(&p).len() + typed.len() >= p.len() && rep.len() - strip(&rep).len() >= p.len() - strip(&p).len()
            };
            let (rep_d, parsed_d) = if big_typed { (strip(&rep), strip(&parsed)) } else { (rep.clone(), parsed.clone()) };
            // (d) third-party parser: a value object with @direction and no @language is given the
            //     datatype i18n#<dir> instead of i18n#_<dir>
            let empty_lang = case.dir == 1 && rep.iter().any(|q| matches!(&q.o, MT::Lit(_, dt) if dt.starts_with(&format!("{I18N}_"))));
            let t_i18n = |qs: &[MQ]| -> Vec<MQ> {
                qs.iter()
                    .map(|q| match &q.o {
                        MT::Lit(l, dt) if dt.starts_with(&format!("{I18N}_")) => {
                            MQ::new(q.s.clone(), q.p.clone(), MT::Lit(l.clone(), format!("{I18N}{}", &dt[I18N.len() + 1..])), q.g.clone())
                        }
                        _ => q.clone(),
                    })
                    .collect()
            };
            let applicable = [dotted, empty_lang];
            let mut combos: Vec<(u32, u32, u32)> = vec![];
            for sel in 0u32..4 {
                if (0..2).any(|i| sel & (1 << i) != 0 && !applicable[i]) {
                    continue;
                }
                for clm in 0u32..(1 << cl_nodes.len()) {
                    for mask in 0u32..(1 << tq.len()) {
                        if sel != 0 || mask != 0 || clm != 0 || big_typed {
                            combos.push((sel, clm, mask));
                        }
                    }
                }
            }
            combos.sort_by_key(|(s, c, m)| (s.count_ones() + c.count_ones() + m.count_ones(), *s, *c, *m));
            for (sel, clm, mask) in combos {
                let (dot, cl, i18n) = (sel & 1 != 0, clm != 0, sel & 2 != 0);
                let mut exp: Vec<MQ> = rep_d.iter().filter(|q| !tq.iter().enumerate().any(|(i, t)| mask & (1 << i) != 0 && t == *q)).cloned().collect();
                if cl {
                    exp = t_cl(&exp, clm);
                }
                if dot {
                    exp = t_dot(&exp);
                }
                if i18n {
                    exp = t_i18n(&exp);
                }
                if iso_exact_budget(&exp, &parsed_d, Some(ISO_BUDGET)) == Some(true) {
                    if mask != 0 || big_typed {
                        fail(
                            ctx,
                            "jsonld/typed-rdf-List-node".into(),
                            format!("rdf:type rdf:List dropped from {} list node(s) compacted into @list (nothing else differs)", if big_typed { rep.len() - crate::gen::dedup(parsed.clone()).len() } else { mask.count_ones() as usize }),
                            Some(&txt),
                            Some(&parsed),
                        );
                    }
                    if cl {
                        fail(
                            ctx,
                            "jsonld/compound-literal-shape".into(),
                            "rdf_direction=compound-literal: the value object is parsed back as a lone blank node, its rdf:value/rdf:direction/rdf:language triples are missing (nothing else differs)".into(),
                            Some(&txt),
                            Some(&parsed),
                        );
                    }
                    if dot {
                        fail(
                            ctx,
                            "jsonld/bnode-label-with-dot".into(),
                            "a blank node label containing '.' is written as \"_:<label>\" and read back as an IRI relative to the base (nothing else differs)".into(),
                            Some(&txt),
                            Some(&parsed),
                        );
                    }
                    if i18n {
                        fail(
                            ctx,
                            "jsonld/i18n-datatype-empty-language".into(),
                            "rdf_direction=i18n-datatype: a literal typed i18n#_<dir> (direction without language) is read back with datatype i18n#<dir> (nothing else differs)".into(),
                            Some(&txt),
                            Some(&parsed),
                        );
                    }
                    return;
                }
            }
            let g = if cl_all.len() > cl_nodes.len() { "compound-literal-refcount" } else { generic() };
            fail(
                ctx,
                format!("jsonld/not-isomorphic/{g}"),
                format!("round trip is not isomorphic to the representable part of the input\n{}", diff_summary(&rep, &parsed)),
                Some(&txt),
                Some(&parsed),
            );
        }
    }
}

impl Check for C12 {
    fn fixed_cases(_tier: Tier, _seed: u64) -> Vec<Case> {
        // large documents (tens of KiB)
        [(150usize, 1u64, true, 0u8), (500, 2, false, 2), (1200, 3, true, 4)]
            .into_iter()
            .map(|(n, salt, mode11, spaces)| Case { quads: crate::gen::bulk_quads(n, salt, true), mode11, use_rdf_type: false, dir: 0, spaces })
            .collect()
    }
    fn stall_secs(_tier: Tier) -> Option<u64> {
        Some(60)
    }
    fn crash_trigger(case: &Case) -> String {
        crash_trigger_of(case)
    }
    type Case = Case;
    const ID: &'static str = "C12";
    fn rule() -> String {
        "datasets assembled from up to 5 ingredients over small shared pools of labels/graphs (plain quads incl. rdf:type/first/rest/value/direction/language predicates and all literal kinds; rdf lists well-formed or deformed: unreferenced/multiply referenced/cross-graph parent, typed rdf:List, extra property, two rdf:first/rest, missing first, unterminated, cyclic, IRI node, node split across graphs, label reused in another graph, nested through rdf:first; compound-literal shapes; non-representable quads), options mode 1.0/1.1 x use_rdf_type x rdf_direction(none,i18n,compound; same on both sides) x spaces 0..4. Non-trivial = representable part contains a blank node with rdf:first/rdf:rest, a named graph, or a blank node occurring in two graphs; distinct by hash of the whole case.".into()
    }
    fn assumptions() -> Vec<String> {
        vec![
            "use_native_types is never set (the specification defines it as lossy)".into(),
            "under rdf_direction=compound-literal, quads <x rdf:language \"s\"> where s is not of the form [a-z]{2,3}(-[a-z0-9]{2,8})* are removed from the input before serialising (counter excluded/...): sophia's LanguageTag accepts them, the json-ld crate's BCP47 parser does not, and drops the whole value object".into(),
            "under rdf_direction=i18n-datatype, literals whose datatype is in the i18n namespace but not of the form #<well-formed lang or empty>_<ltr|rtl> are removed from the input before serialising (counter excluded/...): the W3C to-RDF and from-RDF algorithms are not inverse on them".into(),
            "rdf:JSON literals are generated in RFC 8785 canonical form (integers, n+0.5, strings, arrays, objects with distinct keys)".into(),
            "language tags are compared case-insensitively".into(),
            "the serializer iterates HashMaps, so the member order of its output varies between processes; the check itself is a pure function of the case".into(),
        ]
    }
    fn cases(tier: Tier) -> u32 {
        tier.pick(150_000, 5_000_000)
    }
    fn strategy(_tier: Tier) -> BoxedStrategy<Case> {
        strategy()
    }
    fn run(case: &Case, ctx: &mut Ctx) {
        run(case, ctx)
    }
}

// ------------------------------------------------------------------ crash supervision
//
// The serializer is recursive (mark_list_node, populate_list): a defect there can overflow the
// stack, which aborts the whole process instead of unwinding. The generated-case run therefore
// happens in a supervised child process (`vcheck --worker C12 <args>`); each thread of the child
// records the case it is about to evaluate in replays/.inflight-C12/<n>.json. If the child is
// killed, the supervisor replays the in-flight cases one by one in fresh children to find the
// culprit and reports it as a violation with a replay file. A child that cannot be started or
// a crash that does not reproduce is "inconclusive" (exit 2), never a violation.

pub fn main(opts: &Opts) -> i32 {
    // crash supervision is provided by the engine (`engine::supervise`)
    drive::<C12>(opts)
}

pub fn crash_trigger_of(c: &Case) -> String {
    let rep: Vec<MQ> = crate::gen::dedup(c.quads.iter().filter(|q| representable(q)).cloned().collect());
    let a = analyse(&rep);
    if a.seed_without_parent() {
        "list-seed-without-parent"
    } else if a.nested_list() {
        "nested-list"
    } else if a.has_list_node() {
        "list-node"
    } else {
        "plain"
    }
    .into()
}

pub fn worker(_args: &[String]) -> i32 {
    2
}
