//! C06 — canonicalisation output equals what W3C RDFC-1.0 specifies.
//!
//! Oracle: `rdfc_ref`, an independent implementation of RDFC-1.0 written from the numbered
//! steps of the Recommendation (sections 4.4, 4.6, 4.7, 4.8 and the canonical N-Quads form),
//! working on model quads only, without any pruning, and recording what it explored (largest
//! permutation group, deepest recursion) so that `ToxicGraph` answers can be judged.
use crate::engine::*;
use crate::gen::*;
use crate::model::*;
use crate::stores::*;
use proptest::prelude::*;
use serde::{Deserialize, Serialize};
use sophia_api::dataset::{CollectibleDataset, SetDataset};
use sophia_c14n::rdfc10;
use sophia_c14n::C14nError;
use std::collections::{BTreeMap, BTreeSet};

// =====================================================================================
// Independent reference implementation of RDFC-1.0
// =====================================================================================
pub mod rdfc_ref {
    use crate::model::*;
    use sha2::Digest;
    use std::collections::BTreeMap;

    #[derive(Clone, Copy, Debug, PartialEq, Eq)]
    pub enum Alg {
        Sha256,
        Sha384,
    }

    /// lower-case hexadecimal digest of `data`
    pub fn hash_hex(alg: Alg, data: &[u8]) -> String {
        let bytes: Vec<u8> = match alg {
            Alg::Sha256 => sha2::Sha256::digest(data).to_vec(),
            Alg::Sha384 => sha2::Sha384::digest(data).to_vec(),
        };
        let mut s = String::with_capacity(bytes.len() * 2);
        for b in bytes {
            s.push_str(&format!("{b:02x}"));
        }
        s
    }

    /// Canonical N-Quads literal escaping: BS HT LF FF CR `"` `\` by ECHAR; U+0000-U+0007,
    /// U+000B, U+000E-U+001F and U+007F by `\u` + 4 upper-case hex digits; everything else
    /// verbatim. (U+FFFE / U+FFFF are outside the generated domain, see assumptions.)
    pub fn escape_literal(lex: &str, out: &mut String) {
        for c in lex.chars() {
            match c as u32 {
                0x08 => out.push_str("\\b"),
                0x09 => out.push_str("\\t"),
                0x0A => out.push_str("\\n"),
                0x0C => out.push_str("\\f"),
                0x0D => out.push_str("\\r"),
                0x22 => out.push_str("\\\""),
                0x5C => out.push_str("\\\\"),
                n @ (0x00..=0x07 | 0x0B | 0x0E..=0x1F | 0x7F) => out.push_str(&format!("\\u{n:04X}")),
                _ => out.push(c),
            }
        }
    }

    /// Canonical N-Quads form of one term; blank node labels go through `bn`.
    pub fn term_nq(t: &MT, bn: &dyn Fn(&str) -> String) -> String {
        match t {
            MT::Iri(i) => format!("<{i}>"),
            MT::Bnode(b) => format!("_:{}", bn(b)),
            MT::Lit(lex, dt) => {
                let mut s = String::from("\"");
                escape_literal(lex, &mut s);
                s.push('"');
                if dt != XSD_STRING {
                    s.push_str("^^<");
                    s.push_str(dt);
                    s.push('>');
                }
                s
            }
            MT::Lang(lex, tag) => {
                let mut s = String::from("\"");
                escape_literal(lex, &mut s);
                s.push('"');
                s.push('@');
                s.push_str(tag);
                s
            }
            MT::Triple(_) | MT::Var(_) => panic!("rdfc_ref: unsupported term reached the serialiser"),
        }
    }

    /// One canonical N-Quads line, including the final " .\n".
    pub fn quad_nq(q: &MQ, bn: &dyn Fn(&str) -> String) -> String {
        let mut s = String::new();
        s.push_str(&term_nq(&q.s, bn));
        s.push(' ');
        s.push_str(&term_nq(&q.p, bn));
        s.push(' ');
        s.push_str(&term_nq(&q.o, bn));
        s.push(' ');
        if let Some(g) = &q.g {
            s.push_str(&term_nq(g, bn));
            s.push(' ');
        }
        s.push_str(".\n");
        s
    }

    /// Identifier issuer (section 4.5): prefix, counter, ordered issued-identifiers map.
    #[derive(Clone, Debug)]
    pub struct Issuer {
        prefix: &'static str,
        pub order: Vec<String>,
        pub map: BTreeMap<String, String>,
    }
    impl Issuer {
        pub fn new(prefix: &'static str) -> Issuer {
            Issuer { prefix, order: vec![], map: BTreeMap::new() }
        }
        pub fn has(&self, id: &str) -> bool {
            self.map.contains_key(id)
        }
        pub fn get(&self, id: &str) -> Option<&String> {
            self.map.get(id)
        }
        /// 4.5.2 Issue Identifier
        pub fn issue(&mut self, id: &str) -> String {
            if let Some(x) = self.map.get(id) {
                return x.clone();
            }
            let issued = format!("{}{}", self.prefix, self.order.len());
            self.order.push(id.to_string());
            self.map.insert(id.to_string(), issued.clone());
            issued
        }
    }

    #[derive(Clone, Debug, Default)]
    pub struct Stats {
        pub bnodes: usize,
        /// blank nodes whose first-degree hash is shared with another one
        pub shared_fd: usize,
        /// largest "blank node list" met at step 5 of Hash N-Degree Quads
        pub max_group: usize,
        /// deepest recursion (top-level calls have depth 0)
        pub max_depth: usize,
        pub calls: u64,
        pub perms: u64,
        /// two results of one hash path list had the same hash, or two permutations gave the
        /// same path (the text leaves the order of results / permutations open)
        pub ties: bool,
        /// largest number of identifiers issued by one temporary issuer
        pub max_temp_ids: usize,
        /// step 5.2.1 skipped a node (it had been reached from an earlier group)
        pub skipped_521: u64,
    }

    #[derive(Debug)]
    pub enum RefErr {
        Unsupported(String),
        Budget,
    }

    #[derive(Clone, Debug)]
    pub struct Outcome {
        pub nquads: String,
        pub idmap: BTreeMap<String, String>,
        pub stats: Stats,
        /// first-degree hash of every blank node
        pub fd: BTreeMap<String, String>,
    }

    struct State<'a> {
        alg: Alg,
        quads: &'a [MQ],
        /// 4.2 blank node to quads map (each quad at most once per blank node)
        b2q: BTreeMap<String, Vec<usize>>,
        canonical: Issuer,
        stats: Stats,
        budget: u64,
        /// which of two permutations with equal paths is kept (left open by the text)
        tie_last: bool,
    }

    fn next_permutation(v: &mut [usize]) -> bool {
        // lexicographic successor
        if v.len() < 2 {
            return false;
        }
        let mut i = v.len() - 1;
        while i > 0 && v[i - 1] >= v[i] {
            i -= 1;
        }
        if i == 0 {
            return false;
        }
        let mut j = v.len() - 1;
        while v[j] <= v[i - 1] {
            j -= 1;
        }
        v.swap(i - 1, j);
        v[i..].reverse();
        true
    }

    impl State<'_> {
        /// 4.6 Hash First Degree Quads
        fn hash_first_degree(&self, reference: &str) -> String {
            let mut nquads: Vec<String> = vec![];
            for &qi in &self.b2q[reference] {
                nquads.push(quad_nq(&self.quads[qi], &|b: &str| if b == reference { "a".to_string() } else { "z".to_string() }));
            }
            nquads.sort();
            hash_hex(self.alg, nquads.concat().as_bytes())
        }

        /// 4.7 Hash Related Blank Node
        fn hash_related(&self, related: &str, quad: &MQ, issuer: &Issuer, position: &str) -> String {
            let mut input = String::from(position);
            if position != "g" {
                input.push('<');
                match &quad.p {
                    MT::Iri(p) => input.push_str(p),
                    _ => panic!("rdfc_ref: predicate is not an IRI"),
                }
                input.push('>');
            }
            if let Some(c) = self.canonical.get(related) {
                input.push_str("_:");
                input.push_str(c);
            } else if let Some(t) = issuer.get(related) {
                input.push_str("_:");
                input.push_str(t);
            } else {
                input.push_str(&self.hash_first_degree(related));
            }
            hash_hex(self.alg, input.as_bytes())
        }

        /// 4.8 Hash N-Degree Quads (no pruning: steps 5.4.4.3 / 5.4.5.5 only ever skip
        /// permutations that cannot win at 5.4.6, because a string greater than the chosen
        /// path stays greater whatever is appended to it)
        fn hash_n_degree(&mut self, identifier: &str, issuer: &Issuer, depth: usize) -> Result<(String, Issuer), RefErr> {
            self.stats.calls += 1;
            if self.stats.calls > self.budget {
                return Err(RefErr::Budget);
            }
            self.stats.max_depth = self.stats.max_depth.max(depth);
            // 1-3
            let mut hn: BTreeMap<String, Vec<String>> = BTreeMap::new();
            let qis = self.b2q[identifier].clone();
            for qi in qis {
                let quad = &self.quads[qi];
                let comps: [(Option<&MT>, &str); 3] = [(Some(&quad.s), "s"), (Some(&quad.o), "o"), (quad.g.as_ref(), "g")];
                for (c, pos) in comps {
                    if let Some(MT::Bnode(b)) = c {
                        if b != identifier {
                            let h = self.hash_related(b, quad, issuer, pos);
                            hn.entry(h).or_default().push(b.clone());
                        }
                    }
                }
            }
            // 4
            let mut data = String::new();
            let mut issuer: Issuer = issuer.clone();
            // 5
            for (related_hash, list) in hn {
                data.push_str(&related_hash); // 5.1
                self.stats.max_group = self.stats.max_group.max(list.len());
                let mut chosen_path: Option<String> = None; // 5.2
                let mut chosen_issuer: Option<Issuer> = None; // 5.3
                let mut perm: Vec<usize> = (0..list.len()).collect();
                loop {
                    self.stats.perms += 1;
                    if self.stats.perms > self.budget.saturating_mul(8) {
                        return Err(RefErr::Budget);
                    }
                    let mut issuer_copy = issuer.clone(); // 5.4.1
                    let mut path = String::new(); // 5.4.2
                    let mut recursion_list: Vec<String> = vec![]; // 5.4.3
                    for &i in &perm {
                        let related = &list[i];
                        // 5.4.4
                        if let Some(c) = self.canonical.get(related) {
                            path.push_str("_:");
                            path.push_str(c);
                        } else {
                            if !issuer_copy.has(related) {
                                recursion_list.push(related.clone());
                            }
                            path.push_str("_:");
                            path.push_str(&issuer_copy.issue(related));
                        }
                    }
                    // 5.4.5
                    for related in &recursion_list {
                        let (h, iss) = self.hash_n_degree(related, &issuer_copy, depth + 1)?;
                        path.push_str("_:");
                        path.push_str(&issuer_copy.issue(related));
                        path.push('<');
                        path.push_str(&h);
                        path.push('>');
                        issuer_copy = iss;
                    }
                    // 5.4.6
                    let better = match &chosen_path {
                        None => true,
                        Some(c) => {
                            if path == *c && chosen_issuer.as_ref().map(|i: &Issuer| i.order != issuer_copy.order).unwrap_or(true) {
                                // two permutations give the same path but another issuer: which issuer is
                                // kept depends on the (unspecified) order in which permutations are visited
                                // (permutations of a list in which a node occurs twice that are the same
                                // sequence lead to the same issuer: nothing is open there)
                                self.stats.ties = true;
                            }
                            path.as_str() < c.as_str() || (self.tie_last && path == *c)
                        }
                    };
                    if better {
                        chosen_path = Some(path);
                        chosen_issuer = Some(issuer_copy);
                    }
                    if !next_permutation(&mut perm) {
                        break;
                    }
                }
                data.push_str(&chosen_path.unwrap()); // 5.5
                issuer = chosen_issuer.unwrap(); // 5.6
            }
            self.stats.max_temp_ids = self.stats.max_temp_ids.max(issuer.order.len());
            Ok((hash_hex(self.alg, data.as_bytes()), issuer))
        }
    }

    /// The documents the harness reference produces for copies of the dataset whose blank nodes
    /// are relabelled and whose quads are reordered (all label permutations up to 5 blank nodes,
    /// `tries` pseudo-random ones beyond). The numbered steps leave three orders open (entries of
    /// a hash path list with equal hashes, permutations with equal paths, iteration over maps);
    /// the reference resolves them by label / quad order / `tie_last`, so relabelled, reshuffled
    /// copies exercise other resolutions. More than one document here = RDFC-1.0 itself does not assign a single
    /// canonical form to this dataset.
    pub fn alt_docs(quads: &[MQ], alg: Alg, budget: u64, tries: usize) -> std::collections::BTreeSet<String> {
        let labels = all_bnodes(quads);
        let n = labels.len();
        let mut out = std::collections::BTreeSet::new();
        let mut perms: Vec<Vec<usize>> = vec![];
        if n <= 5 {
            let mut p: Vec<usize> = (0..n).collect();
            loop {
                perms.push(p.clone());
                if !next_permutation(&mut p) {
                    break;
                }
            }
        } else {
            let mut s: u64 = 0x9E37_79B9_7F4A_7C15 ^ (n as u64) << 32 ^ quads.len() as u64;
            for _ in 0..tries {
                let mut p: Vec<usize> = (0..n).collect();
                for i in (1..n).rev() {
                    s ^= s << 13;
                    s ^= s >> 7;
                    s ^= s << 17;
                    p.swap(i, (s % (i as u64 + 1)) as usize);
                }
                perms.push(p);
            }
        }
        let mut spent = 0u64;
        for (k, p) in perms.iter().enumerate() {
            let map: BTreeMap<&str, String> = labels.iter().enumerate().map(|(i, l)| (l.as_str(), format!("k{:02}", p[i]))).collect();
            let mut qs: Vec<MQ> = quads.iter().map(|q| q.map_bnodes(&|b| map[b].clone())).collect();
            // pseudo-random quad order (the order of the related-node lists follows it)
            let mut sh: u64 = (k as u64 + 1).wrapping_mul(0xD6E8_FEB8_6659_FD93) | 1;
            for i in (1..qs.len()).rev() {
                sh ^= sh << 13;
                sh ^= sh >> 7;
                sh ^= sh << 17;
                qs.swap(i, (sh % (i as u64 + 1)) as usize);
            }
            match canonicalize_with(&qs, alg, budget, k % 4 >= 2) {
                Ok(o) => {
                    spent += o.stats.calls;
                    out.insert(o.nquads);
                }
                Err(_) => break,
            }
            if spent > budget.saturating_mul(6) {
                break;
            }
        }
        out
    }

    /// 4.4 Canonicalization algorithm followed by serialisation (section 5).
    pub fn canonicalize(quads_in: &[MQ], alg: Alg, budget: u64) -> Result<Outcome, RefErr> {
        canonicalize_with(quads_in, alg, budget, false)
    }
    pub fn canonicalize_with(quads_in: &[MQ], alg: Alg, budget: u64, tie_last: bool) -> Result<Outcome, RefErr> {
        // the input is a set
        let mut quads: Vec<MQ> = vec![];
        for q in quads_in {
            if !quads.iter().any(|x| x.same_repr(q)) {
                quads.push(q.clone());
            }
        }
        // domain
        for q in &quads {
            if q.p.is_bnode() {
                return Err(RefErr::Unsupported("blank predicate".into()));
            }
            for t in q.terms() {
                if t.is_triple() || t.is_var() {
                    return Err(RefErr::Unsupported("quoted triple or variable".into()));
                }
            }
        }
        // 1, 2
        let mut st = State {
            alg,
            quads: &quads,
            b2q: BTreeMap::new(),
            canonical: Issuer::new("c14n"),
            stats: Stats::default(),
            budget,
            tie_last,
        };
        for (i, q) in quads.iter().enumerate() {
            for t in q.terms() {
                if let MT::Bnode(b) = t {
                    let e = st.b2q.entry(b.clone()).or_default();
                    if e.last() != Some(&i) {
                        e.push(i);
                    }
                }
            }
        }
        st.stats.bnodes = st.b2q.len();
        // 3
        let mut fd: BTreeMap<String, String> = BTreeMap::new();
        let mut h2b: BTreeMap<String, Vec<String>> = BTreeMap::new();
        let labels: Vec<String> = st.b2q.keys().cloned().collect();
        for n in &labels {
            let h = st.hash_first_degree(n);
            fd.insert(n.clone(), h.clone());
            h2b.entry(h).or_default().push(n.clone());
        }
        // 4
        let mut rest: Vec<(String, Vec<String>)> = vec![];
        for (h, list) in h2b {
            if list.len() > 1 {
                st.stats.shared_fd += list.len();
                rest.push((h, list));
            } else {
                st.canonical.issue(&list[0]);
            }
        }
        // 5
        for (_h, list) in rest {
            let mut hash_path_list: Vec<(String, Issuer)> = vec![];
            for n in &list {
                if st.canonical.has(n) {
                    st.stats.skipped_521 += 1;
                    continue; // 5.2.1
                }
                let mut temp = Issuer::new("b"); // 5.2.2
                temp.issue(n); // 5.2.3
                let r = st.hash_n_degree(n, &temp, 0)?; // 5.2.4
                hash_path_list.push(r);
            }
            hash_path_list.sort_by(|a, b| a.0.cmp(&b.0)); // 5.3
            for w in hash_path_list.windows(2) {
                if w[0].0 == w[1].0 {
                    st.stats.ties = true;
                }
            }
            for (_, iss) in hash_path_list {
                for existing in &iss.order {
                    st.canonical.issue(existing); // 5.3.1
                }
            }
        }
        // 6 + serialisation: lines sorted in code point order
        let idmap = st.canonical.map.clone();
        let mut lines: Vec<String> = quads.iter().map(|q| quad_nq(q, &|b: &str| idmap[b].clone())).collect();
        lines.sort();
        Ok(Outcome { nquads: lines.concat(), idmap, stats: st.stats, fd })
    }
}

use rdfc_ref::{Alg, RefErr};

// =====================================================================================
// Running sophia
// =====================================================================================

#[derive(Clone, Debug)]
pub enum SRes {
    Ok { nq: String, quads: Vec<MQ>, idmap: BTreeMap<String, String> },
    Toxic(String),
    Unsupported(String),
    Other(String),
}
impl SRes {
    pub fn kind(&self) -> &'static str {
        match self {
            SRes::Ok { .. } => "ok",
            SRes::Toxic(_) => "toxic",
            SRes::Unsupported(_) => "unsupported",
            SRes::Other(_) => "other-error",
        }
    }
}

fn classify<T, E: std::error::Error + Send + Sync + 'static>(r: Result<T, C14nError<E>>) -> Result<T, SRes> {
    match r {
        Ok(v) => Ok(v),
        Err(C14nError::ToxicGraph(m)) => Err(SRes::Toxic(m)),
        Err(C14nError::Unsupported(m)) => Err(SRes::Unsupported(m)),
        Err(e) => Err(SRes::Other(format!("{e:?}"))),
    }
}

/// Canonicalise through `normalize_with` and `relabel_with` (and, with the default limits,
/// through the convenience entry points as well). `Err` = the entry points disagree.
pub fn run_sophia_on<D: SetDataset + CollectibleDataset>(quads: &[MQ], sha384: bool, df: f32, pl: usize) -> Result<SRes, String> {
    let d: D = d_from::<D>(quads).map_err(|e| format!("cannot build the container: {e}"))?;
    let mut out = Vec::<u8>::new();
    let r1 = if sha384 {
        classify(rdfc10::normalize_with::<sophia_c14n::hash::Sha384, _, _>(&d, &mut out, df, pl))
    } else {
        classify(rdfc10::normalize_with::<sophia_c14n::hash::Sha256, _, _>(&d, &mut out, df, pl))
    };
    let r2 = if sha384 {
        classify(rdfc10::relabel_with::<sophia_c14n::hash::Sha384, _>(&d, df, pl))
    } else {
        classify(rdfc10::relabel_with::<sophia_c14n::hash::Sha256, _>(&d, df, pl))
    };
    // the document must not depend on the writer: a block-structured writer (accepts only what fits in
    // its current block of 13 bytes: short writes at every offset) must receive the same bytes, and a
    // writer with room for half of them must make the call fail
    if r1.is_ok() {
        struct Block(Vec<u8>, Option<usize>);
        impl std::io::Write for Block {
            fn write(&mut self, b: &[u8]) -> std::io::Result<usize> {
                let mut room = 13 - self.0.len() % 13;
                if let Some(cap) = self.1 {
                    room = room.min(cap.saturating_sub(self.0.len()));
                }
                let n = b.len().min(room);
                self.0.extend_from_slice(&b[..n]);
                Ok(n)
            }
            fn flush(&mut self) -> std::io::Result<()> {
                Ok(())
            }
        }
        for cap in [None, Some(out.len() / 2)] {
            let mut w = Block(vec![], cap);
            let r = if sha384 {
                rdfc10::normalize_with::<sophia_c14n::hash::Sha384, _, _>(&d, &mut w, df, pl).map_err(|e| e.to_string())
            } else {
                rdfc10::normalize_with::<sophia_c14n::hash::Sha256, _, _>(&d, &mut w, df, pl).map_err(|e| e.to_string())
            };
            match (cap, r) {
                (None, Ok(())) if w.0 == out => {}
                (None, other) => return Err(format!("writer: a writer doing short writes received {} bytes ({other:?}), a Vec received {}", w.0.len(), out.len())),
                (Some(c), Err(_)) if w.0.len() <= c && out.starts_with(&w.0) => {}
                (Some(_), Ok(())) if out.is_empty() => {}
                (Some(c), other) => return Err(format!("writer: a writer with room for {c} of {} bytes: {other:?}, {} bytes accepted", out.len(), w.0.len())),
            }
        }
    }
    let is_default = df == rdfc10::DEFAULT_DEPTH_FACTOR && pl == rdfc10::DEFAULT_PERMUTATION_LIMIT;
    let res = match (r1, r2) {
        (Ok(()), Ok((cq, idmap))) => {
            let nq = String::from_utf8(out).map_err(|e| format!("output is not UTF-8: {e}"))?;
            let quads: Vec<MQ> = cq
                .iter()
                .map(|(spo, g)| {
                    use sophia_api::term::Term;
                    MQ::new(MT::from_term(spo[0].borrow_term()), MT::from_term(spo[1].borrow_term()), MT::from_term(spo[2].borrow_term()), g.as_ref().map(|g| MT::from_term(g.borrow_term())))
                })
                .collect();
            let idmap = idmap.iter().map(|(k, v)| (k.to_string(), v.as_str().to_string())).collect();
            SRes::Ok { nq, quads, idmap }
        }
        (Err(a), Err(b)) => {
            if a.kind() != b.kind() {
                return Err(format!("normalize_with -> {a:?} but relabel_with -> {b:?}"));
            }
            a
        }
        (Ok(()), Err(b)) => return Err(format!("normalize_with succeeded but relabel_with -> {b:?}")),
        (Err(a), Ok(_)) => return Err(format!("relabel_with succeeded but normalize_with -> {a:?}")),
    };
    if is_default {
        // the convenience functions must be the same thing
        let r4 = if sha384 { classify(rdfc10::relabel_sha384(&d)) } else { classify(rdfc10::relabel(&d)) };
        match (&res, r4) {
            (SRes::Ok { idmap, .. }, Ok((_, m))) => {
                let m: BTreeMap<String, String> = m.iter().map(|(k, v)| (k.to_string(), v.as_str().to_string())).collect();
                if &m != idmap {
                    return Err(format!("relabel/relabel_sha384 id map {m:?} differs from relabel_with(defaults) {idmap:?} on the same dataset value"));
                }
            }
            (a, Err(b)) if a.kind() == b.kind() => {}
            (a, b) => return Err(format!("relabel (defaults) -> {:?} but relabel_with(defaults) -> {a:?}", b.map(|_| "Ok"))),
        }
        let mut out2 = Vec::<u8>::new();
        let r3 = if sha384 { classify(rdfc10::normalize_sha384(&d, &mut out2)) } else { classify(rdfc10::normalize(&d, &mut out2)) };
        match (&res, r3) {
            (SRes::Ok { nq, .. }, Ok(())) => {
                if nq.as_bytes() != &out2[..] {
                    return Err("normalize/normalize_sha384 differs from normalize_with(defaults)".into());
                }
            }
            (SRes::Ok { .. }, Err(e)) => return Err(format!("normalize (defaults) -> {e:?} but normalize_with(defaults) succeeded")),
            (other, Ok(())) => return Err(format!("normalize (defaults) succeeded but normalize_with(defaults) -> {other:?}")),
            (a, Err(b)) => {
                if a.kind() != b.kind() {
                    return Err(format!("normalize (defaults) -> {b:?} but normalize_with(defaults) -> {a:?}"));
                }
            }
        }
    }
    Ok(res)
}

pub const CONTAINERS: &[&str] = &["HashSet<Spog>", "BTreeSet<Gspo>", "FastDataset", "LightDataset", "BTreeSet<Spog>", "HashSet<Gspo>"];

pub fn run_sophia(container: u8, quads: &[MQ], sha384: bool, df: f32, pl: usize) -> Result<SRes, String> {
    match container as usize % CONTAINERS.len() {
        0 => run_sophia_on::<HashSpog>(quads, sha384, df, pl),
        1 => run_sophia_on::<BTreeGspo>(quads, sha384, df, pl),
        2 => run_sophia_on::<FastDataset>(quads, sha384, df, pl),
        3 => run_sophia_on::<LightDataset>(quads, sha384, df, pl),
        4 => run_sophia_on::<BTreeSpog>(quads, sha384, df, pl),
        _ => run_sophia_on::<HashGspo>(quads, sha384, df, pl),
    }
}

// =====================================================================================
// Dataset generator for the supported domain (shared with C05)
// =====================================================================================

pub const P: &str = "http://x/p";
pub const Q: &str = "http://x/q";

/// Blank-node structure: the shapes of `gen::Shape` plus circulant digraphs
/// (vertex-transitive, every node has the same in/out degree) and an explicit arc list.
#[derive(Clone, Debug, Serialize, Deserialize)]
pub enum Sh {
    Lib(Shape),
    /// i -> i+a, i -> i+b (mod n)
    Circulant(usize, usize, usize),
    /// n nodes, arcs given explicitly
    Arcs(usize, Vec<(usize, usize)>),
}
impl Sh {
    pub fn arcs(&self) -> (usize, Vec<(usize, usize)>) {
        match self {
            Sh::Lib(s) => s.arcs(),
            Sh::Circulant(n, a, b) => {
                let n = (*n).max(1);
                let mut v = vec![];
                for i in 0..n {
                    v.push((i, (i + a) % n));
                    if b % n != a % n {
                        v.push((i, (i + b) % n));
                    }
                }
                (n, v)
            }
            Sh::Arcs(n, a) => (*n, a.iter().map(|(x, y)| (x % n.max(&1), y % n.max(&1))).collect()),
        }
    }
    pub fn family(&self) -> String {
        match self {
            Sh::Lib(Shape::Cycle(_)) => "cycle".into(),
            Sh::Lib(Shape::Rho(..)) => "rho".into(),
            Sh::Lib(Shape::Clique(_)) => "clique".into(),
            Sh::Lib(Shape::Star(_)) => "star".into(),
            Sh::Lib(Shape::Bipartite(..)) => "bipartite".into(),
            Sh::Lib(Shape::Path(_)) => "path".into(),
            Sh::Lib(Shape::TwoCycles(_)) => "two-cycles".into(),
            Sh::Lib(Shape::Tree(_)) => "tree".into(),
            Sh::Lib(Shape::SelfLoop) => "self-loop".into(),
            Sh::Circulant(..) => "circulant".into(),
            Sh::Arcs(..) => "random-arcs".into(),
        }
    }
}

/// Where the quads of a component live.
#[derive(Clone, Debug, Serialize, Deserialize)]
pub enum GSel {
    Default,
    Iri,
    /// a blank node used only as graph name
    PureBlank,
    /// node 0 of the component is also the graph name
    Node0,
}

#[derive(Clone, Debug, Serialize, Deserialize)]
pub struct Comp {
    pub sh: Sh,
    pub pred: u8,
    pub graph: GSel,
    /// how many disjoint copies (isomorphic components)
    pub copies: u8,
}

#[derive(Clone, Debug, Serialize, Deserialize)]
pub enum Deco {
    /// node (index into the list of all blank nodes) -> ground object
    Out(usize, u8, MT),
    /// ground subject -> node
    In(u8, u8, usize),
    /// extra arc between two existing nodes
    Arc(usize, u8, usize, bool),
    /// fully ground quad
    Ground(u8, u8, MT),
}

#[derive(Clone, Debug, Serialize, Deserialize)]
pub struct DsSpec {
    pub comps: Vec<Comp>,
    pub decos: Vec<Deco>,
    /// also put the *reversed* arcs of the first component into another graph
    /// (0 = no, 1 = IRI-named graph, 2 = blank-named graph): chiral structures
    #[serde(default)]
    pub mirror: u8,
    /// also assert some arcs (selected by the bit mask, arc k <-> bit k mod 8) in a further graph
    /// (0 default, 1 <g1>, 2 <g2>, 3 a blank graph name, 4 the graph named by the arc's own subject):
    /// the same triple in several graphs, i.e. a blank node related to another one through several
    /// quads with the same predicate and position
    #[serde(default)]
    pub also: Vec<(u8, u8)>,
}

fn pred_iri(i: u8) -> &'static str {
    if i % 2 == 0 {
        P
    } else {
        Q
    }
}
fn subj_iri(i: u8) -> String {
    ["http://x/a", "http://x/b", "http://x/a9", "tag:a"][i as usize % 4].to_string()
}

impl DsSpec {
    pub fn build(&self) -> Vec<MQ> {
        let mut out: Vec<MQ> = vec![];
        let mut nodes: Vec<String> = vec![];
        for (ci, c) in self.comps.iter().enumerate() {
            let (n, arcs) = c.sh.arcs();
            for copy in 0..c.copies.max(1) {
                let prefix = format!("{}{}n", (b'e' + ci as u8) as char, (b'a' + copy) as char);
                let g = match c.graph {
                    GSel::Default => None,
                    GSel::Iri => Some(MT::iri("http://x/g1")),
                    GSel::PureBlank => Some(MT::bn(format!("{prefix}G"))),
                    GSel::Node0 => Some(MT::bn(format!("{prefix}0"))),
                };
                for i in 0..n {
                    nodes.push(format!("{prefix}{i}"));
                }
                for (k, (a, b)) in arcs.iter().enumerate() {
                    out.push(MQ::new(MT::bn(format!("{prefix}{a}")), MT::iri(pred_iri(c.pred)), MT::bn(format!("{prefix}{b}")), g.clone()));
                    for (mask, sel) in &self.also {
                        if (mask >> (k % 8)) & 1 == 1 {
                            let ag = match sel % 5 {
                                0 => None,
                                1 => Some(MT::iri("http://x/g1")),
                                2 => Some(MT::iri("http://x/g2")),
                                3 => Some(MT::bn("alsoG")),
                                _ => Some(MT::bn(format!("{prefix}{a}"))),
                            };
                            out.push(MQ::new(MT::bn(format!("{prefix}{a}")), MT::iri(pred_iri(c.pred)), MT::bn(format!("{prefix}{b}")), ag));
                        }
                    }
                    if ci == 0 && self.mirror % 3 != 0 {
                        let mg = if self.mirror % 3 == 1 { MT::iri("http://x/g2") } else { MT::bn("mirrorG") };
                        out.push(MQ::new(MT::bn(format!("{prefix}{b}")), MT::iri(pred_iri(c.pred)), MT::bn(format!("{prefix}{a}")), Some(mg)));
                    }
                }
            }
        }
        for d in &self.decos {
            match d {
                Deco::Out(i, p, o) if !nodes.is_empty() => {
                    out.push(MQ::new(MT::bn(nodes[i % nodes.len()].clone()), MT::iri(pred_iri(*p)), o.clone(), None))
                }
                Deco::In(s, p, i) if !nodes.is_empty() => {
                    out.push(MQ::new(MT::iri(subj_iri(*s)), MT::iri(pred_iri(*p)), MT::bn(nodes[i % nodes.len()].clone()), None))
                }
                Deco::Arc(a, p, b, ing) if !nodes.is_empty() => out.push(MQ::new(
                    MT::bn(nodes[a % nodes.len()].clone()),
                    MT::iri(pred_iri(*p)),
                    MT::bn(nodes[b % nodes.len()].clone()),
                    if *ing { Some(MT::iri("http://x/g1")) } else { None },
                )),
                Deco::Ground(s, p, o) => out.push(MQ::new(MT::iri(subj_iri(*s)), MT::iri(pred_iri(*p)), o.clone(), None)),
                _ => {}
            }
        }
        normalise_dataset(out)
    }
    pub fn families(&self) -> Vec<String> {
        let mut v: Vec<String> = self.comps.iter().map(|c| c.sh.family()).collect();
        if self.mirror % 3 != 0 {
            v.push("mirrored-in-other-graph".into());
        }
        if self.also.iter().any(|(m, _)| *m != 0) {
            v.push("arcs-repeated-in-other-graphs".into());
        }
        v
    }
}

/// A dataset as the containers see it: no duplicates under `Term::eq`, and one spelling per
/// (lexical form, case-folded tag) so that no container can merge two spellings of a tag.
pub fn normalise_dataset(qs: Vec<MQ>) -> Vec<MQ> {
    fn fix(t: &MT, seen: &mut BTreeMap<(String, String), String>) -> MT {
        match t {
            MT::Lang(l, tag) => {
                let k = (l.clone(), tag.to_ascii_lowercase());
                let sp = seen.entry(k).or_insert_with(|| tag.clone()).clone();
                MT::Lang(l.clone(), sp)
            }
            MT::Triple(tr) => MT::triple(fix(&tr[0], seen), fix(&tr[1], seen), fix(&tr[2], seen)),
            x => x.clone(),
        }
    }
    let mut seen = BTreeMap::new();
    let qs: Vec<MQ> = qs
        .iter()
        .map(|q| MQ::new(fix(&q.s, &mut seen), fix(&q.p, &mut seen), fix(&q.o, &mut seen), q.g.as_ref().map(|g| fix(g, &mut seen))))
        .collect();
    dedup(qs)
}

/// literals over the escape-relevant alphabet (U+FFFE / U+FFFF excluded, see assumptions)
pub fn ground_object() -> BoxedStrategy<MT> {
    let lex = lexical(6).prop_map(|s| s.chars().filter(|c| *c != '\u{FFFE}' && *c != '\u{FFFF}').collect::<String>());
    let esc = prop::collection::vec(
        pick(vec!['"', '\\', '\n', '\r', '\t', '\u{8}', '\u{c}', '\u{0}', '\u{1}', '\u{7}', '\u{b}', '\u{e}', '\u{1f}', '\u{7f}', '\u{80}', '\u{85}', ' ', 'a', 'é', '\u{10000}', '\u{FFFD}', '\u{20}', '~']),
        0..5,
    )
    .prop_map(|v| v.into_iter().collect::<String>());
    let lex = prop_oneof![2 => lex, 3 => esc].boxed();
    prop_oneof![
        3 => pick(vec![MT::iri("http://x/a"), MT::iri("http://x/b"), MT::iri("http://x/a9"), MT::iri("tag:a"), MT::iri("http://é.example/ç?q=é#frag")]),
        3 => (lex.clone(), pick(datatypes())).prop_map(|(l, d)| MT::Lit(l, d)),
        2 => lex.clone().prop_map(MT::string),
        2 => (lex, pick(tags())).prop_map(|(l, t)| MT::Lang(l, t)),
    ]
    .boxed()
}

pub fn sh_strategy(max_nodes: usize) -> BoxedStrategy<Sh> {
    let m = max_nodes.max(3);
    prop_oneof![
        3 => (1..=m).prop_map(|n| Sh::Lib(Shape::Cycle(n))),
        1 => (1..=m / 2, 1..=m / 2).prop_map(|(a, b)| Sh::Lib(Shape::Rho(a, b))),
        2 => (2..=5usize).prop_map(|n| Sh::Lib(Shape::Clique(n))),
        2 => (1..=m - 1).prop_map(|n| Sh::Lib(Shape::Star(n))),
        2 => (1..=3usize, 1..=3usize).prop_map(|(a, b)| Sh::Lib(Shape::Bipartite(a, b))),
        2 => (1..=m - 1).prop_map(|n| Sh::Lib(Shape::Path(n))),
        2 => (1..=m / 2).prop_map(|n| Sh::Lib(Shape::TwoCycles(n))),
        2 => (2..=m).prop_map(|n| Sh::Lib(Shape::Tree(n))),
        1 => Just(Sh::Lib(Shape::SelfLoop)),
        3 => (3..=m.min(10), 1..=3usize, 1..=4usize).prop_map(|(n, a, b)| Sh::Circulant(n, a, b)),
        2 => (1..=5usize).prop_flat_map(|n| (Just(n), prop::collection::vec((0..n, 0..n), 1..=8))).prop_map(|(n, a)| Sh::Arcs(n, a)),
    ]
    .boxed()
}

pub fn ds_strategy(max_nodes: usize) -> BoxedStrategy<DsSpec> {
    let gsel = prop_oneof![5 => Just(GSel::Default), 1 => Just(GSel::Iri), 1 => Just(GSel::PureBlank), 1 => Just(GSel::Node0)];
    let comp = (sh_strategy(max_nodes), 0..2u8, gsel, prop_oneof![5 => Just(1u8), 2 => Just(2u8), 1 => Just(3u8)])
        .prop_map(|(sh, pred, graph, copies)| Comp { sh, pred, graph, copies });
    let deco = prop_oneof![
        3 => (0..32usize, 0..2u8, ground_object()).prop_map(|(i, p, o)| Deco::Out(i, p, o)),
        2 => (0..4u8, 0..2u8, 0..32usize).prop_map(|(s, p, i)| Deco::In(s, p, i)),
        2 => (0..32usize, 0..2u8, 0..32usize, any::<bool>()).prop_map(|(a, p, b, g)| Deco::Arc(a, p, b, g)),
        1 => (0..4u8, 0..2u8, ground_object()).prop_map(|(s, p, o)| Deco::Ground(s, p, o)),
    ];
    let also = prop_oneof![3 => Just(vec![]).boxed(), 2 => prop::collection::vec((any::<u8>(), 0..5u8), 1..=2).boxed()];
    (prop::collection::vec(comp, 1..=3), prop_oneof![2 => Just(vec![]).boxed(), 3 => prop::collection::vec(deco, 0..=4).boxed()], prop_oneof![8 => Just(0u8), 1 => Just(1u8), 1 => Just(2u8)], also)
        .prop_map(move |(mut comps, decos, mirror, also)| {
            // bound the number of blank nodes
            let mut total = 0usize;
            comps.retain_mut(|c| {
                let (n, _) = c.sh.arcs();
                let per = n + if matches!(c.graph, GSel::PureBlank) { 1 } else { 0 };
                while c.copies > 1 && total + per * c.copies as usize > max_nodes {
                    c.copies -= 1;
                }
                if total + per * c.copies.max(1) as usize > max_nodes && total > 0 {
                    return false;
                }
                total += per * c.copies.max(1) as usize;
                true
            });
            DsSpec { comps, decos, mirror, also }
        })
        .boxed()
}

// =====================================================================================
// The check
// =====================================================================================

pub const DEPTH_FACTORS: &[f32] = &[1.0, 0.0, 0.5, 4.0, 2.0, 0.25];
pub const PERM_LIMITS: &[usize] = &[6, 1, 2, 8, 3, 4];

#[derive(Clone, Debug, Serialize, Deserialize)]
pub enum Input {
    Spec(DsSpec),
    /// explicit quads (corpus files, shipped examples, unsupported-input cases)
    Quads(Vec<MQ>),
    /// enumerated digraph: bit k of `mask` selects arc k over `n` nodes and colour scheme `scheme`
    Enumerated { n: u8, scheme: u8, mask: u64, deco: bool },
}

#[derive(Clone, Debug, Serialize, Deserialize)]
pub struct Case {
    pub input: Input,
    pub sha384: bool,
    pub df: u8,
    pub pl: u8,
    pub container: u8,
    /// expected canonical document for shipped examples (fixed cases only)
    #[serde(default)]
    pub expect: Option<String>,
}

pub struct C06;

pub fn ref_budget(tier_thorough: bool) -> u64 {
    if tier_thorough {
        400_000
    } else {
        60_000
    }
}

fn has_escape_char(qs: &[MQ]) -> bool {
    qs.iter().any(|q| {
        q.o.lexical()
            .map(|l| l.chars().any(|c| (c as u32) < 0x20 || c == '\u{7f}' || c == '"' || c == '\\'))
            .unwrap_or(false)
    })
}

fn unsupported_reason(qs: &[MQ]) -> Option<&'static str> {
    for q in qs {
        if q.p.is_bnode() {
            return Some("blank-predicate");
        }
    }
    for q in qs {
        for t in q.terms() {
            if t.is_triple() {
                return Some("quoted-triple");
            }
            if t.is_var() {
                return Some("variable");
            }
        }
    }
    None
}

/// signature component describing the structural trigger of a divergence
fn trigger(qs: &[MQ], st: &rdfc_ref::Stats) -> &'static str {
    let self_loop = qs.iter().any(|q| {
        let b = q.bnodes();
        let mut s = BTreeSet::new();
        b.iter().any(|x| !s.insert(*x))
    });
    if self_loop {
        "bnode-twice-in-one-quad"
    } else if st.skipped_521 > 0 {
        "node-reached-from-earlier-group"
    } else if st.max_temp_ids >= 11 {
        "ten-or-more-temporary-ids"
    } else if st.ties {
        "equal-n-degree-hashes"
    } else if st.shared_fd > 0 {
        "shared-first-degree-hash"
    } else if has_escape_char(qs) {
        "escape-relevant-literal"
    } else {
        "plain"
    }
}

fn shipped_examples() -> Vec<(Vec<MQ>, bool, &'static str)> {
    let e = |l: &str| MT::iri(format!("http://example.com/#{l}"));
    let b = |i: usize| MT::bn(format!("e{i}"));
    let q3 = |s: MT, p: MT, o: MT| MQ::new(s, p, o, None);
    let ex2 = vec![q3(e("p"), e("q"), b(0)), q3(e("p"), e("r"), b(1)), q3(b(0), e("s"), e("u")), q3(b(1), e("t"), e("u"))];
    let ex3 = vec![q3(e("p"), e("q"), b(0)), q3(e("p"), e("q"), b(1)), q3(b(0), e("p"), b(2)), q3(b(1), e("p"), b(3)), q3(b(2), e("r"), b(3))];
    let cyc = |n: usize, off: usize| -> Vec<MQ> { (0..n).map(|i| q3(b(off + i), e("p"), b(off + (i + 1) % n))).collect() };
    let mut clique5 = vec![];
    for i in 0..5 {
        for j in 0..5 {
            if i != j {
                clique5.push(q3(b(i), e("p"), b(j)));
            }
        }
    }
    let mut c23 = cyc(2, 0);
    c23.extend(cyc(3, 2));
    let t = |l: &str| MT::iri(format!("tag:{l}"));
    let tricky = vec![
        q3(t("a"), t("p"), MT::bn("a")),
        q3(t("a"), t("p"), t("a")),
        q3(t("a"), t("p"), MT::string("a")),
        q3(t("a"), t("p"), MT::string("a!")),
        q3(t("a9"), t("p"), MT::string("a!")),
    ];
    let clique_exp: String = {
        let mut s = String::new();
        for i in 0..5 {
            for j in 0..5 {
                if i != j {
                    s.push_str(&format!("_:c14n{i} <http://example.com/#p> _:c14n{j} .\n"));
                }
            }
        }
        s
    };
    let leak: &'static str = Box::leak(clique_exp.into_boxed_str());
    vec![
        (ex2.clone(), false, "<http://example.com/#p> <http://example.com/#q> _:c14n0 .\n<http://example.com/#p> <http://example.com/#r> _:c14n1 .\n_:c14n0 <http://example.com/#s> <http://example.com/#u> .\n_:c14n1 <http://example.com/#t> <http://example.com/#u> .\n"),
        (ex3, false, "<http://example.com/#p> <http://example.com/#q> _:c14n2 .\n<http://example.com/#p> <http://example.com/#q> _:c14n3 .\n_:c14n0 <http://example.com/#r> _:c14n1 .\n_:c14n2 <http://example.com/#p> _:c14n1 .\n_:c14n3 <http://example.com/#p> _:c14n0 .\n"),
        (cyc(5, 0), false, "_:c14n0 <http://example.com/#p> _:c14n4 .\n_:c14n1 <http://example.com/#p> _:c14n0 .\n_:c14n2 <http://example.com/#p> _:c14n1 .\n_:c14n3 <http://example.com/#p> _:c14n2 .\n_:c14n4 <http://example.com/#p> _:c14n3 .\n"),
        (clique5, false, leak),
        (c23, false, "_:c14n0 <http://example.com/#p> _:c14n1 .\n_:c14n1 <http://example.com/#p> _:c14n0 .\n_:c14n2 <http://example.com/#p> _:c14n4 .\n_:c14n3 <http://example.com/#p> _:c14n2 .\n_:c14n4 <http://example.com/#p> _:c14n3 .\n"),
        (tricky, false, "<tag:a9> <tag:p> \"a!\" .\n<tag:a> <tag:p> \"a!\" .\n<tag:a> <tag:p> \"a\" .\n<tag:a> <tag:p> <tag:a> .\n<tag:a> <tag:p> _:c14n0 .\n"),
        (ex2, true, "<http://example.com/#p> <http://example.com/#q> _:c14n1 .\n<http://example.com/#p> <http://example.com/#r> _:c14n0 .\n_:c14n0 <http://example.com/#t> <http://example.com/#u> .\n_:c14n1 <http://example.com/#s> <http://example.com/#u> .\n"),
    ]
}

/// every digraph (self-loops allowed) on `n` labelled blank nodes, over the given
/// (predicate, graph) "colours": bit k of `mask` selects arc k
fn schemes(i: u8) -> Vec<(u8, Option<MT>)> {
    match i {
        0 => vec![(0, None)],
        1 => vec![(0, None), (1, None)],
        2 => vec![(0, None), (0, Some(MT::bn("v0"))), (0, Some(MT::bn("gg")))],
        3 => vec![(0, None), (0, Some(MT::bn("gg")))],
        _ => vec![(0, None), (1, None), (0, Some(MT::bn("gg"))), (1, Some(MT::bn("v1")))],
    }
}
fn enumerated(n: usize, scheme: u8, mask: u64, deco: bool) -> Vec<MQ> {
    let colours = &schemes(scheme);
    let mut out = vec![];
    let mut k = 0;
    for (p, g) in colours {
        for a in 0..n {
            for b in 0..n {
                if mask >> k & 1 == 1 {
                    out.push(MQ::new(MT::bn(format!("v{a}")), MT::iri(pred_iri(*p)), MT::bn(format!("v{b}")), g.clone()));
                }
                k += 1;
            }
        }
    }
    if deco && !out.is_empty() {
        out.push(MQ::new(MT::bn("v0"), MT::iri(P), MT::iri("http://x/a"), None));
    }
    out
}

impl Check for C06 {
    fn stall_secs(_tier: Tier) -> Option<u64> {
        Some(900)
    }
    type Case = Case;
    const ID: &'static str = "C06";
    fn rule() -> String {
        "datasets of the supported domain (enumerated: every digraph with self-loops on <=3 blank nodes, two-predicate / blank-graph-name variants on <=2; sampled: cycles, rho, cliques, stars, bipartite, paths, trees, circulants, disjoint copies, up to 14 blank nodes, decorated with ground arcs and literals over the escape alphabet) x SHA-256/384 x depth factor x permutation limit x container; oracle = independent unpruned RDFC-1.0 reference (bytes and issued-identifier map), ToxicGraph judged against what the reference explored. Non-trivial = sophia's answer was compared/judged AND (>=2 blank nodes share a first-degree hash, or a literal holds an escape-relevant character, or the answer was ToxicGraph/Unsupported); distinct by hash of the case."
            .into()
    }
    fn assumptions() -> Vec<String> {
        vec![
            "U+FFFE/U+FFFF are excluded from literals (the 'not matching XML Char' clause of canonical N-Quads is not checked)".into(),
            "language tags are written as given (no case folding), datatype xsd:string is omitted".into(),
            "the 'hash to related blank nodes map' of Hash N-Degree Quads holds one entry per (quad, position) occurrence, i.e. a related node met twice is listed twice (the reading of the W3C reference implementations); the blank-node-to-quads map holds each quad once per blank node".into(),
            "when two results of one hash path list have equal hashes, or two permutations of a blank node list give equal paths, the Recommendation leaves the order open: the issued-identifier map is then only required to be a bijection onto c14n0..c14n(n-1) that reproduces the canonical document (otherwise it must be identical to the reference's)".into(),
            "cases whose unpruned reference exploration exceeds a fixed work budget are skipped (counted in class ref-budget-exceeded)".into(),
            "on inputs where the open orders of the Recommendation lead to different documents (RDFC-1.0 itself ambiguous; found: same-predicate arcs between the same blank nodes in two graphs with opposite orientation) any document the reference produces on some relabelled copy is accepted; if sophia's document differs from the reference's while ties exist and is not among the documents found, the case is counted as unresolved (classes *unresolved*), not failed".into(),
            "literal subjects/graph names and non-IRI non-blank predicates are outside the generated domain".into(),
        ]
    }
    fn cases(tier: Tier) -> u32 {
        tier.pick(6_000, 240_000)
    }
    fn strategy(_tier: Tier) -> BoxedStrategy<Case> {
        let unsupported = (ds_strategy(6), 0..3u8, 0..4usize).prop_map(|(spec, kind, pos)| {
            let mut qs = spec.build();
            let bad = match kind {
                0 => MQ::new(MT::iri("http://x/a"), MT::bn("pp"), MT::iri("http://x/b"), None),
                1 => {
                    let tr = MT::triple(MT::iri("http://x/a"), MT::iri(P), MT::bn("inner"));
                    if pos % 2 == 0 {
                        MQ::new(tr, MT::iri(P), MT::iri("http://x/b"), None)
                    } else {
                        MQ::new(MT::iri("http://x/a"), MT::iri(P), tr, None)
                    }
                }
                _ => match pos % 3 {
                    0 => MQ::new(MT::var("v"), MT::iri(P), MT::iri("http://x/b"), None),
                    1 => MQ::new(MT::iri("http://x/a"), MT::iri(P), MT::var("v"), None),
                    _ => MQ::new(MT::iri("http://x/a"), MT::iri(P), MT::iri("http://x/b"), Some(MT::var("v"))),
                },
            };
            let at = if qs.is_empty() { 0 } else { pos % (qs.len() + 1) };
            qs.insert(at, bad);
            Input::Quads(qs)
        });
        let input = prop_oneof![
            12 => ds_strategy(14).prop_map(Input::Spec),
            6 => ds_strategy(7).prop_map(Input::Spec),
            1 => unsupported,
        ];
        let df = prop_oneof![5 => Just(0u8), 4 => 1..DEPTH_FACTORS.len() as u8];
        let pl = prop_oneof![5 => Just(0u8), 4 => 1..PERM_LIMITS.len() as u8];
        (input, any::<bool>(), df, pl, 0..CONTAINERS.len() as u8)
            .prop_map(|(input, sha384, df, pl, container)| Case { input, sha384, df, pl, container, expect: None })
            .boxed()
    }
    fn fixed_cases(tier: Tier, _seed: u64) -> Vec<Case> {
        let mut v = vec![];
        // the examples shipped with the crate validate the reference itself
        for (qs, sha384, exp) in shipped_examples() {
            for container in 0..4u8 {
                v.push(Case { input: Input::Quads(qs.clone()), sha384, df: 0, pl: 0, container, expect: Some(exp.to_string()) });
            }
        }
        // large documents (canonical output of 100-300 KiB): writing in blocks must not lose anything
        for (n, salt, sha384, container) in [(1200usize, 1u64, false, 0u8), (3000, 2, true, 1), (2000, 3, false, 2)] {
            v.push(Case { input: Input::Quads(crate::gen::bulk_quads(n, salt, true)), sha384, df: 0, pl: 0, container, expect: None });
        }
        let en = |n: u8, scheme: u8, mask: u64, deco: bool| Input::Enumerated { n, scheme, mask, deco };
        // every digraph on <= 3 blank nodes, one predicate, with self-loops; with and without
        // a ground arc; default limits with both hashes, plus the strictest limits
        for mask in 0..512u64 {
            for deco in [false, true] {
                v.push(Case { input: en(3, 0, mask, deco), sha384: false, df: 0, pl: 0, container: (mask % 4) as u8, expect: None });
                v.push(Case { input: en(3, 0, mask, deco), sha384: true, df: 0, pl: 0, container: ((mask + 1) % 4) as u8, expect: None });
                if !deco {
                    v.push(Case { input: en(3, 0, mask, deco), sha384: false, df: 1, pl: 0, container: 0, expect: None });
                    v.push(Case { input: en(3, 0, mask, deco), sha384: false, df: 2, pl: 1, container: 1, expect: None });
                    v.push(Case { input: en(3, 0, mask, deco), sha384: false, df: 0, pl: 2, container: 2, expect: None });
                }
            }
        }
        // <= 2 nodes, two predicates (2^8)
        for mask in 0..256u64 {
            v.push(Case { input: en(2, 1, mask, false), sha384: false, df: 0, pl: 0, container: (mask % 4) as u8, expect: None });
        }
        // <= 2 nodes, one predicate, default graph / graph named by node 0 / graph named by a third blank node (2^12)
        for mask in 0..4096u64 {
            v.push(Case { input: en(2, 2, mask, false), sha384: mask % 2 == 1, df: 0, pl: 0, container: (mask % 4) as u8, expect: None });
        }
        if tier == Tier::Thorough {
            // 3 nodes, default graph + blank-named graph (2^18)
            for mask in 0..(1u64 << 18) {
                v.push(Case { input: en(3, 3, mask, false), sha384: false, df: 0, pl: 0, container: (mask % 4) as u8, expect: None });
            }
            // 2 nodes, two predicates x {default, blank graph} (2^16)
            for mask in 0..(1u64 << 16) {
                v.push(Case { input: en(2, 4, mask, false), sha384: false, df: 0, pl: 0, container: (mask % 4) as u8, expect: None });
            }
        }
        v
    }
    fn show(case: &Case) -> serde_json::Value {
        let qs = case_quads(case);
        serde_json::json!({
            "quads": qs.iter().map(MQ::show).collect::<Vec<_>>(),
            "hash": if case.sha384 { "SHA-384" } else { "SHA-256" },
            "depth_factor": DEPTH_FACTORS[case.df as usize % DEPTH_FACTORS.len()],
            "permutation_limit": PERM_LIMITS[case.pl as usize % PERM_LIMITS.len()],
            "container": CONTAINERS[case.container as usize % CONTAINERS.len()],
        })
    }
    fn run(case: &Case, ctx: &mut Ctx) {
        let qs = case_quads(case);
        let df = DEPTH_FACTORS[case.df as usize % DEPTH_FACTORS.len()];
        let pl = PERM_LIMITS[case.pl as usize % PERM_LIMITS.len()];
        let alg = if case.sha384 { Alg::Sha384 } else { Alg::Sha256 };
        match &case.input {
            Input::Spec(s) => {
                for f in s.families() {
                    ctx.class(format!("family:{f}"));
                }
            }
            Input::Enumerated { scheme, .. } => ctx.class(format!("enumerated:scheme{scheme}")),
            Input::Quads(_) => {}
        }
        ctx.class(format!("hash:{}", if case.sha384 { "sha384" } else { "sha256" }));
        ctx.class(format!("df:{df}"));
        ctx.class(format!("pl:{pl}"));
        ctx.class(format!("container:{}", CONTAINERS[case.container as usize % CONTAINERS.len()]));

        // ---- reference
        let budget = ref_budget(false);
        let t0 = std::time::Instant::now();
        let reference = rdfc_ref::canonicalize(&qs, alg, budget);
        if std::env::var_os("VERIF_TIMING").is_some() {
            eprintln!("ref: {} ms {:?}", t0.elapsed().as_millis(), reference.as_ref().map(|r| r.stats.clone()).map_err(|_| "err"));
        }
        let unsup = unsupported_reason(&qs);
        let reference = match reference {
            Err(RefErr::Budget) => {
                ctx.class("ref-budget-exceeded");
                return;
            }
            Err(RefErr::Unsupported(_)) => None,
            Ok(o) => Some(o),
        };
        assert_eq!(reference.is_none(), unsup.is_some(), "reference and domain predicate disagree");

        // the shipped expected outputs validate the reference
        if let (Some(exp), Some(r)) = (&case.expect, &reference) {
            ctx.class("shipped-example");
            if &r.nquads != exp {
                ctx.fail("harness/reference-vs-shipped-example", format!("the harness reference disagrees with the expected output shipped in c14n/src/rdfc10.rs\n ref:\n{}\n exp:\n{}", r.nquads, exp));
                return;
            }
        }

        // ---- sophia
        let t0 = std::time::Instant::now();
        let got = catch(|| run_sophia(case.container, &qs, case.sha384, df, pl));
        if std::env::var_os("VERIF_TIMING").is_some() {
            eprintln!("sophia: {} ms", t0.elapsed().as_millis());
            let alts = rdfc_ref::alt_docs(&qs, alg, budget, 40);
            eprintln!("documents produced by the reference on relabelled copies: {}", alts.len());
            for a in &alts {
                eprintln!("---\n{a}");
            }
            if let Ok(Ok(SRes::Ok { nq, .. })) = &got {
                eprintln!("--- sophia:\n{nq}");
            }
        }
        let got = match got {
            Ok(Ok(r)) => r,
            Ok(Err(incoherent)) => {
                let sig = if incoherent.starts_with("writer:") { "c14n/output-depends-on-writer" } else { "c14n/entry-points-disagree" };
                ctx.fail(sig, format!("{incoherent}\n{}", show_quads(&qs)));
                return;
            }
            Err(p) => {
                ctx.fail(format!("c14n/panic/{}", panic_site(&p)), format!("canonicalisation panicked: {p}\n{}", show_quads(&qs)));
                return;
            }
        };
        ctx.class(format!("result:{}", got.kind()));

        // ---- unsupported input
        if let Some(why) = unsup {
            ctx.class(format!("unsupported:{why}"));
            ctx.nontrivial();
            if !matches!(got, SRes::Unsupported(_)) {
                ctx.fail(format!("c14n/unsupported-not-reported/{why}"), format!("input has a {why} but the result is {got:?}\n{}", show_quads(&qs)));
            }
            return;
        }
        let r = reference.unwrap();
        let st = &r.stats;
        ctx.class(format!("bnodes:{}", match st.bnodes { 0 => "0", 1 => "1", 2..=3 => "2-3", 4..=7 => "4-7", 8..=10 => "8-10", _ => "11+" }));
        if st.shared_fd > 0 {
            ctx.class("shared-first-degree-hash");
        }
        if st.max_temp_ids >= 11 {
            ctx.class("temp-ids>=11");
        }
        if st.bnodes >= 11 {
            ctx.class("canonical-ids>=11");
        }
        if st.ties {
            ctx.class("equal-n-degree-hashes");
        }
        if st.skipped_521 > 0 {
            ctx.class("step-5.2.1-skip");
        }
        if st.max_depth > 0 {
            ctx.class(format!("recursion-depth:{}", match st.max_depth { 1 => "1", 2..=3 => "2-3", 4..=7 => "4-7", _ => "8+" }));
        }
        if st.max_group > 1 {
            ctx.class(format!("perm-group:{}", st.max_group.min(7)));
        }
        let esc = has_escape_char(&qs);
        if esc {
            ctx.class("escape-relevant-literal");
        }
        let trig = trigger(&qs, st);
        let group_exceeded = st.max_group > pl;
        let depth_exceeded = st.max_depth as f32 > df * st.bnodes as f32;
        if group_exceeded {
            ctx.class("ref:perm-limit-exceeded");
        }
        if depth_exceeded {
            ctx.class("ref:depth-limit-exceeded");
        }

        match &got {
            SRes::Unsupported(m) => {
                ctx.fail("c14n/unsupported-on-supported-input", format!("Unsupported({m}) for a dataset without blank predicate / quoted triple / variable\n{}", show_quads(&qs)));
            }
            SRes::Other(m) => {
                ctx.fail("c14n/unexpected-error", format!("{m}\n{}", show_quads(&qs)));
            }
            SRes::Toxic(m) => {
                ctx.nontrivial();
                if !(group_exceeded || depth_exceeded) {
                    ctx.fail(
                        format!("c14n/toxic-within-limits/{trig}"),
                        format!(
                            "ToxicGraph({m}) with depth_factor={df} permutation_limit={pl}, but the unpruned reference never met a group larger than {} nor a depth beyond {} ({} blank nodes)\n{}",
                            st.max_group,
                            st.max_depth,
                            st.bnodes,
                            show_quads(&qs)
                        ),
                    );
                }
            }
            SRes::Ok { nq, quads, idmap } => {
                if st.shared_fd >= 2 || esc {
                    ctx.nontrivial();
                }
                let mut ambiguous = false;
                if nq != &r.nquads && st.ties {
                    // The Recommendation leaves the order of tied results / permutations open. Normally
                    // every resolution gives the same document; on some inputs it does not (RDFC-1.0
                    // itself is ambiguous there). Accept any document the reference can produce.
                    let alts = rdfc_ref::alt_docs(&qs, alg, (st.calls * 2).max(2_000), 40);
                    if alts.contains(nq) {
                        ctx.class("rdfc10-ambiguous-input(other-admissible-document)");
                        ambiguous = true;
                    } else {
                        // cannot be adjudicated soundly: ties exist, and the search over tie resolutions
                        // is not exhaustive. Counted, not failed (label-dependence is C05's business).
                        ctx.class(if alts.len() > 1 { "rdfc10-ambiguous-input(unresolved)" } else { "tie-mismatch(unresolved)" });
                        if std::env::var_os("VERIF_C06_STRICT_TIES").is_some() {
                            // debugging knob: report them, to look at the inputs
                            ctx.fail(format!("debug/unresolved/{}", alts.len().min(2)), format!("input:\n{}\n sophia:\n{nq}\n reference:\n{}\n alternatives: {}", show_quads(&qs), r.nquads, alts.len()));
                        }
                        return;
                    }
                }
                if ambiguous {
                    // sophia's own document must still be reproduced by its id map and relabelled quads
                    let lines = {
                        let mut l: Vec<String> = qs.iter().map(|q| rdfc_ref::quad_nq(q, &|b: &str| idmap.get(b).cloned().unwrap_or_else(|| format!("?{b}")))).collect();
                        l.sort();
                        l.concat()
                    };
                    let mut l2: Vec<String> = quads.iter().map(|q| rdfc_ref::quad_nq(q, &|b: &str| b.to_string())).collect();
                    l2.sort();
                    if &lines != nq || &l2.concat() != nq {
                        ctx.fail(format!("c14n/idmap-inconsistent/{trig}"), format!("id map / relabelled quads do not reproduce sophia's own document\n input:\n{}\n document:\n{nq}\n id map: {idmap:?}", show_quads(&qs)));
                    }
                    return;
                }
                if nq != &r.nquads {
                    // is the difference in the labelling, or already in the way terms/lines are written?
                    let unl = |doc: &str| {
                        let mut l: Vec<String> = doc
                            .lines()
                            .map(|line| {
                                let mut out = String::new();
                                let mut rest = line;
                                while let Some(i) = rest.find("_:c14n") {
                                    out.push_str(&rest[..i + 6]);
                                    rest = rest[i + 6..].trim_start_matches(|c: char| c.is_ascii_digit());
                                }
                                out.push_str(rest);
                                out
                            })
                            .collect();
                        l.sort();
                        l
                    };
                    let trig = if unl(nq) != unl(&r.nquads) {
                        if esc { "literal-serialisation" } else { "serialisation" }
                    } else if nq.lines().collect::<BTreeSet<_>>() == r.nquads.lines().collect::<BTreeSet<_>>() {
                        "line-order"
                    } else {
                        trig
                    };
                    ctx.fail(
                        format!("c14n/output-differs-from-rdfc10/{trig}"),
                        format!("canonical N-Quads differ from RDFC-1.0 ({})\n input:\n{}\n sophia:\n{}\n reference:\n{}", if case.sha384 { "SHA-384" } else { "SHA-256" }, show_quads(&qs), nq, r.nquads),
                    );
                    return;
                }
                // issued identifiers
                if !st.ties {
                    if idmap != &r.idmap {
                        ctx.fail(format!("c14n/idmap-differs-from-rdfc10/{trig}"), format!("issued identifiers differ\n input:\n{}\n sophia: {idmap:?}\n reference: {:?}", show_quads(&qs), r.idmap));
                    }
                } else {
                    let keys: BTreeSet<&String> = idmap.keys().collect();
                    let vals: BTreeSet<&String> = idmap.values().collect();
                    let want: BTreeSet<String> = (0..st.bnodes).map(|i| format!("c14n{i}")).collect();
                    let lines = {
                        let mut l: Vec<String> = qs.iter().map(|q| rdfc_ref::quad_nq(q, &|b: &str| idmap.get(b).cloned().unwrap_or_else(|| format!("?{b}")))).collect();
                        l.sort();
                        l.concat()
                    };
                    if keys != r.idmap.keys().collect() || vals.len() != keys.len() || vals.iter().map(|s| s.to_string()).collect::<BTreeSet<_>>() != want || lines != r.nquads {
                        ctx.fail(format!("c14n/idmap-inconsistent/{trig}"), format!("issued identifiers (tie case) do not reproduce the canonical document\n input:\n{}\n sophia: {idmap:?}", show_quads(&qs)));
                    }
                }
                // the relabelled quads are the canonical document as well
                let mut l: Vec<String> = quads.iter().map(|q| rdfc_ref::quad_nq(q, &|b: &str| b.to_string())).collect();
                l.sort();
                if l.concat() != r.nquads {
                    ctx.fail(format!("c14n/relabel-quads-differ/{trig}"), format!("quads returned by relabel_with are not the canonical document\n input:\n{}\n got:\n{}\n reference:\n{}", show_quads(&qs), l.concat(), r.nquads));
                }
            }
        }
    }
}

pub fn case_quads(case: &Case) -> Vec<MQ> {
    match &case.input {
        Input::Spec(s) => s.build(),
        Input::Quads(q) => normalise_dataset(q.clone()),
        Input::Enumerated { n, scheme, mask, deco } => enumerated(*n as usize, *scheme, *mask, *deco),
    }
}

pub fn main(opts: &Opts) -> i32 {
    drive::<C06>(opts)
}
pub fn worker(_args: &[String]) -> i32 {
    2
}
