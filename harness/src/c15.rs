//! C15 — streams deliver exactly the prefix before a failure and blame the right side.
//!
//! Exhaustive fault enumeration over: source kind x adapter chain (every sequence of
//! length <= 3 over filter / map / filter_map / to_quads|to_triples, plus `into_iter()`
//! of a final map / filter_map) x consumer (closure through the three drivers,
//! collectors, store insertion/removal, serializers on a failing writer) x single fault
//! (none, source fault at k, sink fault at k).
//!
//! The adapters are the real sophia adapters nested directly on each other; the chain is
//! built by a depth-indexed generic function (monomorphised for all 85 chains and every
//! source type) and handed to the consumer through a thin type-erasing `Source` shim
//! (`BoxTS` / `BoxQS`). A dozen pipelines are additionally built fully statically (no shim).
//!
//! Oracle: the chain is mirrored by model functions on model quads; instrumented sources
//! and sinks record pulls and deliveries; see `judge`.
use crate::engine::*;
use crate::model::*;
use crate::nqread;
use crate::stores::{TinyFastDataset, TinyFastGraph, ST};
use proptest::prelude::*;
use serde::{Deserialize, Serialize};
use serde_json::{json, Value};
use sophia_api::dataset::{Dataset, MutableDataset};
use sophia_api::graph::{Graph, MutableGraph};
use sophia_api::parser::{QuadParser, TripleParser};
use sophia_api::quad::{Quad, Spog};
use sophia_api::serializer::{QuadSerializer, TripleSerializer};
use sophia_api::source::StreamError::{SinkError, SourceError};
use sophia_api::source::{QuadSource, Source, StreamError, StreamResult, TripleSource};
use sophia_api::term::{GraphName, Term};
use sophia_api::triple::Triple;
use sophia_inmem::dataset::FastDataset;
use sophia_inmem::graph::FastGraph;
use sophia_turtle::parser::{nq::NQuadsParser, nt::NTriplesParser, trig::TriGParser, turtle::TurtleParser};
use sophia_turtle::serializer::{nq::NqSerializer, nt::NtSerializer, trig::TrigSerializer, turtle::TurtleSerializer};
use std::cell::Cell;
use std::collections::{BTreeSet, HashSet};
use std::convert::Infallible;
use std::error::Error;
use std::fmt;
use std::io;
use std::marker::PhantomData;
use std::rc::Rc;

// ------------------------------------------------------------------ case

#[derive(Clone, Copy, Debug, Serialize, Deserialize, PartialEq, Eq)]
pub struct Item {
    pub s: u8,
    pub p: u8,
    pub o: u8,
    pub g: u8,
}

#[derive(Clone, Copy, Debug, Serialize, Deserialize, PartialEq, Eq)]
pub enum Fault {
    None,
    /// the source fails instead of yielding its k-th item
    Source(u8),
    /// the consumer fails on the k-th item delivered to it (closure / failing store),
    /// or the writer fails inside the k-th statement (serializers); ignored by consumers
    /// that cannot fail
    Sink(u8),
}

#[derive(Clone, Debug, Serialize, Deserialize)]
pub struct Case {
    /// index in KINDS
    pub kind: u8,
    pub items: Vec<Item>,
    /// 0 filter, 1 map, 2 filter_map, 3 to_quads / to_triples
    pub chain: Vec<u8>,
    /// call `into_iter()` on the final map / filter_map adapter
    pub into_iter: bool,
    /// index in SINKS
    pub sink: u8,
    pub fault: Fault,
    /// capacity choice of the Tiny index / byte offset inside the failing statement
    pub aux: u8,
    /// build the pipeline statically (no type-erasing shim) when it is one of DIRECT
    pub direct: bool,
}

const KINDS: &[&str] = &[
    "iter-triples",
    "iter-quads",
    "nt-parser",
    "nq-parser",
    "turtle-parser",
    "turtle-parser-grouped",
    "trig-parser",
    "vec-store-triples",
    "vec-store-quads",
    "fast-graph-triples",
    "fast-dataset-quads",
];
fn kind_is_quads(k: usize) -> bool {
    matches!(k, 1 | 3 | 6 | 8 | 10)
}
fn kind_can_fail(k: usize) -> bool {
    k <= 6
}
fn kind_counts_pulls(k: usize) -> bool {
    k <= 1
}

const ADAPTERS: &[&str] = &["filter", "map", "filter_map", "convert"];

const SINKS: &[&str] = &[
    "try_for_each_item(closure)",
    "loop{try_for_some_item(closure)}",
    "for_each_item(closure)",
    "collect->Vec",
    "collect->HashSet",
    "collect->Fast",
    "collect->TinyFast",
    "insert_all(TinyFast)",
    "remove_all(Fast)",
    "insert_all(FailingStore)",
    "remove_all(FailingStore)",
    "add_to(Vec)",
    "serialize(NT/NQ, failing writer)",
    "serialize(Turtle/TriG, failing writer)",
];
/// can this consumer fail at a chosen position?
fn sink_can_fail(s: usize) -> bool {
    matches!(s, 0 | 1 | 9 | 10 | 12 | 13)
}
/// does the failure position come from `aux` (index capacity) rather than from `Fault::Sink`?
fn sink_fails_by_capacity(s: usize) -> bool {
    matches!(s, 6 | 7)
}

/// statically built pipelines: (kind, chain, into_iter)
const DIRECT: &[(u8, &[u8], bool)] = &[
    (0, &[0, 1], false),
    (2, &[2, 3], false),
    (3, &[3, 0], false),
    (7, &[1], true),
    (5, &[0], false),
    (1, &[2, 3], false),
    (6, &[0, 1, 2], false),
    (10, &[1, 0], false),
    (0, &[], false),
    (2, &[], false),
    (1, &[0, 2], true),
    (4, &[1, 1, 1], false),
];

// ------------------------------------------------------------------ items and model adapters

fn pool_s() -> Vec<MT> {
    vec![MT::iri("http://x/s0"), MT::iri("http://x/s1"), MT::bn("b0")]
}
fn pool_p() -> Vec<MT> {
    vec![MT::iri("http://x/p0"), MT::iri("http://x/p1")]
}
fn pool_o() -> Vec<MT> {
    vec![MT::iri("http://x/o0"), MT::iri("http://x/o1"), MT::string("v"), MT::lang("w", "en"), MT::bn("b1")]
}
fn pool_g() -> Vec<Option<MT>> {
    vec![None, Some(MT::iri("http://x/g0")), Some(MT::bn("g1"))]
}
fn item_mq(i: &Item, quads: bool) -> MQ {
    let (s, p, o, g) = (pool_s(), pool_p(), pool_o(), pool_g());
    MQ::new(
        s[i.s as usize % s.len()].clone(),
        p[i.p as usize % p.len()].clone(),
        o[i.o as usize % o.len()].clone(),
        if quads { g[i.g as usize % g.len()].clone() } else { None },
    )
}

fn mq_t<T: Triple>(t: &T) -> MQ {
    MQ { s: MT::from_term(t.s()), p: MT::from_term(t.p()), o: MT::from_term(t.o()), g: None }
}
fn mq_q<Q: Quad>(q: &Q) -> MQ {
    MQ { s: MT::from_term(q.s()), p: MT::from_term(q.p()), o: MT::from_term(q.o()), g: q.g().map(MT::from_term) }
}
fn t_of(q: &MQ) -> [ST; 3] {
    q.to_triple()
}
fn q_of(q: &MQ) -> Spog<ST> {
    q.to_spog()
}

/// small deterministic fingerprint of a model quad
fn tag(q: &MQ) -> u32 {
    q.show().bytes().fold(7u32, |a, b| a.wrapping_mul(31).wrapping_add(b as u32)) % 1009
}
fn short(t: &MT) -> String {
    match t {
        MT::Iri(i) => i.rsplit('/').next().unwrap_or("").to_string(),
        MT::Bnode(b) => format!("_{b}"),
        MT::Lit(l, _) => l.clone(),
        MT::Lang(l, t) => format!("{l}@{t}"),
        other => other.show(),
    }
}
fn m_filter(lvl: u32, q: &MQ) -> bool {
    (tag(q) + lvl) % 3 != 0
}
fn m_map(lvl: u32, q: &MQ) -> MQ {
    let mut r = q.clone();
    r.o = MT::string(format!("m{lvl}:{}", short(&q.o)));
    r
}
fn m_filter_map(lvl: u32, q: &MQ) -> Option<MQ> {
    if (tag(q) + lvl) % 4 == 1 {
        None
    } else {
        let mut r = q.clone();
        r.o = MT::string(format!("f{lvl}:{}", short(&q.o)));
        Some(r)
    }
}

/// Model of the chain: image of each source item (with its source index).
fn model_image(src: &[MQ], chain: &[u8]) -> Vec<(usize, MQ)> {
    let mut out = vec![];
    'items: for (i, q) in src.iter().enumerate() {
        let mut cur = q.clone();
        for (lvl, a) in chain.iter().enumerate() {
            let lvl = lvl as u32;
            match a % 4 {
                0 => {
                    if !m_filter(lvl, &cur) {
                        continue 'items;
                    }
                }
                1 => cur = m_map(lvl, &cur),
                2 => match m_filter_map(lvl, &cur) {
                    None => continue 'items,
                    Some(r) => cur = r,
                },
                _ => cur.g = None, // quads -> triples drops the graph name; triples -> quads: default graph
            }
        }
        out.push((i, cur));
    }
    out
}
fn final_is_quads(kind: usize, chain: &[u8]) -> bool {
    let flips = chain.iter().filter(|a| **a % 4 == 3).count();
    kind_is_quads(kind) ^ (flips % 2 == 1)
}

// ------------------------------------------------------------------ errors

/// identity token carried by every injected error
#[derive(Debug, Clone, Copy, PartialEq, Eq)]
pub struct Tok(pub u32);
impl fmt::Display for Tok {
    fn fmt(&self, f: &mut fmt::Formatter<'_>) -> fmt::Result {
        write!(f, "injected fault #{}", self.0)
    }
}
impl Error for Tok {}

#[derive(Debug)]
struct Stop;
impl fmt::Display for Stop {
    fn fmt(&self, f: &mut fmt::Formatter<'_>) -> fmt::Result {
        write!(f, "stop")
    }
}
impl Error for Stop {}

/// erased source error of the shim
#[derive(Debug)]
pub struct SrcErr(Box<dyn Error + Send + Sync + 'static>);
impl fmt::Display for SrcErr {
    fn fmt(&self, f: &mut fmt::Formatter<'_>) -> fmt::Result {
        self.0.fmt(f)
    }
}
impl Error for SrcErr {}

#[derive(Debug, Clone)]
struct ErrInfo {
    tok: Option<u32>,
    text: String,
}
fn find_tok(e: &(dyn Error + 'static)) -> Option<u32> {
    if let Some(t) = e.downcast_ref::<Tok>() {
        return Some(t.0);
    }
    if let Some(s) = e.downcast_ref::<SrcErr>() {
        return find_tok(&*s.0);
    }
    if let Some(io) = e.downcast_ref::<io::Error>() {
        if let Some(inner) = io.get_ref() {
            return find_tok(inner);
        }
        return None;
    }
    e.source().and_then(find_tok)
}
fn describe<E: Error + 'static>(e: &E) -> ErrInfo {
    ErrInfo { tok: find_tok(e), text: e.to_string() }
}

#[derive(Debug, Clone)]
enum Res {
    Ok(Option<usize>),
    Src(ErrInfo),
    Sink(ErrInfo),
}
fn res_of<E1: Error + 'static, E2: Error + 'static>(r: Result<Option<usize>, StreamError<E1, E2>>) -> Res {
    match r {
        Ok(c) => Res::Ok(c),
        Err(SourceError(e)) => Res::Src(describe(&e)),
        Err(SinkError(e)) => Res::Sink(describe(&e)),
    }
}

// ------------------------------------------------------------------ instrumented sources

struct FaultyIter<T> {
    items: Vec<T>,
    pos: usize,
    fault: Option<usize>,
    fired: bool,
    pulls: Rc<Cell<usize>>,
}
impl<T: Clone> Iterator for FaultyIter<T> {
    type Item = Result<T, Tok>;
    fn next(&mut self) -> Option<Self::Item> {
        self.pulls.set(self.pulls.get() + 1);
        if Some(self.pos) == self.fault && !self.fired {
            self.fired = true;
            // the faulty element replaces item k; a consumer that wrongly goes on sees k+1..
            self.pos += 1;
            return Some(Err(Tok(self.pos as u32 - 1)));
        }
        let r = self.items.get(self.pos).cloned().map(Ok);
        if r.is_some() {
            self.pos += 1;
        }
        r
    }
}

fn nt_term(t: &MT) -> String {
    match t {
        MT::Iri(i) => format!("<{i}>"),
        MT::Bnode(b) => format!("_:{b}"),
        MT::Lit(l, d) if d == XSD_STRING => format!("\"{l}\""),
        MT::Lit(l, d) => format!("\"{l}\"^^<{d}>"),
        MT::Lang(l, t) => format!("\"{l}\"@{t}"),
        other => other.show(),
    }
}
const BAD_LINE: &str = "<http://x/bad> <http://x/bad> .";

/// One statement per line (N-Triples / N-Quads / Turtle / TriG flavours); the statement
/// of item k is replaced by a syntax error when `fault == Some(k)`.
fn text_for(kind: usize, src: &[MQ], fault: Option<usize>) -> String {
    let mut out = String::new();
    let mut i = 0;
    while i < src.len() {
        if Some(i) == fault {
            out.push_str(BAD_LINE);
            out.push('\n');
            i += 1;
            continue;
        }
        let q = &src[i];
        let spo = format!("{} {} {}", nt_term(&q.s), nt_term(&q.p), nt_term(&q.o));
        match kind {
            3 => match &q.g {
                None => out.push_str(&format!("{spo} .\n")),
                Some(g) => out.push_str(&format!("{spo} {} .\n", nt_term(g))),
            },
            6 => match &q.g {
                None => out.push_str(&format!("{spo} .\n")),
                Some(g) => out.push_str(&format!("{} {{ {spo} . }}\n", nt_term(g))),
            },
            5 => {
                // group the following items with the same subject into one statement
                let mut stmt = spo;
                let mut j = i + 1;
                while j < src.len() && Some(j) != fault && src[j].s == q.s && j - i < 3 {
                    stmt.push_str(&format!(" ; {} {}", nt_term(&src[j].p), nt_term(&src[j].o)));
                    j += 1;
                }
                if j < src.len() && Some(j) == fault && j - i < 3 {
                    // the syntax error sits *inside* the grouped statement: the parser delivers
                    // the triples before it and fails within the same parse step
                    out.push_str(&format!("{stmt} ; <http://x/bad> .\n"));
                    i = j + 1;
                    continue;
                }
                out.push_str(&format!("{stmt} .\n"));
                i = j;
                continue;
            }
            _ => out.push_str(&format!("{spo} .\n")),
        }
        i += 1;
    }
    out
}

// ------------------------------------------------------------------ type-erasing shim

fn own_t<T: Triple>(t: &T) -> [ST; 3] {
    [t.s().into_term(), t.p().into_term(), t.o().into_term()]
}
fn own_q<Q: Quad>(q: &Q) -> Spog<ST> {
    ([q.s().into_term(), q.p().into_term(), q.o().into_term()], q.g().map(|g| g.into_term()))
}

trait DynT {
    fn step(&mut self, f: &mut dyn FnMut([ST; 3]) -> Result<(), Stop>) -> StreamResult<bool, SrcErr, Stop>;
}
struct HoldT<S>(S);
impl<S: TripleSource> DynT for HoldT<S> {
    fn step(&mut self, f: &mut dyn FnMut([ST; 3]) -> Result<(), Stop>) -> StreamResult<bool, SrcErr, Stop> {
        self.0
            .try_for_some_item(|t| f(own_t(&t)))
            .map_err(|e| e.map_source(|e| SrcErr(Box::new(e))))
    }
}
pub struct BoxTS<'a>(Box<dyn DynT + 'a>);
impl<'a> BoxTS<'a> {
    fn new<S: TripleSource + 'a>(s: S) -> Self {
        BoxTS(Box::new(HoldT(s)))
    }
}
impl Source for BoxTS<'_> {
    type Item<'x> = [ST; 3];
    type Error = SrcErr;
    fn try_for_some_item<E, F>(&mut self, mut f: F) -> StreamResult<bool, SrcErr, E>
    where
        E: Error + Send + Sync + 'static,
        F: FnMut(Self::Item<'_>) -> Result<(), E>,
    {
        let mut stash: Option<E> = None;
        let r = self.0.step(&mut |t| {
            f(t).map_err(|e| {
                stash = Some(e);
                Stop
            })
        });
        match r {
            Ok(b) => Ok(b),
            Err(SourceError(e)) => Err(SourceError(e)),
            Err(SinkError(Stop)) => Err(SinkError(stash.expect("shim: sink error without a stashed value"))),
        }
    }
}

trait DynQ {
    fn step(&mut self, f: &mut dyn FnMut(Spog<ST>) -> Result<(), Stop>) -> StreamResult<bool, SrcErr, Stop>;
}
struct HoldQ<S>(S);
impl<S: QuadSource> DynQ for HoldQ<S> {
    fn step(&mut self, f: &mut dyn FnMut(Spog<ST>) -> Result<(), Stop>) -> StreamResult<bool, SrcErr, Stop> {
        self.0
            .try_for_some_item(|q| f(own_q(&q)))
            .map_err(|e| e.map_source(|e| SrcErr(Box::new(e))))
    }
}
pub struct BoxQS<'a>(Box<dyn DynQ + 'a>);
impl<'a> BoxQS<'a> {
    fn new<S: QuadSource + 'a>(s: S) -> Self {
        BoxQS(Box::new(HoldQ(s)))
    }
}
impl Source for BoxQS<'_> {
    type Item<'x> = Spog<ST>;
    type Error = SrcErr;
    fn try_for_some_item<E, F>(&mut self, mut f: F) -> StreamResult<bool, SrcErr, E>
    where
        E: Error + Send + Sync + 'static,
        F: FnMut(Self::Item<'_>) -> Result<(), E>,
    {
        let mut stash: Option<E> = None;
        let r = self.0.step(&mut |q| {
            f(q).map_err(|e| {
                stash = Some(e);
                Stop
            })
        });
        match r {
            Ok(b) => Ok(b),
            Err(SourceError(e)) => Err(SourceError(e)),
            Err(SinkError(Stop)) => Err(SinkError(stash.expect("shim: sink error without a stashed value"))),
        }
    }
}

pub enum Built<'a> {
    T(BoxTS<'a>),
    Q(BoxQS<'a>),
}

// ------------------------------------------------------------------ real adapters (mirrors of the model functions)

macro_rules! flt_t {
    ($s:expr, $l:expr) => {{
        let l: u32 = $l;
        $s.filter_triples(move |t| m_filter(l, &mq_t(t)))
    }};
}
macro_rules! map_t {
    ($s:expr, $l:expr) => {{
        let l: u32 = $l;
        $s.map_triples(move |t| t_of(&m_map(l, &mq_t(&t))))
    }};
}
macro_rules! fm_t {
    ($s:expr, $l:expr) => {{
        let l: u32 = $l;
        $s.filter_map_triples(move |t| m_filter_map(l, &mq_t(&t)).map(|q| t_of(&q)))
    }};
}
macro_rules! flt_q {
    ($s:expr, $l:expr) => {{
        let l: u32 = $l;
        $s.filter_quads(move |q| m_filter(l, &mq_q(q)))
    }};
}
macro_rules! map_q {
    ($s:expr, $l:expr) => {{
        let l: u32 = $l;
        $s.map_quads(move |q| q_of(&m_map(l, &mq_q(&q))))
    }};
}
macro_rules! fm_q {
    ($s:expr, $l:expr) => {{
        let l: u32 = $l;
        $s.filter_map_quads(move |q| m_filter_map(l, &mq_q(&q)).map(|r| q_of(&r)))
    }};
}

/// Depth-indexed chain builder: `D3::go_t(source, chain, 0, into_iter)` nests the real
/// adapters directly on each other; monomorphised for every chain of length <= 3.
trait Depth {
    fn go_t<'a, S: TripleSource + 'a>(s: S, chain: &[u8], lvl: u32, ii: bool) -> Built<'a>;
    fn go_q<'a, S: QuadSource + 'a>(s: S, chain: &[u8], lvl: u32, ii: bool) -> Built<'a>;
}
struct D0;
struct DS<P>(PhantomData<P>);
type D3 = DS<DS<DS<D0>>>;
impl Depth for D0 {
    fn go_t<'a, S: TripleSource + 'a>(s: S, chain: &[u8], _lvl: u32, _ii: bool) -> Built<'a> {
        assert!(chain.is_empty(), "chain longer than the supported depth");
        Built::T(BoxTS::new(s))
    }
    fn go_q<'a, S: QuadSource + 'a>(s: S, chain: &[u8], _lvl: u32, _ii: bool) -> Built<'a> {
        assert!(chain.is_empty(), "chain longer than the supported depth");
        Built::Q(BoxQS::new(s))
    }
}
impl<P: Depth> Depth for DS<P> {
    fn go_t<'a, S: TripleSource + 'a>(s: S, chain: &[u8], lvl: u32, ii: bool) -> Built<'a> {
        let Some((a, rest)) = chain.split_first() else {
            return Built::T(BoxTS::new(s));
        };
        let last_ii = ii && rest.is_empty();
        match a % 4 {
            0 => P::go_t(flt_t!(s, lvl), rest, lvl + 1, ii),
            1 => {
                let m = map_t!(s, lvl);
                if last_ii {
                    Built::T(BoxTS::new(m.into_iter()))
                } else {
                    P::go_t(m, rest, lvl + 1, ii)
                }
            }
            2 => {
                let m = fm_t!(s, lvl);
                if last_ii {
                    Built::T(BoxTS::new(m.into_iter()))
                } else {
                    P::go_t(m, rest, lvl + 1, ii)
                }
            }
            _ => P::go_q(s.to_quads(), rest, lvl + 1, ii),
        }
    }
    fn go_q<'a, S: QuadSource + 'a>(s: S, chain: &[u8], lvl: u32, ii: bool) -> Built<'a> {
        let Some((a, rest)) = chain.split_first() else {
            return Built::Q(BoxQS::new(s));
        };
        let last_ii = ii && rest.is_empty();
        match a % 4 {
            0 => P::go_q(flt_q!(s, lvl), rest, lvl + 1, ii),
            1 => {
                let m = map_q!(s, lvl);
                if last_ii {
                    Built::Q(BoxQS::new(m.into_iter()))
                } else {
                    P::go_q(m, rest, lvl + 1, ii)
                }
            }
            2 => {
                let m = fm_q!(s, lvl);
                if last_ii {
                    Built::Q(BoxQS::new(m.into_iter()))
                } else {
                    P::go_q(m, rest, lvl + 1, ii)
                }
            }
            _ => P::go_t(s.to_triples(), rest, lvl + 1, ii),
        }
    }
}

// ------------------------------------------------------------------ instrumented sinks

struct FailWriter {
    buf: Vec<u8>,
    limit: Option<usize>,
    /// report "full" the way `&mut [u8]` and `Cursor<&mut [u8]>` do: accept what fits (a short
    /// write), then `Ok(0)`; `write_all` turns that into an `ErrorKind::WriteZero` error
    short: bool,
}
impl io::Write for FailWriter {
    fn write(&mut self, data: &[u8]) -> io::Result<usize> {
        if let Some(l) = self.limit {
            if self.short {
                let room = l.saturating_sub(self.buf.len()).min(data.len());
                self.buf.extend_from_slice(&data[..room]);
                return Ok(room);
            }
            if self.buf.len() + data.len() > l {
                return Err(io::Error::new(io::ErrorKind::Other, Tok(l as u32)));
            }
        }
        self.buf.extend_from_slice(data);
        Ok(data.len())
    }
    fn flush(&mut self) -> io::Result<()> {
        Ok(())
    }
}

/// A minimal set store whose mutations fail at a chosen call; `insert_all` / `remove_all`
/// are the default implementations of the sophia traits.
struct FailStore {
    content: Vec<MQ>,
    attempts: Vec<MQ>,
    fail_at: Option<u32>,
}
impl FailStore {
    fn new(init: &[MQ], fail_at: Option<u32>) -> Self {
        let mut content: Vec<MQ> = vec![];
        for q in init {
            if !content.contains(q) {
                content.push(q.clone());
            }
        }
        FailStore { content, attempts: vec![], fail_at }
    }
    fn attempt(&mut self, q: MQ, insert: bool) -> Result<bool, Tok> {
        let n = self.attempts.len() as u32;
        self.attempts.push(q.clone());
        if Some(n) == self.fail_at {
            return Err(Tok(n));
        }
        let present = self.content.contains(&q);
        if insert {
            if !present {
                self.content.push(q);
            }
            Ok(!present)
        } else {
            self.content.retain(|x| *x != q);
            Ok(present)
        }
    }
}
impl Graph for FailStore {
    type Triple<'x> = [ST; 3];
    type Error = Infallible;
    fn triples(&self) -> impl Iterator<Item = Result<[ST; 3], Infallible>> + '_ {
        self.content.iter().map(|q| Ok(q.to_triple()))
    }
}
impl MutableGraph for FailStore {
    type MutationError = Tok;
    fn insert<TS: Term, TP: Term, TO: Term>(&mut self, s: TS, p: TP, o: TO) -> Result<bool, Tok> {
        let q = MQ::new(MT::from_term(s), MT::from_term(p), MT::from_term(o), None);
        self.attempt(q, true)
    }
    fn remove<TS: Term, TP: Term, TO: Term>(&mut self, s: TS, p: TP, o: TO) -> Result<bool, Tok> {
        let q = MQ::new(MT::from_term(s), MT::from_term(p), MT::from_term(o), None);
        self.attempt(q, false)
    }
}
impl Dataset for FailStore {
    type Quad<'x> = Spog<ST>;
    type Error = Infallible;
    fn quads(&self) -> impl Iterator<Item = Result<Spog<ST>, Infallible>> + '_ {
        self.content.iter().map(|q| Ok(q.to_spog()))
    }
}
impl MutableDataset for FailStore {
    type MutationError = Tok;
    fn insert<TS: Term, TP: Term, TO: Term, TG: Term>(&mut self, s: TS, p: TP, o: TO, g: GraphName<TG>) -> Result<bool, Tok> {
        let q = MQ::new(MT::from_term(s), MT::from_term(p), MT::from_term(o), g.map(MT::from_term));
        self.attempt(q, true)
    }
    fn remove<TS: Term, TP: Term, TO: Term, TG: Term>(&mut self, s: TS, p: TP, o: TO, g: GraphName<TG>) -> Result<bool, Tok> {
        let q = MQ::new(MT::from_term(s), MT::from_term(p), MT::from_term(o), g.map(MT::from_term));
        self.attempt(q, false)
    }
}

#[derive(Debug, Clone)]
struct SinkSpec {
    sink: usize,
    /// closure / failing store: index of the failing delivery; serializers: byte limit
    fail_at: Option<u32>,
    /// Tiny index capacity (3, 5 or 8)
    cap: u8,
    /// initial content of the target store
    init: Vec<MQ>,
    /// serializers: the writer fills up through short writes instead of returning an error
    short: bool,
    /// add_to(Vec), quad pipelines: the target is a graph seen as a dataset (`as_dataset_mut()`),
    /// which refuses quads of named graphs with an error (a sink fault that comes from the data)
    gad: bool,
}

#[derive(Debug, Default)]
struct Outcome {
    /// items seen by the closure / offered to the failing store, in order
    delivered: Option<Vec<MQ>>,
    res: Option<Res>,
    /// collected container (in order for Vec, sorted otherwise)
    collected: Option<Vec<MQ>>,
    /// content of the target store afterwards (sorted; in order for Vec)
    store: Option<Vec<MQ>>,
    written: Option<Vec<u8>>,
    /// an access path of the target store whose view differs from its enumeration
    store_path: Option<String>,
}

/// The content of a graph store as every access path shows it: the enumeration, and for each
/// of the seven bound/unbound shapes the union of `triples_matching` over the terms present.
/// Returns the enumeration and the first access path whose view differs from it.
fn graph_views<G: sophia_api::graph::Graph>(g: &G) -> (Vec<MQ>, Option<String>) {
    use sophia_api::term::matcher::Any;
    let all = sorted_set(collect_graph(g));
    let mut bad = None;
    for shape in 1u8..8 {
        let mut keys: BTreeSet<[Option<MT>; 3]> = BTreeSet::new();
        for q in &all {
            keys.insert([
                (shape & 1 != 0).then(|| q.s.clone()),
                (shape & 2 != 0).then(|| q.p.clone()),
                (shape & 4 != 0).then(|| q.o.clone()),
            ]);
        }
        let mut view = vec![];
        for [s, p, o] in keys {
            let st = |x: &Option<MT>| x.as_ref().map(|t| t.to_simple());
            let (s, p, o) = (st(&s), st(&p), st(&o));
            let it: Vec<MQ> = match (&s, &p, &o) {
                (Some(s), None, None) => g.triples_matching([s.clone()], Any, Any).map(|t| MQ::from_triple(t.expect("graph error"))).collect(),
                (None, Some(p), None) => g.triples_matching(Any, [p.clone()], Any).map(|t| MQ::from_triple(t.expect("graph error"))).collect(),
                (Some(s), Some(p), None) => g.triples_matching([s.clone()], [p.clone()], Any).map(|t| MQ::from_triple(t.expect("graph error"))).collect(),
                (None, None, Some(o)) => g.triples_matching(Any, Any, [o.clone()]).map(|t| MQ::from_triple(t.expect("graph error"))).collect(),
                (Some(s), None, Some(o)) => g.triples_matching([s.clone()], Any, [o.clone()]).map(|t| MQ::from_triple(t.expect("graph error"))).collect(),
                (None, Some(p), Some(o)) => g.triples_matching(Any, [p.clone()], [o.clone()]).map(|t| MQ::from_triple(t.expect("graph error"))).collect(),
                (Some(s), Some(p), Some(o)) => g.triples_matching([s.clone()], [p.clone()], [o.clone()]).map(|t| MQ::from_triple(t.expect("graph error"))).collect(),
                _ => unreachable!(),
            };
            view.extend(it);
        }
        if sorted_set(view) != all && bad.is_none() {
            bad = Some(format!("triples_matching({}{}{})", if shape & 1 != 0 { "s" } else { "*" }, if shape & 2 != 0 { "p" } else { "*" }, if shape & 4 != 0 { "o" } else { "*" }));
        }
    }
    (all, bad)
}

/// Same for a dataset store (fifteen shapes over s, p, o, g).
fn dataset_views<D: sophia_api::dataset::Dataset>(d: &D) -> (Vec<MQ>, Option<String>) {
    let all = sorted_set(collect_dataset(d));
    let mut bad = None;
    for shape in 1u8..16 {
        let mut keys: BTreeSet<(Option<MT>, Option<MT>, Option<MT>, Option<Option<MT>>)> = BTreeSet::new();
        for q in &all {
            keys.insert((
                (shape & 1 != 0).then(|| q.s.clone()),
                (shape & 2 != 0).then(|| q.p.clone()),
                (shape & 4 != 0).then(|| q.o.clone()),
                (shape & 8 != 0).then(|| q.g.clone()),
            ));
        }
        let mut view = vec![];
        for (s, p, o, gn) in keys {
            let tp = |x: &Option<MT>| match x {
                Some(t) => crate::pat::TPat::One(t.clone()).real(),
                None => crate::pat::TPat::Any.real(),
            };
            let gp = match &gn {
                Some(g) => crate::pat::GPat::One(g.clone()).real(),
                None => crate::pat::GPat::Any.real(),
            };
            let it = d.quads_matching(tp(&s), tp(&p), tp(&o), gp);
            view.extend(it.map(|q| MQ::from_quad(q.expect("dataset error"))));
        }
        if sorted_set(view) != all && bad.is_none() {
            bad = Some(format!("quads_matching(shape {shape:04b} of gops)"));
        }
    }
    (all, bad)
}

fn sorted_set(v: Vec<MQ>) -> Vec<MQ> {
    let s: BTreeSet<MQ> = v.into_iter().collect();
    s.into_iter().collect()
}

macro_rules! tiny_graph_sink {
    ($m:literal, $s:expr, $sp:expr, $insert:expr) => {{
        if $insert {
            let mut g = TinyFastGraph::<$m>::new();
            for q in &$sp.init {
                let [s, p, o] = q.to_triple();
                g.insert(s, p, o).expect("initial content fits by construction");
            }
            let r = $s.add_to_graph(&mut g);
            let (all, bad) = graph_views(&g);
            Outcome { res: Some(res_of(r.map(Some))), store: Some(all), store_path: bad, ..Outcome::default() }
        } else {
            let r: StreamResult<TinyFastGraph<$m>, _, _> = $s.collect_triples();
            match r {
                Ok(g) => Outcome { res: Some(Res::Ok(None)), collected: Some(sorted_set(collect_graph(&g))), ..Outcome::default() },
                Err(e) => Outcome { res: Some(res_of::<_, _>(Err(e))), ..Outcome::default() },
            }
        }
    }};
}
macro_rules! tiny_dataset_sink {
    ($m:literal, $s:expr, $sp:expr, $insert:expr) => {{
        if $insert {
            let mut d = TinyFastDataset::<$m>::new();
            for q in &$sp.init {
                let ([s, p, o], g) = q.to_spog();
                d.insert(s, p, o, g).expect("initial content fits by construction");
            }
            let r = $s.add_to_dataset(&mut d);
            let (all, bad) = dataset_views(&d);
            Outcome { res: Some(res_of(r.map(Some))), store: Some(all), store_path: bad, ..Outcome::default() }
        } else {
            let r: StreamResult<TinyFastDataset<$m>, _, _> = $s.collect_quads();
            match r {
                Ok(d) => Outcome { res: Some(Res::Ok(None)), collected: Some(sorted_set(collect_dataset(&d))), ..Outcome::default() },
                Err(e) => Outcome { res: Some(res_of::<_, _>(Err(e))), ..Outcome::default() },
            }
        }
    }};
}

fn consume_t<S: TripleSource>(mut s: S, sp: &SinkSpec) -> Outcome {
    match sp.sink {
        0 => {
            let mut seen = vec![];
            let r = s.try_for_each_item(|t| -> Result<(), Tok> {
                let i = seen.len() as u32;
                seen.push(mq_t(&t));
                if Some(i) == sp.fail_at {
                    Err(Tok(i))
                } else {
                    Ok(())
                }
            });
            Outcome { delivered: Some(seen), res: Some(res_of(r.map(|_| None))), ..Outcome::default() }
        }
        1 => {
            let mut seen = vec![];
            let r = loop {
                let step = s.try_for_some_item(|t| -> Result<(), Tok> {
                    let i = seen.len() as u32;
                    seen.push(mq_t(&t));
                    if Some(i) == sp.fail_at {
                        Err(Tok(i))
                    } else {
                        Ok(())
                    }
                });
                match step {
                    Ok(true) => continue,
                    Ok(false) => break Ok(None),
                    Err(e) => break Err(e),
                }
            };
            Outcome { delivered: Some(seen), res: Some(res_of(r)), ..Outcome::default() }
        }
        2 => {
            let mut seen = vec![];
            let r = s.for_each_item(|t| seen.push(mq_t(&t)));
            let res = match r {
                Ok(()) => Res::Ok(None),
                Err(e) => Res::Src(describe(&e)),
            };
            Outcome { delivered: Some(seen), res: Some(res), ..Outcome::default() }
        }
        3 => {
            let r: StreamResult<Vec<[ST; 3]>, _, _> = s.collect_triples();
            match r {
                Ok(v) => Outcome { res: Some(Res::Ok(None)), collected: Some(v.iter().map(mq_t).collect()), ..Outcome::default() },
                Err(e) => Outcome { res: Some(res_of::<_, _>(Err(e))), ..Outcome::default() },
            }
        }
        4 => {
            let r: StreamResult<HashSet<[ST; 3]>, _, _> = s.collect_triples();
            match r {
                Ok(v) => Outcome { res: Some(Res::Ok(None)), collected: Some(sorted_set(v.iter().map(mq_t).collect())), ..Outcome::default() },
                Err(e) => Outcome { res: Some(res_of::<_, _>(Err(e))), ..Outcome::default() },
            }
        }
        5 => {
            let r: StreamResult<FastGraph, _, _> = s.collect_triples();
            match r {
                Ok(g) => Outcome { res: Some(Res::Ok(None)), collected: Some(sorted_set(collect_graph(&g))), ..Outcome::default() },
                Err(e) => Outcome { res: Some(res_of::<_, _>(Err(e))), ..Outcome::default() },
            }
        }
        6 | 7 => {
            let insert = sp.sink == 7;
            match sp.cap {
                3 => tiny_graph_sink!(3, s, sp, insert),
                5 => tiny_graph_sink!(5, s, sp, insert),
                _ => tiny_graph_sink!(8, s, sp, insert),
            }
        }
        8 => {
            let mut g = FastGraph::new();
            for q in &sp.init {
                let [s, p, o] = q.to_triple();
                g.insert(s, p, o).expect("FastGraph insert");
            }
            let r = g.remove_all(s);
            let (all, bad) = graph_views(&g);
            Outcome { res: Some(res_of(r.map(Some))), store: Some(all), store_path: bad, ..Outcome::default() }
        }
        9 | 10 => {
            let mut st = FailStore::new(&sp.init, sp.fail_at);
            let r = if sp.sink == 9 {
                MutableGraph::insert_all(&mut st, s)
            } else {
                MutableGraph::remove_all(&mut st, s)
            };
            Outcome {
                delivered: Some(st.attempts.clone()),
                res: Some(res_of(r.map(Some))),
                store: Some(sorted_set(st.content.clone())),
                ..Outcome::default()
            }
        }
        11 => {
            let mut v: Vec<[ST; 3]> = sp.init.iter().map(t_of).collect();
            let r = s.add_to_graph(&mut v);
            Outcome { res: Some(res_of(r.map(Some))), store: Some(v.iter().map(mq_t).collect()), ..Outcome::default() }
        }
        12 => {
            let mut w = FailWriter { buf: vec![], limit: sp.fail_at.map(|x| x as usize), short: sp.short };
            let r = {
                let mut ser = NtSerializer::new(&mut w);
                ser.serialize_triples(s).map(|_| None)
            };
            Outcome { res: Some(res_of(r)), written: Some(w.buf), ..Outcome::default() }
        }
        _ => {
            let mut w = FailWriter { buf: vec![], limit: sp.fail_at.map(|x| x as usize), short: sp.short };
            let r = {
                let mut ser = TurtleSerializer::new(&mut w);
                ser.serialize_triples(s).map(|_| None)
            };
            Outcome { res: Some(res_of(r)), written: Some(w.buf), ..Outcome::default() }
        }
    }
}

fn consume_q<S: QuadSource>(mut s: S, sp: &SinkSpec) -> Outcome {
    match sp.sink {
        0 => {
            let mut seen = vec![];
            let r = s.try_for_each_item(|q| -> Result<(), Tok> {
                let i = seen.len() as u32;
                seen.push(mq_q(&q));
                if Some(i) == sp.fail_at {
                    Err(Tok(i))
                } else {
                    Ok(())
                }
            });
            Outcome { delivered: Some(seen), res: Some(res_of(r.map(|_| None))), ..Outcome::default() }
        }
        1 => {
            let mut seen = vec![];
            let r = loop {
                let step = s.try_for_some_item(|q| -> Result<(), Tok> {
                    let i = seen.len() as u32;
                    seen.push(mq_q(&q));
                    if Some(i) == sp.fail_at {
                        Err(Tok(i))
                    } else {
                        Ok(())
                    }
                });
                match step {
                    Ok(true) => continue,
                    Ok(false) => break Ok(None),
                    Err(e) => break Err(e),
                }
            };
            Outcome { delivered: Some(seen), res: Some(res_of(r)), ..Outcome::default() }
        }
        2 => {
            let mut seen = vec![];
            let r = s.for_each_item(|q| seen.push(mq_q(&q)));
            let res = match r {
                Ok(()) => Res::Ok(None),
                Err(e) => Res::Src(describe(&e)),
            };
            Outcome { delivered: Some(seen), res: Some(res), ..Outcome::default() }
        }
        3 => {
            let r: StreamResult<Vec<Spog<ST>>, _, _> = s.collect_quads();
            match r {
                Ok(v) => Outcome { res: Some(Res::Ok(None)), collected: Some(v.iter().map(mq_q).collect()), ..Outcome::default() },
                Err(e) => Outcome { res: Some(res_of::<_, _>(Err(e))), ..Outcome::default() },
            }
        }
        4 => {
            let r: StreamResult<HashSet<Spog<ST>>, _, _> = s.collect_quads();
            match r {
                Ok(v) => Outcome { res: Some(Res::Ok(None)), collected: Some(sorted_set(v.iter().map(mq_q).collect())), ..Outcome::default() },
                Err(e) => Outcome { res: Some(res_of::<_, _>(Err(e))), ..Outcome::default() },
            }
        }
        5 => {
            let r: StreamResult<FastDataset, _, _> = s.collect_quads();
            match r {
                Ok(d) => Outcome { res: Some(Res::Ok(None)), collected: Some(sorted_set(collect_dataset(&d))), ..Outcome::default() },
                Err(e) => Outcome { res: Some(res_of::<_, _>(Err(e))), ..Outcome::default() },
            }
        }
        6 | 7 => {
            let insert = sp.sink == 7;
            match sp.cap {
                3 => tiny_dataset_sink!(3, s, sp, insert),
                5 => tiny_dataset_sink!(5, s, sp, insert),
                _ => tiny_dataset_sink!(8, s, sp, insert),
            }
        }
        8 => {
            let mut d = FastDataset::new();
            for q in &sp.init {
                let ([s, p, o], g) = q.to_spog();
                d.insert(s, p, o, g).expect("FastDataset insert");
            }
            let r = d.remove_all(s);
            let (all, bad) = dataset_views(&d);
            Outcome { res: Some(res_of(r.map(Some))), store: Some(all), store_path: bad, ..Outcome::default() }
        }
        9 | 10 => {
            let mut st = FailStore::new(&sp.init, sp.fail_at);
            let r = if sp.sink == 9 {
                MutableDataset::insert_all(&mut st, s)
            } else {
                MutableDataset::remove_all(&mut st, s)
            };
            Outcome {
                delivered: Some(st.attempts.clone()),
                res: Some(res_of(r.map(Some))),
                store: Some(sorted_set(st.content.clone())),
                ..Outcome::default()
            }
        }
        11 if sp.gad => {
            use sophia_api::graph::Graph;
            let mut v: Vec<[ST; 3]> = sp.init.iter().filter(|q| q.g.is_none()).map(t_of).collect();
            let r = s.add_to_dataset(&mut v.as_dataset_mut());
            Outcome { res: Some(res_of(r.map(Some))), store: Some(v.iter().map(mq_t).collect()), ..Outcome::default() }
        }
        11 => {
            let mut v: Vec<Spog<ST>> = sp.init.iter().map(q_of).collect();
            let r = s.add_to_dataset(&mut v);
            Outcome { res: Some(res_of(r.map(Some))), store: Some(v.iter().map(mq_q).collect()), ..Outcome::default() }
        }
        12 => {
            let mut w = FailWriter { buf: vec![], limit: sp.fail_at.map(|x| x as usize), short: sp.short };
            let r = {
                let mut ser = NqSerializer::new(&mut w);
                ser.serialize_quads(s).map(|_| None)
            };
            Outcome { res: Some(res_of(r)), written: Some(w.buf), ..Outcome::default() }
        }
        _ => {
            let mut w = FailWriter { buf: vec![], limit: sp.fail_at.map(|x| x as usize), short: sp.short };
            let r = {
                let mut ser = TrigSerializer::new(&mut w);
                ser.serialize_quads(s).map(|_| None)
            };
            Outcome { res: Some(res_of(r)), written: Some(w.buf), ..Outcome::default() }
        }
    }
}

// ------------------------------------------------------------------ running one pipeline

struct Plan<'c> {
    kind: usize,
    chain: &'c [u8],
    ii: bool,
    direct: Option<usize>,
    /// the source sequence (as the source will yield it)
    src: Vec<MQ>,
    /// effective source fault
    src_fault: Option<usize>,
    /// parser kinds: 1-based line of the injected syntax error
    fault_line: Option<usize>,
    /// the items in generation order (set-store sources are built from them)
    raw: Vec<MQ>,
}

/// Build the source + chain and run the consumer once. Returns (outcome, pulls).
fn execute(plan: &Plan, sp: &SinkSpec) -> (Outcome, Option<usize>) {
    let pulls = Rc::new(Cell::new(0usize));
    let kind = plan.kind;
    let chain = plan.chain;
    let ii = plan.ii;
    let src = &plan.src;
    let text = if (2..=6).contains(&kind) { text_for(kind, src, plan.src_fault) } else { String::new() };
    let vt: Vec<[ST; 3]> = if kind == 7 { src.iter().map(t_of).collect() } else { vec![] };
    let vq: Vec<Spog<ST>> = if kind == 8 { src.iter().map(q_of).collect() } else { vec![] };
    let fg: FastGraph = if kind == 9 { plan.raw.iter().map(|q| Ok::<_, Infallible>(t_of(q))).collect_triples().expect("FastGraph") } else { FastGraph::new() };
    let fd: FastDataset = if kind == 10 { plan.raw.iter().map(|q| Ok::<_, Infallible>(q_of(q))).collect_quads().expect("FastDataset") } else { FastDataset::new() };
    let mk_it = || FaultyIter { items: src.iter().map(t_of).collect::<Vec<_>>(), pos: 0, fault: plan.src_fault, fired: false, pulls: pulls.clone() };
    let mk_iq = || FaultyIter { items: src.iter().map(q_of).collect::<Vec<_>>(), pos: 0, fault: plan.src_fault, fired: false, pulls: pulls.clone() };

    let out = if let Some(d) = plan.direct {
        // fully static pipelines, no shim (must mirror DIRECT)
        match d {
            0 => consume_t(map_t!(flt_t!(mk_it(), 0), 1), sp),
            1 => consume_q(fm_t!(NTriplesParser {}.parse_str(&text), 0).to_quads(), sp),
            2 => consume_t(flt_t!(NQuadsParser {}.parse_str(&text).to_triples(), 1), sp),
            3 => consume_t(map_t!(vt.triples(), 0).into_iter(), sp),
            4 => consume_t(flt_t!(TurtleParser { base: None }.parse_str(&text), 0), sp),
            5 => consume_t(fm_q!(mk_iq(), 0).to_triples(), sp),
            6 => consume_q(fm_q!(map_q!(flt_q!(TriGParser { base: None }.parse_str(&text), 0), 1), 2), sp),
            7 => consume_q(flt_q!(map_q!(fd.quads(), 0), 1), sp),
            8 => consume_t(mk_it(), sp),
            9 => consume_t(NTriplesParser {}.parse_str(&text), sp),
            10 => consume_q(fm_q!(flt_q!(mk_iq(), 0), 1).into_iter(), sp),
            _ => consume_t(map_t!(map_t!(map_t!(TurtleParser { base: None }.parse_str(&text), 0), 1), 2), sp),
        }
    } else {
        let built = match kind {
            0 => D3::go_t(mk_it(), chain, 0, ii),
            1 => D3::go_q(mk_iq(), chain, 0, ii),
            2 => D3::go_t(NTriplesParser {}.parse_str(&text), chain, 0, ii),
            3 => D3::go_q(NQuadsParser {}.parse_str(&text), chain, 0, ii),
            4 | 5 => D3::go_t(TurtleParser { base: None }.parse_str(&text), chain, 0, ii),
            6 => D3::go_q(TriGParser { base: None }.parse_str(&text), chain, 0, ii),
            7 => D3::go_t(vt.triples(), chain, 0, ii),
            8 => D3::go_q(vq.quads(), chain, 0, ii),
            9 => D3::go_t(fg.triples(), chain, 0, ii),
            _ => D3::go_q(fd.quads(), chain, 0, ii),
        };
        match built {
            Built::T(b) => consume_t(b, sp),
            Built::Q(b) => consume_q(b, sp),
        }
    };
    let p = if kind_counts_pulls(kind) { Some(pulls.get()) } else { None };
    (out, p)
}

// ------------------------------------------------------------------ the check

pub struct C15;

fn show_seq(v: &[MQ]) -> String {
    v.iter().map(MQ::show).collect::<Vec<_>>().join(" | ")
}

/// terms of a quad that occupy a slot of the term index
fn index_terms(q: &MQ) -> Vec<MT> {
    let mut v = vec![q.s.clone(), q.p.clone(), q.o.clone()];
    if let Some(g) = &q.g {
        v.push(g.clone());
    }
    v
}

fn normalise(case: &Case) -> (usize, Vec<u8>, bool, usize, Option<usize>) {
    let kind = case.kind as usize % KINDS.len();
    let chain: Vec<u8> = case.chain.iter().take(3).map(|a| a % 4).collect();
    let ii = case.into_iter && matches!(chain.last(), Some(1) | Some(2));
    let sink = case.sink as usize % SINKS.len();
    let direct = if case.direct {
        DIRECT.iter().position(|(k, c, i)| *k as usize == kind && *c == chain.as_slice() && *i == ii)
    } else {
        None
    };
    (kind, chain, ii, sink, direct)
}

impl Check for C15 {
    type Case = Case;
    const ID: &'static str = "C15";
    const LEVEL: &'static str = "fault_enumeration";
    fn rule() -> String {
        "fixed part: for 6 (thorough: 12) item sequences (one fixed, the others derived from the seed; length 6, thorough 10), the full product source kind (11) x adapter chain (all 85 sequences of length <= 3 over filter/map/filter_map/convert, plus into_iter() of a final map/filter_map: 127) x consumer (14) x fault (none, source fault at every k, sink fault at every k), restricted to applicable combinations, plus 12 statically typed pipelines x consumers x faults; generated part: random item sequences / chains / consumers / faults. Non-trivial = a fault actually fired (source error, sink error or index full) in a pipeline with at least one adapter; distinct by hash of the case.".into()
    }
    fn assumptions() -> Vec<String> {
        vec![
            "between the last adapter and the consumer (and nowhere else) sits a type-erasing Source shim written in the harness; the adapters themselves are the real ones nested directly; 12 pipelines are also run without any shim".into(),
            "source order of FastGraph/FastDataset sources is taken from a separate enumeration of the same store (set stores have no intrinsic order)".into(),
            "a parser source fault is a statement without object on line k+1; the reported error must be a source error mentioning that line".into(),
            "serializers: the bytes accepted by the writer before the failure must be a prefix of the fault-free output; for N-Triples/N-Quads the number of complete lines identifies the failing item".into(),
            "the injected error value is recognised by an identity token reachable through io::Error::get_ref / Error::source".into(),
            "Tiny index capacity M: an insertion fails iff it would bring the number of distinct terms above M".into(),
        ]
    }
    fn cases(tier: Tier) -> u32 {
        tier.pick(500_000, 40_000_000)
    }
    fn strategy(tier: Tier) -> BoxedStrategy<Case> {
        let maxn = tier.pick(8usize, 12usize);
        let item = (0..3u8, 0..2u8, 0..5u8, 0..3u8).prop_map(|(s, p, o, g)| Item { s, p, o, g });
        let fault = prop_oneof![
            1 => Just(Fault::None),
            3 => (0..maxn as u8).prop_map(Fault::Source),
            3 => (0..maxn as u8).prop_map(Fault::Sink),
        ];
        (
            0..KINDS.len() as u8,
            prop::collection::vec(item, 0..=maxn),
            prop::collection::vec(0..4u8, 0..=3),
            any::<bool>(),
            0..SINKS.len() as u8,
            fault,
            0..6u8,
            prop::bool::weighted(0.1),
        )
            .prop_map(|(kind, items, chain, into_iter, sink, fault, aux, direct)| {
                let mut c = Case { kind, items, chain, into_iter, sink, fault, aux, direct };
                if c.direct {
                    // make the static pipelines reachable: pick one of them
                    let (k, ch, ii) = DIRECT[(c.aux as usize + c.sink as usize) % DIRECT.len()];
                    c.kind = k;
                    c.chain = ch.to_vec();
                    c.into_iter = ii;
                }
                c
            })
            .boxed()
    }
    fn fixed_cases(tier: Tier, seed: u64) -> Vec<Case> {
        let n = tier.pick(6usize, 10usize);
        let nseq = tier.pick(6usize, 12usize);
        let mut seqs: Vec<Vec<Item>> = vec![];
        // a fixed sequence with a repeated item, a shared subject run and every object kind
        let fixed = [(0, 0, 0, 0), (0, 1, 2, 1), (1, 0, 3, 0), (0, 0, 0, 0), (2, 1, 4, 2), (2, 0, 1, 1), (1, 1, 2, 0), (0, 1, 1, 2), (2, 0, 0, 0), (1, 0, 4, 1)];
        seqs.push(fixed.iter().take(n).map(|&(s, p, o, g)| Item { s, p, o, g }).collect());
        let mut x = seed.wrapping_mul(0x9E37_79B9_7F4A_7C15) | 1;
        for _ in 1..nseq {
            let mut v = vec![];
            for _ in 0..n {
                x ^= x << 13;
                x ^= x >> 7;
                x ^= x << 17;
                v.push(Item { s: (x % 3) as u8, p: ((x >> 8) % 2) as u8, o: ((x >> 16) % 5) as u8, g: ((x >> 24) % 3) as u8 });
            }
            seqs.push(v);
        }
        // all chains
        let mut chains: Vec<(Vec<u8>, bool)> = vec![(vec![], false)];
        for len in 1..=3usize {
            for code in 0..4usize.pow(len as u32) {
                let ch: Vec<u8> = (0..len).map(|i| ((code / 4usize.pow(i as u32)) % 4) as u8).collect();
                chains.push((ch.clone(), false));
                if matches!(ch.last(), Some(1) | Some(2)) {
                    chains.push((ch, true));
                }
            }
        }
        let mut out = vec![];
        let faults = |kind: usize, sink: usize| -> Vec<(Fault, u8)> {
            let mut f = vec![];
            if sink_fails_by_capacity(sink) {
                for aux in 0..3u8 {
                    f.push((Fault::None, aux));
                }
            } else {
                f.push((Fault::None, 0));
            }
            if kind_can_fail(kind) {
                for k in 0..n as u8 {
                    f.push((Fault::Source(k), 1));
                    if matches!(sink, 8 | 10) {
                        // the other initial contents of the store removed from (see `init`)
                        f.push((Fault::Source(k), 4));
                        f.push((Fault::Source(k), 7));
                    }
                }
            }
            if matches!(sink, 8 | 10) {
                f.push((Fault::None, 3));
                f.push((Fault::None, 6));
            }
            if sink == 11 {
                // target = a graph seen as a dataset (quad pipelines only)
                f.push((Fault::None, 3));
                if kind_can_fail(kind) {
                    for k in 0..n as u8 {
                        f.push((Fault::Source(k), 4));
                    }
                }
            }
            if sink_can_fail(sink) {
                for k in 0..n as u8 {
                    if sink == 12 {
                        // aux % 3: where in the statement the writer fills up; aux / 3: error or short writes
                        for aux in 0..6u8 {
                            f.push((Fault::Sink(k), aux));
                        }
                    } else {
                        f.push((Fault::Sink(k), k % 2));
                    }
                }
            }
            f
        };
        for items in &seqs {
            for kind in 0..KINDS.len() {
                for (chain, ii) in &chains {
                    for sink in 0..SINKS.len() {
                        for (fault, aux) in faults(kind, sink) {
                            out.push(Case { kind: kind as u8, items: items.clone(), chain: chain.clone(), into_iter: *ii, sink: sink as u8, fault, aux, direct: false });
                        }
                    }
                }
            }
            for (kind, chain, ii) in DIRECT {
                for sink in 0..SINKS.len() {
                    for (fault, aux) in faults(*kind as usize, sink) {
                        out.push(Case { kind: *kind, items: items.clone(), chain: chain.to_vec(), into_iter: *ii, sink: sink as u8, fault, aux, direct: true });
                    }
                }
            }
        }
        out
    }
    fn show(case: &Case) -> Value {
        let (kind, chain, ii, sink, direct) = normalise(case);
        json!({
            "source": KINDS[kind],
            "items": case.items.iter().map(|i| item_mq(i, kind_is_quads(kind)).show()).collect::<Vec<_>>(),
            "chain": chain.iter().map(|a| ADAPTERS[*a as usize]).collect::<Vec<_>>(),
            "into_iter": ii,
            "consumer": SINKS[sink],
            "fault": format!("{:?}", case.fault),
            "aux": case.aux,
            "static_pipeline": direct.is_some(),
        })
    }
    fn run(case: &Case, ctx: &mut Ctx) {
        let (kind, chain, ii, sink, direct) = normalise(case);
        let quads0 = kind_is_quads(kind);
        let mut src: Vec<MQ> = case.items.iter().map(|i| item_mq(i, quads0)).collect();
        let raw = src.clone();
        if kind == 9 || kind == 10 {
            // set store: its own enumeration order is the source order
            src = if kind == 9 {
                let g: FastGraph = src.iter().map(|q| Ok::<_, Infallible>(t_of(q))).collect_triples().expect("FastGraph");
                collect_graph(&g)
            } else {
                let d: FastDataset = src.iter().map(|q| Ok::<_, Infallible>(q_of(q))).collect_quads().expect("FastDataset");
                collect_dataset(&d)
            };
        }
        let n = src.len();
        let src_fault = match case.fault {
            Fault::Source(k) if (k as usize) < n && kind_can_fail(kind) => Some(k as usize),
            _ => None,
        };
        ctx.class(format!("source:{}", KINDS[kind]));
        ctx.class(format!("consumer:{}", SINKS[sink]));
        ctx.class(format!("chain-length:{}", chain.len()));
        for a in &chain {
            ctx.class(format!("adapter:{}", ADAPTERS[*a as usize]));
        }
        if ii {
            ctx.class("adapter:into_iter");
        }
        if direct.is_some() {
            ctx.class("pipeline:static(no shim)");
        }
        let cut = src_fault.unwrap_or(n);
        let image = model_image(&src[..cut], &chain);
        let full_image = model_image(&src, &chain);
        let fq = final_is_quads(kind, &chain);
        debug_assert!(fq || image.iter().all(|(_, q)| q.g.is_none()));

        // ---- consumer set-up
        let cap = [3u8, 5, 8][case.aux as usize % 3];
        let mut init: Vec<MQ> = vec![];
        match sink {
            7 => {
                // a prefix of candidates that fits the index
                let mut terms: BTreeSet<MT> = BTreeSet::new();
                for (_, q) in full_image.iter().skip(1).step_by(2) {
                    let mut t2 = terms.clone();
                    t2.extend(index_terms(q));
                    if t2.len() > cap as usize {
                        break;
                    }
                    terms = t2;
                    if !init.contains(q) {
                        init.push(q.clone());
                    }
                }
            }
            8 | 10 => match (case.aux / 3) % 3 {
                // two thirds of the items plus an unrelated statement (the store never runs empty)
                0 => {
                    for (i, (_, q)) in full_image.iter().enumerate() {
                        if i % 3 != 2 && !init.contains(q) {
                            init.push(q.clone());
                        }
                    }
                    init.push(MQ::new(MT::iri("http://x/other"), MT::iri("http://x/p0"), MT::string("unrelated"), None));
                }
                // exactly the first half of the items: the store runs empty in the middle of the stream
                1 => {
                    for (_, q) in full_image.iter().take(full_image.len().div_ceil(2)) {
                        if !init.contains(q) {
                            init.push(q.clone());
                        }
                    }
                }
                // an empty store
                _ => {}
            },
            9 | 11 => {
                for (_, q) in full_image.iter().skip(1).step_by(2) {
                    if !init.contains(q) {
                        init.push(q.clone());
                    }
                }
            }
            _ => {}
        }
        let sink_fault_req: Option<u32> = match case.fault {
            Fault::Sink(k) if sink_can_fail(sink) && src_fault.is_none() => Some(k as u32),
            _ => None,
        };
        let fault_line = if (2..=6).contains(&kind) && src_fault.is_some() {
            let text = text_for(kind, &src, src_fault);
            text.find("<http://x/bad>").map(|off| text[..off].matches('\n').count() + 1)
        } else {
            None
        };
        let plan = Plan { kind, chain: &chain, ii, direct, src: src.clone(), src_fault, fault_line, raw };
        let mut sp = SinkSpec { sink, fail_at: None, cap, init: init.clone(), short: matches!(sink, 12 | 13) && (case.aux / 3) % 2 == 1, gad: sink == 11 && fq && (case.aux / 3) % 2 == 1 };

        // serializers: fault-free output first, then the byte limit inside statement k
        let mut free_output: Option<Vec<u8>> = None;
        if sink == 12 || sink == 13 {
            let (o0, p0) = execute(&plan, &sp);
            let w0 = o0.written.clone().unwrap_or_default();
            if let Some(k) = sink_fault_req {
                let limit = if sink == 12 {
                    // start of line k (+ an offset inside the line)
                    let starts: Vec<usize> = std::iter::once(0).chain(w0.iter().enumerate().filter(|(_, b)| **b == b'\n').map(|(i, _)| i + 1)).collect();
                    // aux: first byte of the statement / inside its subject / on its final " .\n"
                    match (starts.get(k as usize).filter(|s| **s < w0.len()), case.aux % 3) {
                        (Some(s), 0) => Some(*s),
                        (Some(s), 1) => Some(s + 9),
                        (Some(_), _) => starts.get(k as usize + 1).map(|e| e - 1),
                        _ => None,
                    }
                } else {
                    let l = k as usize * 17 + case.aux as usize;
                    if l < w0.len() { Some(l) } else { None }
                };
                sp.fail_at = limit.map(|l| l as u32);
            }
            if sp.fail_at.is_some() {
                free_output = Some(w0);
            } else {
                // judge the fault-free run itself
                judge(ctx, case, &plan, &sp, &image, fq, o0, p0, None);
                return;
            }
        } else {
            sp.fail_at = sink_fault_req;
        }

        let (out, pulls) = execute(&plan, &sp);
        judge(ctx, case, &plan, &sp, &image, fq, out, pulls, free_output);
    }
}

fn sig(what: &str, plan: &Plan, sp: &SinkSpec) -> String {
    // keyed on the trigger: what went wrong, at which stage of which kind of pipeline
    let last = match (plan.chain.last(), plan.ii) {
        (None, _) => "no-adapter".to_string(),
        (Some(a), false) => ADAPTERS[*a as usize].to_string(),
        (Some(a), true) => format!("{}.into_iter", ADAPTERS[*a as usize]),
    };
    format!("stream/{what}/{}/{}/{}", KINDS[plan.kind], last, SINKS[sp.sink])
}

#[allow(clippy::too_many_arguments)]
fn judge(ctx: &mut Ctx, case: &Case, plan: &Plan, sp: &SinkSpec, image: &[(usize, MQ)], fq: bool, out: Outcome, pulls: Option<usize>, free_output: Option<Vec<u8>>) {
    let n = plan.src.len();
    let img: Vec<MQ> = image.iter().map(|(_, q)| q.clone()).collect();
    let res = out.res.clone().expect("every consumer reports a result");
    let ctxt = |extra: String| -> String {
        format!(
            "{extra}\n source {} yields: {}\n source fault: {:?}; chain: {:?}{}; consumer: {} (fail_at {:?}, cap {}); expected image: {}\n result: {:?}; delivered: {}; pulls: {:?}",
            KINDS[plan.kind],
            show_seq(&plan.src),
            plan.src_fault,
            plan.chain.iter().map(|a| ADAPTERS[*a as usize]).collect::<Vec<_>>(),
            if plan.ii { " + into_iter" } else { "" },
            SINKS[sp.sink],
            sp.fail_at,
            sp.cap,
            show_seq(&img),
            res,
            out.delivered.as_ref().map(|d| show_seq(d)).unwrap_or_else(|| "-".into()),
            pulls
        )
    };
    let mut fired = false;

    // ---- which fault is expected to fire, and where
    // index of the delivered item on which the sink fails (None: the sink does not fail)
    let sink_fail_idx: Option<usize> = match sp.sink {
        0 | 1 | 9 | 10 => sp.fail_at.map(|k| k as usize).filter(|k| *k < img.len()),
        // a graph seen as a dataset refuses the first quad of a named graph
        11 if sp.gad => img.iter().position(|q| q.g.is_some()),
        6 | 7 => {
            let mut terms: BTreeSet<MT> = BTreeSet::new();
            for q in &sp.init {
                terms.extend(index_terms(q));
            }
            let mut hit = None;
            for (i, q) in img.iter().enumerate() {
                let mut t2 = terms.clone();
                t2.extend(index_terms(q));
                if t2.len() > sp.cap as usize {
                    hit = Some(i);
                    break;
                }
                terms = t2;
            }
            hit
        }
        _ => None,
    };

    match sp.sink {
        // ------------------------------------------------ closures and the failing store
        0 | 1 | 2 | 9 | 10 => {
            let delivered = out.delivered.clone().unwrap_or_default();
            let expected: Vec<MQ> = match sink_fail_idx {
                Some(j) => img[..=j].to_vec(),
                None => img.clone(),
            };
            if delivered != expected {
                // keyed on the kind of deviation
                let what = if delivered.len() > expected.len() && delivered[..expected.len()] == expected[..] {
                    "delivered-after-stop"
                } else if delivered.len() < expected.len() && expected[..delivered.len()] == delivered[..] {
                    "prefix-too-short"
                } else {
                    "wrong-items-or-order"
                };
                ctx.fail(sig(what, plan, sp), ctxt(format!("the consumer saw a different sequence than the filter/map image of the source prefix; expected: {}", show_seq(&expected))));
            }
            match sink_fail_idx {
                Some(j) => {
                    fired = true;
                    match &res {
                        Res::Sink(e) if e.tok == Some(j as u32) => {}
                        _ => ctx.fail(sig("sink-error-not-reported", plan, sp), ctxt(format!("the consumer failed on delivery #{j} with Tok({j}); expected SinkError carrying it"))),
                    }
                    if let Some(p) = pulls {
                        let want = image[j].0 + 1;
                        if p != want {
                            ctx.fail(sig("pull-after-stop", plan, sp), ctxt(format!("after the sink failure on source item #{} the source had been pulled {p} times, expected {want}", image[j].0)));
                        }
                    }
                }
                None => check_no_sink_fault(ctx, plan, sp, &res, pulls, n, &mut fired, &ctxt),
            }
            if sp.sink == 9 || sp.sink == 10 {
                let applied: &[MQ] = match sink_fail_idx {
                    Some(j) => &img[..j],
                    None => &img[..],
                };
                let (exp_store, changes) = apply_set(&sp.init, applied, sp.sink == 9);
                if out.store.as_ref() != Some(&exp_store) {
                    ctx.fail(sig("store-content", plan, sp), ctxt(format!("store content after the call differs from the prefix applied; expected: {}; got: {}", show_seq(&exp_store), show_seq(out.store.as_deref().unwrap_or(&[])))));
                }
                if let Res::Ok(c) = &res {
                    if *c != Some(changes) {
                        ctx.fail(sig("count", plan, sp), ctxt(format!("returned count {c:?}, effective changes {changes}")));
                    }
                }
            }
        }
        // ------------------------------------------------ collectors
        3 | 4 | 5 | 6 => {
            match sink_fail_idx {
                Some(j) => {
                    fired = true;
                    match &res {
                        Res::Sink(e) if e.text.contains("TermIndex") => {}
                        _ => ctx.fail(sig("sink-error-not-reported", plan, sp), ctxt(format!("the term index (capacity {}) is full at delivered item #{j}; expected SinkError(TermIndexFullError)", sp.cap))),
                    }
                    if let Some(p) = pulls {
                        let want = image[j].0 + 1;
                        if p != want {
                            ctx.fail(sig("pull-after-stop", plan, sp), ctxt(format!("after the sink failure the source had been pulled {p} times, expected {want}")));
                        }
                    }
                }
                None => {
                    check_no_sink_fault(ctx, plan, sp, &res, pulls, n, &mut fired, &ctxt);
                    if plan.src_fault.is_none() {
                        let exp = if sp.sink == 3 { img.clone() } else { sorted_set(img.clone()) };
                        if out.collected.as_ref() != Some(&exp) {
                            ctx.fail(sig("collected-content", plan, sp), ctxt(format!("collected container differs; expected: {}; got: {}", show_seq(&exp), show_seq(out.collected.as_deref().unwrap_or(&[])))));
                        }
                    }
                }
            }
        }
        // ------------------------------------------------ real stores
        7 | 8 | 11 => {
            let applied: &[MQ] = match sink_fail_idx {
                Some(j) => &img[..j],
                None => &img[..],
            };
            match sink_fail_idx {
                Some(j) => {
                    fired = true;
                    match &res {
                        Res::Sink(_) if sp.gad => {}
                        Res::Sink(e) if e.text.contains("TermIndex") => {}
                        _ if sp.gad => ctx.fail(sig("sink-error-not-reported", plan, sp), ctxt(format!("delivered item #{j} belongs to a named graph, which a graph seen as a dataset refuses; expected SinkError(OnlyDefaultGraph)"))),
                        _ => ctx.fail(sig("sink-error-not-reported", plan, sp), ctxt(format!("the term index (capacity {}) is full at delivered item #{j}; expected SinkError(TermIndexFullError)", sp.cap))),
                    }
                    if let Some(p) = pulls {
                        let want = image[j].0 + 1;
                        if p != want {
                            ctx.fail(sig("pull-after-stop", plan, sp), ctxt(format!("after the sink failure the source had been pulled {p} times, expected {want}")));
                        }
                    }
                }
                None => check_no_sink_fault(ctx, plan, sp, &res, pulls, n, &mut fired, &ctxt),
            }
            let (exp_store, changes) = if sp.sink == 11 {
                // Vec: a list, every insertion is "effective"
                let mut v: Vec<MQ> = if sp.gad { sp.init.iter().filter(|q| q.g.is_none()).cloned().collect() } else { sp.init.clone() };
                v.extend(applied.iter().cloned());
                (v, applied.len())
            } else {
                apply_set(&sp.init, applied, sp.sink == 7)
            };
            if out.store.as_ref() != Some(&exp_store) {
                ctx.fail(sig("store-content", plan, sp), ctxt(format!("store content after the call differs from the prefix applied; expected: {}; got: {}", show_seq(&exp_store), show_seq(out.store.as_deref().unwrap_or(&[])))));
            }
            if let Some(path) = &out.store_path {
                ctx.fail(sig("store-access-path", plan, sp), ctxt(format!("after the call, the store's {path} does not show the same content as its enumeration ({})", show_seq(out.store.as_deref().unwrap_or(&[])))));
            }
            if let Res::Ok(c) = &res {
                if *c != Some(changes) {
                    ctx.fail(sig("count", plan, sp), ctxt(format!("returned count {c:?}, effective changes {changes}")));
                }
            }
        }
        // ------------------------------------------------ serializers
        _ => {
            let written = out.written.clone().unwrap_or_default();
            match (&free_output, sp.fail_at) {
                (Some(w0), Some(limit)) => {
                    fired = true;
                    let limit = limit as usize;
                    match &res {
                        Res::Sink(e) if !sp.short && e.tok == Some(limit as u32) => {}
                        // a writer that fills up through short writes: std's write_all reports WriteZero
                        Res::Sink(e) if sp.short && e.tok.is_none() => {}
                        _ if sp.short => ctx.fail(sig("sink-error-not-reported", plan, sp), ctxt(format!("the writer accepted {limit} bytes and then reported 'full' through short writes (Ok(n < len), then Ok(0)); expected SinkError (WriteZero)"))),
                        _ => ctx.fail(sig("sink-error-not-reported", plan, sp), ctxt(format!("the writer failed with Tok({limit}) once more than {limit} bytes were offered; expected SinkError carrying that io::Error"))),
                    }
                    if sp.short && written.len() != limit.min(w0.len()) {
                        ctx.fail(sig("output-not-a-prefix", plan, sp), ctxt(format!("a writer with room for {limit} bytes holds {} bytes after the failure", written.len())));
                    }
                    if written.len() > limit || !w0.starts_with(&written) {
                        ctx.fail(sig("output-not-a-prefix", plan, sp), ctxt(format!("bytes accepted before the failure are not a prefix of the fault-free output\n fault-free: {:?}\n got: {:?}", String::from_utf8_lossy(w0), String::from_utf8_lossy(&written))));
                    }
                    if sp.sink == 12 {
                        let lines = written.iter().filter(|b| **b == b'\n').count();
                        if let (Some(p), true) = (pulls, lines < image.len()) {
                            let want = image[lines].0 + 1;
                            if p != want {
                                ctx.fail(sig("pull-after-stop", plan, sp), ctxt(format!("the writer failed inside statement #{lines}; the source had been pulled {p} times, expected {want}")));
                            }
                        }
                    }
                }
                _ => {
                    check_no_sink_fault(ctx, plan, sp, &res, pulls, n, &mut fired, &ctxt);
                    let text = String::from_utf8_lossy(&written).to_string();
                    if sp.sink == 12 {
                        match nqread::parse_nquads(&text) {
                            Ok(got) => {
                                if got != img {
                                    ctx.fail(sig("serialized-content", plan, sp), ctxt(format!("the N-Triples/N-Quads output does not list the image in order:\n{text}")));
                                }
                            }
                            Err(e) => ctx.fail(sig("serialized-content", plan, sp), ctxt(format!("output is not valid N-Quads ({e}):\n{text}"))),
                        }
                    } else if plan.src_fault.is_none() {
                        // Turtle / TriG: re-read with the matching parser, compare as sequences
                        let got: Result<Vec<MQ>, String> = if fq {
                            TriGParser { base: None }
                                .parse_str(&text)
                                .collect_quads::<Vec<Spog<ST>>>()
                                .map(|v| v.iter().map(mq_q).collect())
                                .map_err(|e| e.to_string())
                        } else {
                            TurtleParser { base: None }
                                .parse_str(&text)
                                .collect_triples::<Vec<[ST; 3]>>()
                                .map(|v| v.iter().map(mq_t).collect())
                                .map_err(|e| e.to_string())
                        };
                        match got {
                            Ok(g) if g == img => {}
                            other => ctx.fail(sig("serialized-content", plan, sp), ctxt(format!("the Turtle/TriG output does not read back as the image in order ({other:?}):\n{text}"))),
                        }
                    }
                }
            }
        }
    }
    if fired {
        ctx.class("fault-fired");
        ctx.class(match &res {
            Res::Src(_) => "result:source-error",
            Res::Sink(_) => "result:sink-error",
            Res::Ok(_) => "result:ok(!)",
        });
        if !plan.chain.is_empty() {
            ctx.nontrivial();
        }
    } else {
        ctx.class("no-fault-fired");
    }
    let _ = case;
}

/// No sink fault is expected: either the source fault fires (source error with the right
/// identity, everything before it consumed) or the stream completes.
#[allow(clippy::too_many_arguments)]
fn check_no_sink_fault(ctx: &mut Ctx, plan: &Plan, sp: &SinkSpec, res: &Res, pulls: Option<usize>, n: usize, fired: &mut bool, ctxt: &dyn Fn(String) -> String) {
    match plan.src_fault {
        Some(k) => {
            *fired = true;
            match res {
                Res::Src(e) => {
                    if kind_counts_pulls(plan.kind) {
                        if e.tok != Some(k as u32) {
                            ctx.fail(sig("source-error-identity", plan, sp), ctxt(format!("the source failed with Tok({k}); the reported source error does not carry it")));
                        }
                    } else if !e.text.contains(&format!("on line {} ", plan.fault_line.unwrap_or(0))) {
                        ctx.fail(sig("source-error-identity", plan, sp), ctxt(format!("the syntax error is on line {:?}; reported: {}", plan.fault_line, e.text)));
                    }
                }
                _ => ctx.fail(sig("source-error-not-reported", plan, sp), ctxt(format!("the source failed at item #{k}; expected SourceError"))),
            }
            if let Some(p) = pulls {
                if p != k + 1 {
                    ctx.fail(sig("pull-after-stop", plan, sp), ctxt(format!("after the source failure at #{k} the source had been pulled {p} times, expected {}", k + 1)));
                }
            }
        }
        None => {
            if !matches!(res, Res::Ok(_)) {
                ctx.fail(sig("spurious-error", plan, sp), ctxt("no fault was injected but an error was reported".into()));
            }
            if let Some(p) = pulls {
                if p != n + 1 {
                    ctx.fail(sig("pull-count", plan, sp), ctxt(format!("a complete run must pull the {n} items and the end marker exactly once ({} pulls), got {p}", n + 1)));
                }
            }
        }
    }
}

/// set-store model: apply insertions / removals, return (sorted content, effective changes)
fn apply_set(init: &[MQ], items: &[MQ], insert: bool) -> (Vec<MQ>, usize) {
    let mut s: BTreeSet<MQ> = init.iter().cloned().collect();
    let mut c = 0;
    for q in items {
        let ch = if insert { s.insert(q.clone()) } else { s.remove(q) };
        if ch {
            c += 1;
        }
    }
    (s.into_iter().collect(), c)
}

pub fn main(opts: &Opts) -> i32 {
    drive::<C15>(opts)
}
pub fn worker(_args: &[String]) -> i32 {
    2
}
