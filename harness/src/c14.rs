//! C14 — ORDER BY sorts by a consistent order that respects SPARQL's `<`.
//!
//! Generated: multisets of solution rows (1-3 key columns) mixing every term kind and value class,
//! loaded into `Vec`-backed datasets in several input permutations, queried through `SparqlWrapper`
//! with 1-3 ASC/DESC keys.  Oracle: exact-arithmetic reference relation per key (see `key_rel`).
use crate::engine::*;
use crate::model::*;
use crate::stores::*;
use proptest::prelude::*;
use serde::{Deserialize, Serialize};
use serde_json::{json, Value};
use sophia_api::dataset::Dataset;
use sophia_api::sparql::{SparqlDataset, SparqlResult};
use sophia_sparql::{SparqlWrapper, SparqlWrapperError};
use std::cmp::Ordering;
use std::collections::{BTreeMap, BTreeSet};

// ====================================================================== running a query

#[derive(Clone, Debug)]
pub enum Outcome {
    Rows { vars: Vec<String>, rows: Vec<Vec<Option<MT>>> },
    Bool(bool),
    NotImpl(String),
    OtherErr(String),
    Panic(String),
}

/// Run a query (text) through `SparqlWrapper(&dataset)`, observing panics.
pub fn run_query<D: Dataset>(d: &D, text: &str) -> Outcome {
    let r = catch(|| {
        let w = SparqlWrapper(d);
        match w.query(text) {
            Err(SparqlWrapperError::NotImplemented(s)) => Outcome::NotImpl(s.to_string()),
            Err(e) => Outcome::OtherErr(format!("{e}")),
            Ok(SparqlResult::Boolean(b)) => Outcome::Bool(b),
            Ok(SparqlResult::Triples(_)) => Outcome::OtherErr("triples result".into()),
            Ok(SparqlResult::Bindings(b)) => {
                let vars: Vec<String> = b.variables().iter().map(|s| s.to_string()).collect();
                let mut rows = vec![];
                for row in b {
                    match row {
                        Ok(r) => rows.push(r.into_iter().map(|o| o.map(|t| MT::from_term(sophia_api::term::Term::borrow_term(&t)))).collect()),
                        Err(SparqlWrapperError::NotImplemented(s)) => return Outcome::NotImpl(s.to_string()),
                        Err(e) => return Outcome::OtherErr(format!("row error: {e}")),
                    }
                }
                Outcome::Rows { vars, rows }
            }
        }
    });
    match r {
        Ok(o) => o,
        Err(p) => Outcome::Panic(p),
    }
}

// ====================================================================== exact numbers

/// Exact finite decimal: sign + integer digits (no leading zeros) + fraction digits (no trailing zeros).
#[derive(Clone, Debug, PartialEq, Eq)]
pub struct Dec {
    pub neg: bool,
    pub int: Vec<u8>,
    pub frac: Vec<u8>,
}
impl Dec {
    pub fn parse(s: &str) -> Option<Dec> {
        // [+-]? digits [. digits]   (at least one digit overall)
        let (neg, rest) = match s.as_bytes().first()? {
            b'+' => (false, &s[1..]),
            b'-' => (true, &s[1..]),
            _ => (false, s),
        };
        let (i, f) = match rest.split_once('.') {
            Some((i, f)) => (i, f),
            None => (rest, ""),
        };
        if i.is_empty() && f.is_empty() {
            return None;
        }
        if !i.bytes().all(|b| b.is_ascii_digit()) || !f.bytes().all(|b| b.is_ascii_digit()) {
            return None;
        }
        let int: Vec<u8> = i.bytes().skip_while(|b| *b == b'0').collect();
        let mut frac: Vec<u8> = f.bytes().collect();
        while frac.last() == Some(&b'0') {
            frac.pop();
        }
        let zero = int.is_empty() && frac.is_empty();
        Some(Dec { neg: neg && !zero, int, frac })
    }
    pub fn from_f64(v: f64) -> Option<Dec> {
        if !v.is_finite() {
            return None;
        }
        // Rust prints the exact decimal expansion when asked for enough digits
        Dec::parse(&format!("{:.1100}", v))
    }
    pub fn is_zero(&self) -> bool {
        self.int.is_empty() && self.frac.is_empty()
    }
    fn cmp_mag(&self, o: &Dec) -> Ordering {
        self.int
            .len()
            .cmp(&o.int.len())
            .then_with(|| self.int.cmp(&o.int))
            .then_with(|| self.frac.cmp(&o.frac)) // lexicographic on digits = numeric on fractions (no trailing zeros)
    }
    pub fn cmp(&self, o: &Dec) -> Ordering {
        match (self.neg, o.neg) {
            (false, true) => Ordering::Greater,
            (true, false) => Ordering::Less,
            (false, false) => self.cmp_mag(o),
            (true, true) => o.cmp_mag(self),
        }
    }
    pub fn to_plain(&self) -> String {
        let mut s = String::new();
        if self.neg {
            s.push('-');
        }
        if self.int.is_empty() {
            s.push('0');
        } else {
            s.push_str(std::str::from_utf8(&self.int).unwrap());
        }
        if !self.frac.is_empty() {
            s.push('.');
            s.push_str(std::str::from_utf8(&self.frac).unwrap());
        }
        s
    }
    pub fn is_integer(&self) -> bool {
        self.frac.is_empty()
    }
}

#[derive(Clone, Copy, Debug, PartialEq, Eq, PartialOrd, Ord)]
pub enum NumTy {
    Exact, // integer family and decimal
    Float,
    Double,
}
#[derive(Clone, Debug, PartialEq)]
pub enum NumVal {
    Fin(Dec),
    PosInf,
    NegInf,
    NaN,
}
#[derive(Clone, Debug)]
pub struct Num {
    pub ty: NumTy,
    pub val: NumVal,
    /// value as f64 for float/double types (exact), None for exact types
    pub f: Option<f64>,
}

/// How the harness judges a lexical form for a datatype.
#[derive(Clone, Debug)]
pub enum Parsed<T> {
    Valid(T),
    /// certainly not in the lexical space
    Invalid,
    /// corner of the lexical space the harness does not want to judge
    Uncertain,
}

fn int_lexical(lex: &str) -> bool {
    let b = lex.strip_prefix(['+', '-']).unwrap_or(lex);
    !b.is_empty() && b.bytes().all(|c| c.is_ascii_digit())
}
fn dec_lexical(lex: &str) -> bool {
    let b = lex.strip_prefix(['+', '-']).unwrap_or(lex);
    let (i, f) = match b.split_once('.') {
        Some((i, f)) => (i, Some(f)),
        None => (b, None),
    };
    let d = |s: &str| s.bytes().all(|c| c.is_ascii_digit());
    match f {
        None => !i.is_empty() && d(i),
        Some(f) => d(i) && d(f) && !(i.is_empty() && f.is_empty()),
    }
}
fn in_range(v: &Dec, lo: Option<&str>, hi: Option<&str>) -> bool {
    lo.map(|l| v.cmp(&Dec::parse(l).unwrap()) != Ordering::Less).unwrap_or(true)
        && hi.map(|h| v.cmp(&Dec::parse(h).unwrap()) != Ordering::Greater).unwrap_or(true)
}

/// Lexical-to-value mapping for the numeric XSD datatypes (local name), from XSD 1.1 part 2.
pub fn parse_numeric(dt_local: &str, lex: &str) -> Option<Parsed<Num>> {
    let exact = |v: Dec| Parsed::Valid(Num { ty: NumTy::Exact, val: NumVal::Fin(v), f: None });
    let ranged = |lo: Option<&str>, hi: Option<&str>, unsigned: bool| -> Parsed<Num> {
        if !int_lexical(lex) {
            return Parsed::Invalid;
        }
        if unsigned && (lex.starts_with('+') || lex.starts_with('-')) {
            return Parsed::Uncertain; // XSD 1.0 vs 1.1 differ on a sign for unsigned types
        }
        let v = Dec::parse(lex).unwrap();
        if in_range(&v, lo, hi) {
            exact(v)
        } else {
            Parsed::Invalid
        }
    };
    Some(match dt_local {
        "integer" => ranged(None, None, false),
        "long" => ranged(Some("-9223372036854775808"), Some("9223372036854775807"), false),
        "int" => ranged(Some("-2147483648"), Some("2147483647"), false),
        "short" => ranged(Some("-32768"), Some("32767"), false),
        "byte" => ranged(Some("-128"), Some("127"), false),
        "nonNegativeInteger" => ranged(Some("0"), None, false),
        "positiveInteger" => ranged(Some("1"), None, false),
        "nonPositiveInteger" => ranged(None, Some("0"), false),
        "negativeInteger" => ranged(None, Some("-1"), false),
        "unsignedLong" => ranged(Some("0"), Some("18446744073709551615"), true),
        "unsignedInt" => ranged(Some("0"), Some("4294967295"), true),
        "unsignedShort" => ranged(Some("0"), Some("65535"), true),
        "unsignedByte" => ranged(Some("0"), Some("255"), true),
        "decimal" => {
            if dec_lexical(lex) {
                exact(Dec::parse(lex).unwrap())
            } else {
                Parsed::Invalid
            }
        }
        "double" | "float" => {
            let ty = if dt_local == "double" { NumTy::Double } else { NumTy::Float };
            let mk = |val: NumVal, f: f64| Parsed::Valid(Num { ty, val, f: Some(f) });
            match lex {
                "INF" => mk(NumVal::PosInf, f64::INFINITY),
                "-INF" => mk(NumVal::NegInf, f64::NEG_INFINITY),
                "NaN" => mk(NumVal::NaN, f64::NAN),
                "+INF" => Parsed::Uncertain,
                _ => {
                    // mantissa [eE] exponent
                    let (m, e) = match lex.split_once(['e', 'E']) {
                        Some((m, e)) => (m, Some(e)),
                        None => (lex, None),
                    };
                    let ok = dec_lexical(m) && e.map(int_lexical).unwrap_or(true);
                    if !ok {
                        Parsed::Invalid
                    } else {
                        let f: f64 = if ty == NumTy::Double {
                            lex.parse::<f64>().unwrap()
                        } else {
                            lex.parse::<f32>().unwrap() as f64
                        };
                        if f == f64::INFINITY {
                            mk(NumVal::PosInf, f)
                        } else if f == f64::NEG_INFINITY {
                            mk(NumVal::NegInf, f)
                        } else {
                            mk(NumVal::Fin(Dec::from_f64(f).unwrap()), f)
                        }
                    }
                }
            }
        }
        _ => return None,
    })
}

#[derive(Clone, Copy, Debug, PartialEq, Eq)]
pub enum Rel {
    Less,
    Greater,
    Tie,
    /// the reference does not constrain this pair
    Unknown,
}
impl Rel {
    pub fn from_ord(o: Ordering) -> Rel {
        match o {
            Ordering::Less => Rel::Less,
            Ordering::Greater => Rel::Greater,
            Ordering::Equal => Rel::Tie,
        }
    }
    pub fn rev(self) -> Rel {
        match self {
            Rel::Less => Rel::Greater,
            Rel::Greater => Rel::Less,
            x => x,
        }
    }
}

/// Round an exact value to the float type `ty` (as the XPath numeric promotion does).
fn promote(d: &Dec, ty: NumTy) -> f64 {
    let s = d.to_plain();
    match ty {
        NumTy::Float => s.parse::<f32>().unwrap() as f64,
        _ => s.parse::<f64>().unwrap(),
    }
}

/// Reference relation between two *valid* numeric values: strict only when exact arithmetic and
/// the XPath promoted comparison agree, Tie only when exactly equal, Unknown for NaN and for the
/// pairs that exact arithmetic separates but promotion to float/double does not.
pub fn num_rel(a: &Num, b: &Num) -> Rel {
    use NumVal::*;
    let exact = match (&a.val, &b.val) {
        (NaN, _) | (_, NaN) => return Rel::Unknown,
        (PosInf, PosInf) | (NegInf, NegInf) => Ordering::Equal,
        (NegInf, _) | (_, PosInf) => Ordering::Less,
        (_, NegInf) | (PosInf, _) => Ordering::Greater,
        (Fin(x), Fin(y)) => x.cmp(y),
    };
    if exact == Ordering::Equal {
        return Rel::Tie;
    }
    // promoted comparison
    let ty = a.ty.max(b.ty);
    if ty == NumTy::Exact {
        return Rel::from_ord(exact);
    }
    let pf = |n: &Num| -> f64 {
        match (&n.val, n.f) {
            (_, Some(f)) => f, // float -> double widening is exact
            (Fin(d), None) => promote(d, ty),
            _ => unreachable!(),
        }
    };
    // a double compared with a float: the float is widened (exact); a float is never narrowed
    let (fa, fb) = (pf(a), pf(b));
    match fa.partial_cmp(&fb) {
        Some(o) if o == exact => Rel::from_ord(exact),
        _ => Rel::Unknown,
    }
}

// ====================================================================== dateTime

/// (nanoseconds since 0001-01-01T00:00:00 read as UTC, has timezone)
pub fn parse_datetime(lex: &str) -> Parsed<(i128, bool)> {
    let b = lex.as_bytes();
    let dig = |r: std::ops::Range<usize>| -> Option<i128> {
        let s = lex.get(r)?;
        if !s.is_empty() && s.bytes().all(|c| c.is_ascii_digit()) {
            s.parse().ok()
        } else {
            None
        }
    };
    // YYYY-MM-DDThh:mm:ss
    if b.len() < 19 {
        return Parsed::Invalid;
    }
    if b[0] == b'-' || b[0] == b'+' {
        return if b[0] == b'-' { Parsed::Uncertain } else { Parsed::Invalid };
    }
    let shape = b[4] == b'-' && b[7] == b'-' && b[10] == b'T' && b[13] == b':' && b[16] == b':';
    if !shape {
        // could be a year with more than 4 digits
        return if b.iter().take_while(|c| c.is_ascii_digit()).count() > 4 { Parsed::Uncertain } else { Parsed::Invalid };
    }
    let (Some(y), Some(mo), Some(d), Some(h), Some(mi), Some(s)) =
        (dig(0..4), dig(5..7), dig(8..10), dig(11..13), dig(14..16), dig(17..19))
    else {
        return Parsed::Invalid;
    };
    let mut pos = 19;
    let mut nanos: i128 = 0;
    if b.get(pos) == Some(&b'.') {
        let start = pos + 1;
        let mut end = start;
        while end < b.len() && b[end].is_ascii_digit() {
            end += 1;
        }
        if end == start {
            return Parsed::Invalid;
        }
        if end - start > 9 {
            return Parsed::Uncertain; // sub-nanosecond precision
        }
        let frac = &lex[start..end];
        nanos = frac.parse::<i128>().unwrap() * 10i128.pow(9 - frac.len() as u32);
        pos = end;
    }
    let tz = &lex[pos..];
    let off_min: Option<i128> = if tz.is_empty() {
        None
    } else if tz == "Z" {
        Some(0)
    } else {
        let tb = tz.as_bytes();
        if tb.len() != 6 || (tb[0] != b'+' && tb[0] != b'-') || tb[3] != b':' {
            return Parsed::Invalid;
        }
        let (Some(hh), Some(mm)) = (dig(pos + 1..pos + 3), dig(pos + 4..pos + 6)) else {
            return Parsed::Invalid;
        };
        if mm > 59 || hh > 14 || (hh == 14 && mm != 0) {
            return Parsed::Invalid;
        }
        Some(if tb[0] == b'-' { -(hh * 60 + mm) } else { hh * 60 + mm })
    };
    if y == 0 {
        return Parsed::Uncertain;
    }
    if !(1..=12).contains(&mo) || d < 1 || mi > 59 {
        return Parsed::Invalid;
    }
    let leap = (y % 4 == 0 && y % 100 != 0) || y % 400 == 0;
    let dim = [31, if leap { 29 } else { 28 }, 31, 30, 31, 30, 31, 31, 30, 31, 30, 31][(mo - 1) as usize];
    if d > dim {
        return Parsed::Invalid;
    }
    if h == 24 {
        return if mi == 0 && s == 0 && nanos == 0 { Parsed::Uncertain } else { Parsed::Invalid };
    }
    if h > 23 {
        return Parsed::Invalid;
    }
    if s > 59 {
        return if s == 60 { Parsed::Uncertain } else { Parsed::Invalid };
    }
    // days from civil (Howard Hinnant)
    let yy = if mo <= 2 { y - 1 } else { y };
    let era = yy.div_euclid(400);
    let yoe = yy - era * 400;
    let mp = (mo + 9) % 12;
    let doy = (153 * mp + 2) / 5 + d - 1;
    let doe = yoe * 365 + yoe / 4 - yoe / 100 + doy;
    let days = era * 146097 + doe;
    let secs = days * 86400 + h * 3600 + mi * 60 + s - off_min.unwrap_or(0) * 60;
    Parsed::Valid((secs * 1_000_000_000 + nanos, off_min.is_some()))
}

// ====================================================================== value classes

#[derive(Clone, Debug)]
pub enum VClass {
    Unbound,
    Bnode,
    Iri,
    Triple,
    Num(Num),
    Str(String),
    Bool(bool),
    DateTime(i128, bool),
    /// literal that the reference `<` does not order against anything
    /// (ill-typed, language-tagged, unknown datatype, uncertain lexical corner)
    OtherLit(&'static str),
}

pub fn classify(v: &Option<MT>) -> VClass {
    match v {
        None => VClass::Unbound,
        Some(MT::Bnode(_)) => VClass::Bnode,
        Some(MT::Iri(_)) => VClass::Iri,
        Some(MT::Triple(_)) | Some(MT::Var(_)) => VClass::Triple,
        Some(MT::Lang(..)) => VClass::OtherLit("lang"),
        Some(MT::Lit(lex, dt)) => {
            let Some(local) = dt.strip_prefix(XSD) else {
                return VClass::OtherLit("unknown-dt");
            };
            match local {
                "string" => VClass::Str(lex.clone()),
                "boolean" => match lex.as_str() {
                    "true" | "1" => VClass::Bool(true),
                    "false" | "0" => VClass::Bool(false),
                    _ => VClass::OtherLit("ill-typed-boolean"),
                },
                "dateTime" => match parse_datetime(lex) {
                    Parsed::Valid((n, tz)) => VClass::DateTime(n, tz),
                    Parsed::Invalid => VClass::OtherLit("ill-typed-dateTime"),
                    Parsed::Uncertain => VClass::OtherLit("uncertain-dateTime"),
                },
                _ => match parse_numeric(local, lex) {
                    Some(Parsed::Valid(n)) => VClass::Num(n),
                    Some(Parsed::Invalid) => VClass::OtherLit("ill-typed-numeric"),
                    Some(Parsed::Uncertain) => VClass::OtherLit("uncertain-numeric"),
                    None => VClass::OtherLit("unknown-dt"),
                },
            }
        }
    }
}

fn rank(c: &VClass) -> u8 {
    match c {
        VClass::Unbound => 0,
        VClass::Bnode => 1,
        VClass::Iri => 2,
        VClass::Triple => 9,
        _ => 3,
    }
}

pub fn class_label(c: &VClass) -> String {
    match c {
        VClass::Unbound => "unbound".into(),
        VClass::Bnode => "bnode".into(),
        VClass::Iri => "iri".into(),
        VClass::Triple => "triple".into(),
        VClass::Num(n) => match (&n.val, n.ty) {
            (NumVal::NaN, _) => "num-NaN".into(),
            (NumVal::PosInf | NumVal::NegInf, _) => "num-INF".into(),
            (_, NumTy::Exact) => "num-exact".into(),
            (_, NumTy::Float) => "num-float".into(),
            (_, NumTy::Double) => "num-double".into(),
        },
        VClass::Str(_) => "string".into(),
        VClass::Bool(_) => "boolean".into(),
        VClass::DateTime(_, true) => "dateTime-tz".into(),
        VClass::DateTime(_, false) => "dateTime-naive".into(),
        VClass::OtherLit(k) => format!("lit-{k}"),
    }
}

const H14: i128 = 14 * 3600 * 1_000_000_000;

/// Reference relation on one ascending key. Grounded in the property statement:
/// unbound < blank < IRI < literal; values that `<` can compare in `<` order; Tie when the two
/// values are the same term or compare equal; anything else unconstrained.
pub fn key_rel(a: &Option<MT>, b: &Option<MT>) -> Rel {
    let (ca, cb) = (classify(a), classify(b));
    let (ra, rb) = (rank(&ca), rank(&cb));
    if ra == 9 || rb == 9 {
        return if same_term(a, b) { Rel::Tie } else { Rel::Unknown };
    }
    if ra != rb {
        return Rel::from_ord(ra.cmp(&rb));
    }
    if same_term(a, b) {
        return Rel::Tie;
    }
    match (&ca, &cb) {
        (VClass::Num(x), VClass::Num(y)) => num_rel(x, y),
        (VClass::Str(x), VClass::Str(y)) => Rel::from_ord(x.as_str().cmp(y.as_str())),
        (VClass::Bool(x), VClass::Bool(y)) => Rel::from_ord(x.cmp(y)),
        (VClass::DateTime(x, tx), VClass::DateTime(y, ty)) => {
            if tx == ty {
                Rel::from_ord(x.cmp(y))
            } else if (x - y).abs() > H14 {
                // determinate whatever the (implicit) timezone of the zone-less value is
                Rel::from_ord(x.cmp(y))
            } else {
                Rel::Unknown
            }
        }
        _ => Rel::Unknown,
    }
}

fn same_term(a: &Option<MT>, b: &Option<MT>) -> bool {
    match (a, b) {
        (None, None) => true,
        (Some(x), Some(y)) => x.same_repr(y),
        _ => false,
    }
}

// ====================================================================== the case

#[derive(Clone, Debug, Serialize, Deserialize)]
pub struct Case {
    /// one palette of candidate values per key column (None = unbound)
    pub palettes: Vec<Vec<Option<MT>>>,
    /// each row: one palette index per column (taken modulo the palette length)
    pub rows: Vec<Vec<u8>>,
    /// ORDER BY keys: (column, descending)
    pub keys: Vec<(u8, bool)>,
    /// swap list describing the third input permutation
    pub perm: Vec<usize>,
}

pub struct C14;

fn lit(l: &str, local: &str) -> Option<MT> {
    Some(MT::lit(l, xsd(local)))
}

fn value_pool() -> Vec<(u32, Vec<Option<MT>>)> {
    let mut nums = vec![];
    for l in ["0", "1", "2", "10", "-1", "007", "+3", "-0", "9007199254740991", "9007199254740992", "9007199254740993", "123456789012345678901234567890", "-123456789012345678901234567890"] {
        nums.push(lit(l, "integer"));
    }
    for l in ["0.0", "1.0", "1.5", "2.50", "10.00", "0.1", "-2.5", "2", "123456789012345678901234567890.123456789", "9007199254740992.5", "1.", ".5", "+1.5"] {
        nums.push(lit(l, "decimal"));
    }
    for l in ["0", "-0.0", "1.0e0", "1", "2", "1e1", "1.5E0", "0.1", "-2.5e0", "9007199254740992", "9007199254740993", "1e30", "1.0E-3", "4.9e-324", "1e400"] {
        nums.push(lit(l, "double"));
    }
    for l in ["1", "2.5", "16777217", "0.1", "-1e0", "1e10"] {
        nums.push(lit(l, "float"));
    }
    for (dt, ls) in [
        ("long", vec!["1", "-5", "9223372036854775807"]),
        ("int", vec!["2", "-2147483648"]),
        ("short", vec!["10", "-3"]),
        ("byte", vec!["3", "5", "-128", "127"]),
        ("nonNegativeInteger", vec!["0", "7"]),
        ("positiveInteger", vec!["1", "4"]),
        ("nonPositiveInteger", vec!["0", "-4"]),
        ("negativeInteger", vec!["-1", "-10"]),
        ("unsignedLong", vec!["18446744073709551615", "2"]),
        ("unsignedInt", vec!["4294967295", "8"]),
        ("unsignedShort", vec!["65535", "6"]),
        ("unsignedByte", vec!["255", "0", "9"]),
    ] {
        for l in ls {
            nums.push(lit(l, dt));
        }
    }
    let special = vec![
        lit("NaN", "double"),
        lit("INF", "double"),
        lit("-INF", "double"),
        lit("NaN", "float"),
        lit("INF", "float"),
        lit("-INF", "float"),
    ];
    let ill = vec![
        lit("1x", "integer"),
        lit("abc", "double"),
        lit("", "decimal"),
        lit("1.5", "integer"),
        lit("300", "byte"),
        lit("-1", "unsignedInt"),
        lit("0", "positiveInteger"),
        lit("1e3", "decimal"),
        lit("+INF", "double"),
        lit("+5", "unsignedByte"),
        lit(" 1", "integer"),
        lit("TRUE", "boolean"),
        lit("foo", "boolean"),
        lit("2020-13-01T00:00:00Z", "dateTime"),
        lit("yesterday", "dateTime"),
        lit("2020-01-01T24:00:00Z", "dateTime"),
    ];
    let strings: Vec<Option<MT>> = ["", "a", "b", "B", "aa", "é", "10", "2", "z"].iter().map(|s| Some(MT::string(*s))).collect();
    let langs = vec![
        Some(MT::lang("a", "en")),
        Some(MT::lang("b", "en")),
        Some(MT::lang("a", "fr")),
        Some(MT::lang("a", "EN")),
        Some(MT::lang("10", "en")),
    ];
    let bools = vec![lit("true", "boolean"), lit("false", "boolean"), lit("1", "boolean"), lit("0", "boolean")];
    let dts: Vec<Option<MT>> = [
        "2020-01-01T00:00:00Z",
        "2020-01-01T01:00:00+02:00",
        "2020-01-01T00:00:00.5Z",
        "2019-12-31T23:59:59-05:00",
        "2020-01-01T13:00:00+05:00",
        "2020-01-01T12:00:00Z",
        "2020-01-01T12:30:00",
        "2020-01-01T00:00:00",
        "2021-06-01T12:00:00",
        "1999-02-28T23:59:59.999",
        "2024-02-29T10:00:00Z",
        "1000-01-01T00:00:00Z",
    ]
    .iter()
    .map(|s| lit(s, "dateTime"))
    .collect();
    let other = vec![
        Some(MT::lit("a", "http://x/dt")),
        Some(MT::lit("b", "http://x/dt")),
        Some(MT::lit("1", "http://x/dt")),
        lit("2020-01-01", "date"),
        Some(MT::lit("<a/>", rdf("XMLLiteral"))),
    ];
    let iris: Vec<Option<MT>> = ["http://x/a", "http://x/b", "http://x/B", "urn:x:y", "http://www.w3.org/2001/XMLSchema#integer"]
        .iter()
        .map(|s| Some(MT::iri(*s)))
        .collect();
    let bnodes: Vec<Option<MT>> = ["b1", "b2", "a"].iter().map(|s| Some(MT::bn(*s))).collect();
    vec![
        (12, nums),
        (3, special),
        (5, ill),
        (4, strings),
        (2, langs),
        (3, bools),
        (4, dts),
        (2, other),
        (2, iris),
        (2, bnodes),
        (2, vec![None]),
    ]
}

fn value() -> BoxedStrategy<Option<MT>> {
    let opts: Vec<(u32, BoxedStrategy<Option<MT>>)> = value_pool().into_iter().map(|(w, v)| (w, pick(v))).collect();
    proptest::strategy::Union::new_weighted(opts).boxed()
}

const NS: &str = "http://x/";

impl Case {
    pub fn ncols(&self) -> usize {
        self.palettes.len().clamp(1, 3)
    }
    pub fn row_values(&self) -> Vec<Vec<Option<MT>>> {
        let k = self.ncols();
        self.rows
            .iter()
            .map(|r| {
                (0..k)
                    .map(|c| {
                        let p = &self.palettes[c];
                        if p.is_empty() {
                            None
                        } else {
                            p[*r.get(c).unwrap_or(&0) as usize % p.len()].clone()
                        }
                    })
                    .collect()
            })
            .collect()
    }
    fn keys(&self) -> Vec<(usize, bool)> {
        let k = self.ncols();
        let mut ks: Vec<(usize, bool)> = self.keys.iter().take(3).map(|(c, d)| (*c as usize % k, *d)).collect();
        if ks.is_empty() {
            ks.push((0, false));
        }
        ks
    }
    /// quads + query text
    pub fn build(&self) -> (Vec<MQ>, String) {
        let rows = self.row_values();
        let k = self.ncols();
        let mut quads = vec![];
        let mut masks: BTreeSet<u8> = BTreeSet::new();
        for (i, r) in rows.iter().enumerate() {
            let s = MT::iri(format!("{NS}r{i}"));
            let mut mask = 0u8;
            for (c, v) in r.iter().enumerate() {
                match v {
                    None => mask |= 1 << c,
                    Some(v) => quads.push(MQ::new(s.clone(), MT::iri(format!("{NS}k{c}")), v.clone(), None)),
                }
            }
            masks.insert(mask);
            quads.push(MQ::new(s, MT::iri(format!("{NS}mask")), MT::string(format!("m{mask}")), None));
        }
        let branches: Vec<String> = masks
            .iter()
            .map(|m| {
                let mut b = format!("{{ ?r <{NS}mask> \"m{m}\" .");
                for c in 0..k {
                    if m & (1 << c) == 0 {
                        b.push_str(&format!(" ?r <{NS}k{c}> ?v{c} ."));
                    }
                }
                b.push_str(" }");
                b
            })
            .collect();
        let vars: Vec<String> = (0..k).map(|c| format!("?v{c}")).collect();
        let order: Vec<String> = self
            .keys()
            .iter()
            .map(|(c, d)| if *d { format!("DESC(?v{c})") } else { format!("ASC(?v{c})") })
            .collect();
        let body = if branches.len() == 1 { branches[0].clone() } else { format!("{{ {} }}", branches.join(" UNION ")) };
        let q = format!("SELECT ?r {} WHERE {} ORDER BY {}", vars.join(" "), body, order.join(" "));
        (quads, q)
    }
}

/// relation between two rows under the key list (DESC reverses a key's value relation; a rank
/// difference under DESC is left unconstrained, see assumptions)
fn tuple_rel(a: &[Option<MT>], b: &[Option<MT>], keys: &[(usize, bool)]) -> (Rel, usize) {
    for (i, (c, desc)) in keys.iter().enumerate() {
        let r = key_rel(&a[*c], &b[*c]);
        let r = if *desc {
            let (ra, rb) = (rank(&classify(&a[*c])), rank(&classify(&b[*c])));
            if ra != rb {
                Rel::Unknown
            } else {
                r.rev()
            }
        } else {
            r
        };
        match r {
            Rel::Tie => continue,
            other => return (other, i),
        }
    }
    (Rel::Tie, keys.len())
}

fn is_lit(v: &Option<MT>) -> bool {
    matches!(v, Some(MT::Lit(..)) | Some(MT::Lang(..)))
}
fn b10(v: &Option<MT>) -> bool {
    matches!(v, Some(MT::Lit(l, d)) if d == &xsd("boolean") && (l == "1" || l == "0"))
}

/// Which root cause can explain a mis-ordering in column `col`? (trigger-keyed, from the input only)
/// * some literal of the column is not ordered by the reference against another literal (different value
///   class, ill-typed, NaN, zone-less vs zoned dateTime...): the engine mixes value order and term order
/// * only numerics, but of exact and floating types: lossy promotion makes `=` intransitive
fn column_trigger(rows: &[Vec<Option<MT>>], col: usize) -> &'static str {
    let lits: Vec<&Option<MT>> = rows.iter().map(|r| &r[col]).filter(|v| is_lit(v)).collect();
    let mut unknown_pair = false;
    let mut unknown_non_numeric = false;
    for (i, a) in lits.iter().enumerate() {
        for b in &lits[i + 1..] {
            if key_rel(a, b) == Rel::Unknown {
                unknown_pair = true;
                let fin = |v: &Option<MT>| matches!(classify(v), VClass::Num(n) if n.val != NumVal::NaN);
                if !(fin(a) && fin(b)) {
                    unknown_non_numeric = true;
                }
            }
        }
    }
    if unknown_non_numeric {
        "order/comparator-cycle-with-incomparable-literal"
    } else if unknown_pair {
        "order/numeric-promotion-intransitive"
    } else {
        ""
    }
}

fn show_v(v: &Option<MT>) -> String {
    v.as_ref().map(MT::show).unwrap_or_else(|| "UNBOUND".into())
}

/// trigger-keyed signature for two rows `ra`, `rb` mis-ordered on key number `ki`
fn pair_signature(ra: &[Option<MT>], rb: &[Option<MT>], rows: &[Vec<Option<MT>>], keys: &[(usize, bool)], ki: usize) -> String {
    // valid xsd:boolean lexical forms "1"/"0" anywhere in the keys compared so far
    for (c, _) in &keys[..=ki] {
        if b10(&ra[*c]) || b10(&rb[*c]) {
            return "order/boolean-lexical-1-0".into();
        }
    }
    for (c, _) in &keys[..=ki] {
        let t = column_trigger(rows, *c);
        if !t.is_empty() {
            return t.into();
        }
    }
    let col = keys[ki].0;
    let (la, lb) = (class_label(&classify(&ra[col])), class_label(&classify(&rb[col])));
    let (x, y) = if la <= lb { (la, lb) } else { (lb, la) };
    format!("order/misordered/{x}-vs-{y}")
}

fn global_signature(rows: &[Vec<Option<MT>>], keys: &[(usize, bool)], fallback: String) -> String {
    if rows.iter().any(|r| keys.iter().any(|(c, _)| b10(&r[*c]))) {
        return "order/boolean-lexical-1-0".into();
    }
    for (c, _) in keys {
        let t = column_trigger(rows, *c);
        if !t.is_empty() {
            return t.into();
        }
    }
    fallback
}

impl Check for C14 {
    type Case = Case;
    const ID: &'static str = "C14";
    fn rule() -> String {
        "rows (2-12, sometimes 21-48) x 1-3 key columns drawn from per-column palettes over every term kind / numeric XSD type / NaN, INF, -0.0, 2^53+-1, 30-digit values / ill-typed / plain+tagged strings / booleans / dateTimes with and without zone / unknown datatypes / unbound (UNION branch), 1-3 ASC/DESC keys, each loaded into Vec<Spog> in 3 input permutations and queried through SparqlWrapper. Oracle: no panic, output is a permutation of the rows, every pair ordered by the exact-arithmetic reference relation appears in that order, and the union of the 'appears before' relations over the permutations never puts two strictly ordered rows in one cycle. Non-trivial = >=3 distinct key tuples from >=2 value classes; distinct by hash of the case.".into()
    }
    fn assumptions() -> Vec<String> {
        vec![
            "a pair is constrained only if both exact arithmetic and the XPath promoted (float/double) comparison order it strictly; equal values (1 vs 1.0) are ties broken by later keys; NaN, ill-typed, language-tagged and unknown-datatype literals are unconstrained unless they are the same term".into(),
            "dateTimes with and without timezone are constrained only when more than 14 h apart".into(),
            "under DESC, pairs of different kinds (unbound/blank/IRI/literal) are left unconstrained (the statement can be read either way)".into(),
            "quoted triples are not generated as key values (the statement does not place them)".into(),
        ]
    }
    fn cases(tier: Tier) -> u32 {
        tier.pick(24_000, 900_000)
    }
    fn strategy(_tier: Tier) -> BoxedStrategy<Case> {
        // "precision clusters": values that collide under a lossy promotion to float/double
        // (a comparator that rounds before comparing is not transitive on them)
        let clusters: Vec<Vec<Option<MT>>> = vec![
            vec![lit("16777216", "integer"), lit("16777217", "integer"), lit("16777218", "integer"), lit("16777216", "float"), lit("1.6777218E7", "float"), lit("16777217.5", "decimal"), lit("16777217", "int")],
            vec![lit("9007199254740992", "integer"), lit("9007199254740993", "integer"), lit("9007199254740994", "integer"), lit("9007199254740992", "double"), lit("9.007199254740994E15", "double"), lit("9007199254740993.5", "decimal"), lit("9007199254740993", "long")],
            vec![lit("0.1", "decimal"), lit("0.1", "float"), lit("0.1", "double"), lit("0.10000000149011612", "decimal"), lit("0.1000000000000000055511151231257827", "decimal"), lit("1", "integer"), lit("0", "integer")],
            vec![lit("16777217", "integer"), lit("16777216", "float"), lit("16777216", "integer"), lit("16777217", "double"), lit("16777216.5", "double"), lit("-16777217", "integer"), lit("-16777216", "float")],
        ];
        let cluster_palette = (pick(clusters), prop::collection::vec(0usize..64, 0..6)).prop_map(|(c, sw)| crate::gen::permute(c, &sw));
        let palette = prop_oneof![
            6 => prop::collection::vec(value(), 1..=7),
            1 => cluster_palette,
        ];
        let n = prop_oneof![7 => 2usize..=12, 3 => 21usize..=48];
        (prop::collection::vec(palette, 1..=3), n)
            .prop_flat_map(|(palettes, n)| {
                let k = palettes.len();
                (
                    Just(palettes),
                    prop::collection::vec(prop::collection::vec(0u8..7, k..=k), n..=n),
                    prop::collection::vec((0u8..3, prop::bool::weighted(0.35)), 1..=3),
                    prop::collection::vec(0usize..64, 0..24),
                )
            })
            .prop_map(|(palettes, rows, keys, perm)| Case { palettes, rows, keys, perm })
            .boxed()
    }
    fn show(case: &Case) -> Value {
        let (_, q) = case.build();
        json!({
            "query": q,
            "rows": case.row_values().iter().map(|r| r.iter().map(show_v).collect::<Vec<_>>().join(" | ")).collect::<Vec<_>>(),
        })
    }
    fn run(case: &Case, ctx: &mut Ctx) {
        let rows = case.row_values();
        let keys = case.keys();
        let (quads, query) = case.build();
        let n = rows.len();
        // classes
        let mut classes: BTreeSet<String> = BTreeSet::new();
        let mut tuples: BTreeSet<String> = BTreeSet::new();
        for r in &rows {
            let mut t = String::new();
            for (c, _) in &keys {
                classes.insert(class_label(&classify(&r[*c])));
                t.push_str(&show_v(&r[*c]));
                t.push('|');
            }
            tuples.insert(t);
        }
        for c in &classes {
            ctx.class(format!("has:{c}"));
        }
        ctx.class(format!("keys:{}", keys.len()));
        if keys.iter().any(|k| k.1) {
            ctx.class("has:DESC");
        }
        ctx.class(if n > 20 { "rows:21+" } else { "rows:2-12" });
        if tuples.len() >= 3 && classes.len() >= 2 {
            ctx.nontrivial();
        }
        // how many pairs does the reference constrain?
        let mut strict_pairs = 0u64;
        for i in 0..n {
            for j in i + 1..n {
                if matches!(tuple_rel(&rows[i], &rows[j], &keys).0, Rel::Less | Rel::Greater) {
                    strict_pairs += 1;
                }
            }
        }
        ctx.count("strictly-ordered-pairs", strict_pairs);
        ctx.count("pairs", (n * n.saturating_sub(1) / 2) as u64);

        // input permutations
        let mut inputs: Vec<Vec<MQ>> = vec![quads.clone()];
        let mut rev = quads.clone();
        rev.reverse();
        inputs.push(rev);
        inputs.push(crate::gen::permute(quads.clone(), &case.perm));

        // node ids for the cross-permutation consistency check: distinct key tuples
        let tuple_of = |r: &Vec<Option<MT>>| -> String { keys.iter().map(|(c, _)| show_v(&r[*c])).collect::<Vec<_>>().join("|") };
        let ids: BTreeMap<String, usize> = rows.iter().map(tuple_of).collect::<BTreeSet<_>>().into_iter().enumerate().map(|(i, t)| (t, i)).collect();
        let m = ids.len();
        let mut reach = vec![vec![false; m]; m];
        let mut rep: Vec<Option<usize>> = vec![None; m];
        for (i, r) in rows.iter().enumerate() {
            rep[ids[&tuple_of(r)]].get_or_insert(i);
        }

        for (pi, input) in inputs.iter().enumerate() {
            let ds: VecSpog = match d_from::<VecSpog>(input) {
                Ok(d) => d,
                Err(e) => {
                    ctx.fail("order/harness-collect", e);
                    return;
                }
            };
            let out = match run_query(&ds, &query) {
                Outcome::Rows { vars, rows } => (vars, rows),
                Outcome::Panic(p) => {
                    let sig = global_signature(&rows, &keys, format!("order/panic/{}", panic_site(&p)));
                    ctx.fail(sig, format!("panic while evaluating (input permutation {pi}): {p}\n{query}"));
                    return;
                }
                other => {
                    ctx.fail("order/query-failed", format!("{other:?}\n{query}"));
                    return;
                }
            };
            let (vars, orows) = out;
            let k = case.ncols();
            let mut exp_vars = vec!["r".to_string()];
            exp_vars.extend((0..k).map(|c| format!("v{c}")));
            if vars != exp_vars {
                ctx.fail("order/variables", format!("variables {vars:?}, expected {exp_vars:?}"));
                return;
            }
            // permutation check
            let mut seen = vec![false; n];
            let mut seq: Vec<usize> = vec![];
            for o in &orows {
                let idx = match &o[0] {
                    Some(MT::Iri(i)) => i.strip_prefix(&format!("{NS}r")).and_then(|s| s.parse::<usize>().ok()),
                    _ => None,
                };
                let Some(idx) = idx.filter(|i| *i < n && !seen[*i]) else {
                    ctx.fail("order/not-a-permutation", format!("unexpected or repeated row {:?}\n{query}", o.iter().map(show_v).collect::<Vec<_>>()));
                    return;
                };
                seen[idx] = true;
                for c in 0..k {
                    if !same_term(&o[c + 1], &rows[idx][c]) {
                        ctx.fail("order/not-a-permutation", format!("row r{idx} column {c}: got {}, stored {}", show_v(&o[c + 1]), show_v(&rows[idx][c])));
                        return;
                    }
                }
                seq.push(idx);
            }
            if seq.len() != n {
                ctx.fail("order/not-a-permutation", format!("{} rows returned, {n} expected\n{query}", seq.len()));
                return;
            }
            // pairwise order
            'outer: for x in 0..n {
                for y in x + 1..n {
                    let (a, b) = (&rows[seq[x]], &rows[seq[y]]);
                    let (r, ki) = tuple_rel(a, b, &keys);
                    if r == Rel::Greater {
                        let (col, desc) = keys[ki];
                        let sig = pair_signature(a, b, &rows, &keys, ki);
                        ctx.fail(
                            sig,
                            format!(
                                "input permutation {pi}: key #{ki} ({}?v{col}): {} is output before {} although the reference orders them the other way\nquery: {query}\noutput order: {}",
                                if desc { "DESC " } else { "ASC " },
                                show_v(&a[col]),
                                show_v(&b[col]),
                                seq.iter().map(|i| format!("[{}]", rows[*i].iter().map(show_v).collect::<Vec<_>>().join(" | "))).collect::<Vec<_>>().join(" ")
                            ),
                        );
                        break 'outer;
                    }
                }
            }
            if ctx.failed() {
                return;
            }
            for x in 0..n {
                for y in x + 1..n {
                    let (ia, ib) = (ids[&tuple_of(&rows[seq[x]])], ids[&tuple_of(&rows[seq[y]])]);
                    if ia != ib {
                        reach[ia][ib] = true;
                    }
                }
            }
        }
        // transitive closure; a total preorder cannot put strictly ordered tuples in one cycle
        for kk in 0..m {
            for i in 0..m {
                if reach[i][kk] {
                    for j in 0..m {
                        if reach[kk][j] {
                            reach[i][j] = true;
                        }
                    }
                }
            }
        }
        for i in 0..m {
            for j in i + 1..m {
                if reach[i][j] && reach[j][i] {
                    let (a, b) = (&rows[rep[i].unwrap()], &rows[rep[j].unwrap()]);
                    let (r, ki) = tuple_rel(a, b, &keys);
                    if matches!(r, Rel::Less | Rel::Greater) {
                        let _ = ki;
                        let sig = global_signature(&rows, &keys, "order/not-a-preorder".to_string());
                        ctx.fail(
                            sig,
                            format!(
                                "across input permutations the outputs place [{}] and [{}] in one 'appears before' cycle although the reference orders them strictly: no total preorder explains the outputs\nquery: {query}",
                                a.iter().map(show_v).collect::<Vec<_>>().join(" | "),
                                b.iter().map(show_v).collect::<Vec<_>>().join(" | ")
                            ),
                        );
                        return;
                    }
                }
            }
        }
    }
}

pub fn main(opts: &Opts) -> i32 {
    drive::<C14>(opts)
}
pub fn worker(_args: &[String]) -> i32 {
    2
}
