//! Independent reader of the W3C N-Quads grammar (RDF 1.1 N-Quads + the RDF-star
//! `<< s p o >>` extension), hand-written from the grammar productions. One statement per
//! line. Used as a second, independent consumer of serialiser output.
#![allow(dead_code)]

use crate::model::*;

struct P<'a> {
    s: &'a [char],
    i: usize,
}

fn is_pn_chars_base(c: char) -> bool {
    matches!(c,
        'A'..='Z' | 'a'..='z' | '\u{C0}'..='\u{D6}' | '\u{D8}'..='\u{F6}' | '\u{F8}'..='\u{2FF}'
        | '\u{370}'..='\u{37D}' | '\u{37F}'..='\u{1FFF}' | '\u{200C}'..='\u{200D}'
        | '\u{2070}'..='\u{218F}' | '\u{2C00}'..='\u{2FEF}' | '\u{3001}'..='\u{D7FF}'
        | '\u{F900}'..='\u{FDCF}' | '\u{FDF0}'..='\u{FFFD}' | '\u{10000}'..='\u{EFFFF}')
}
fn is_pn_chars_u(c: char) -> bool {
    // N-Quads: PN_CHARS_U ::= PN_CHARS_BASE | '_' | ':'
    is_pn_chars_base(c) || c == '_' || c == ':'
}
fn is_pn_chars(c: char) -> bool {
    is_pn_chars_u(c) || c == '-' || c.is_ascii_digit() || c == '\u{B7}' || matches!(c, '\u{300}'..='\u{36F}' | '\u{203F}'..='\u{2040}')
}

impl<'a> P<'a> {
    fn peek(&self) -> Option<char> {
        self.s.get(self.i).copied()
    }
    fn ws(&mut self) {
        while matches!(self.peek(), Some(' ') | Some('\t')) {
            self.i += 1;
        }
    }
    fn eat(&mut self, c: char) -> Result<(), String> {
        if self.peek() == Some(c) {
            self.i += 1;
            Ok(())
        } else {
            Err(format!("expected {c:?} at {} found {:?}", self.i, self.peek()))
        }
    }
    fn starts(&self, pat: &str) -> bool {
        let pc: Vec<char> = pat.chars().collect();
        self.s.len() >= self.i + pc.len() && self.s[self.i..self.i + pc.len()] == pc[..]
    }
    fn uchar(&mut self) -> Result<char, String> {
        // after '\', at 'u' or 'U'
        let n = match self.peek() {
            Some('u') => 4,
            Some('U') => 8,
            _ => return Err("bad UCHAR".into()),
        };
        self.i += 1;
        let mut v: u32 = 0;
        for _ in 0..n {
            let c = self.peek().ok_or("truncated UCHAR")?;
            let d = c.to_digit(16).ok_or(format!("bad hex {c:?}"))?;
            v = v * 16 + d;
            self.i += 1;
        }
        char::from_u32(v).ok_or_else(|| format!("UCHAR not a scalar value {v:x}"))
    }
    fn iriref(&mut self) -> Result<String, String> {
        self.eat('<')?;
        let mut out = String::new();
        loop {
            let c = self.peek().ok_or("unterminated IRIREF")?;
            self.i += 1;
            match c {
                '>' => return Ok(out),
                '\\' => out.push(self.uchar()?),
                '\u{0}'..='\u{20}' | '<' | '"' | '{' | '}' | '|' | '^' | '`' => {
                    return Err(format!("illegal character {c:?} in IRIREF"))
                }
                c => out.push(c),
            }
        }
    }
    fn bnode(&mut self) -> Result<String, String> {
        self.eat('_')?;
        self.eat(':')?;
        let c = self.peek().ok_or("empty blank node label")?;
        if !(is_pn_chars_u(c) || c.is_ascii_digit()) {
            return Err(format!("bad first char {c:?} of blank node label"));
        }
        let start = self.i;
        self.i += 1;
        // ((PN_CHARS | '.')* PN_CHARS)? — longest match not ending in '.'
        let mut last_ok = self.i;
        while let Some(c) = self.peek() {
            if is_pn_chars(c) {
                self.i += 1;
                last_ok = self.i;
            } else if c == '.' {
                self.i += 1;
            } else {
                break;
            }
        }
        self.i = last_ok;
        Ok(self.s[start..self.i].iter().collect())
    }
    fn string(&mut self) -> Result<String, String> {
        self.eat('"')?;
        let mut out = String::new();
        loop {
            let c = self.peek().ok_or("unterminated string")?;
            self.i += 1;
            match c {
                '"' => return Ok(out),
                '\n' | '\r' => return Err("raw line break in string".into()),
                '\\' => {
                    let e = self.peek().ok_or("truncated escape")?;
                    match e {
                        't' => out.push('\t'),
                        'b' => out.push('\u{8}'),
                        'n' => out.push('\n'),
                        'r' => out.push('\r'),
                        'f' => out.push('\u{c}'),
                        '"' => out.push('"'),
                        '\'' => out.push('\''),
                        '\\' => out.push('\\'),
                        'u' | 'U' => {
                            out.push(self.uchar()?);
                            continue;
                        }
                        other => return Err(format!("bad escape \\{other}")),
                    }
                    self.i += 1;
                }
                c => out.push(c),
            }
        }
    }
    fn literal(&mut self) -> Result<MT, String> {
        let lex = self.string()?;
        if self.starts("^^") {
            self.i += 2;
            let dt = self.iriref()?;
            Ok(MT::Lit(lex, dt))
        } else if self.peek() == Some('@') {
            self.i += 1;
            let start = self.i;
            while matches!(self.peek(), Some(c) if c.is_ascii_alphabetic()) {
                self.i += 1;
            }
            if self.i == start {
                return Err("empty language tag".into());
            }
            while self.peek() == Some('-') {
                let save = self.i;
                self.i += 1;
                let st = self.i;
                while matches!(self.peek(), Some(c) if c.is_ascii_alphanumeric()) {
                    self.i += 1;
                }
                if self.i == st {
                    self.i = save;
                    return Err("empty language subtag".into());
                }
            }
            Ok(MT::Lang(lex, self.s[start..self.i].iter().collect()))
        } else {
            Ok(MT::Lit(lex, XSD_STRING.to_string()))
        }
    }
    fn quoted(&mut self) -> Result<MT, String> {
        self.i += 2; // <<
        self.ws();
        let s = self.subject()?;
        self.ws();
        let p = MT::Iri(self.iriref()?);
        self.ws();
        let o = self.object()?;
        self.ws();
        if !self.starts(">>") {
            return Err(format!("expected >> at {}", self.i));
        }
        self.i += 2;
        Ok(MT::triple(s, p, o))
    }
    fn subject(&mut self) -> Result<MT, String> {
        if self.starts("<<") {
            self.quoted()
        } else if self.peek() == Some('<') {
            Ok(MT::Iri(self.iriref()?))
        } else if self.peek() == Some('_') {
            Ok(MT::Bnode(self.bnode()?))
        } else {
            Err(format!("bad subject at {}: {:?}", self.i, self.peek()))
        }
    }
    fn object(&mut self) -> Result<MT, String> {
        if self.peek() == Some('"') {
            self.literal()
        } else {
            self.subject()
        }
    }
    fn statement(&mut self) -> Result<Option<MQ>, String> {
        self.ws();
        if self.peek().is_none() || self.peek() == Some('#') {
            return Ok(None);
        }
        let s = self.subject()?;
        self.ws();
        let p = MT::Iri(self.iriref()?);
        self.ws();
        let o = self.object()?;
        self.ws();
        let g = match self.peek() {
            Some('<') => Some(MT::Iri(self.iriref()?)),
            Some('_') => Some(MT::Bnode(self.bnode()?)),
            _ => None,
        };
        self.ws();
        self.eat('.')?;
        self.ws();
        match self.peek() {
            None | Some('#') => Ok(Some(MQ::new(s, p, o, g))),
            Some(c) => Err(format!("trailing garbage {c:?} at {}", self.i)),
        }
    }
}

/// Parse an N-Quads(-star) document. One statement per line (EOL = [\r\n]+).
pub fn parse_nquads(doc: &str) -> Result<Vec<MQ>, String> {
    let mut out = vec![];
    for (ln, line) in doc.split(['\n', '\r']).enumerate() {
        let chars: Vec<char> = line.chars().collect();
        let mut p = P { s: &chars, i: 0 };
        match p.statement() {
            Ok(Some(q)) => out.push(q),
            Ok(None) => {}
            Err(e) => return Err(format!("line {}: {e}: {line:?}", ln + 1)),
        }
    }
    Ok(out)
}

#[cfg(test)]
mod test {
    use super::*;
    #[test]
    fn basic() {
        let d = "<http://a> <http://p> \"x\\n\\u00e9\"@en-US <http://g> .\n_:a.b <http://p> _:c.\n<< _:a <http://p> \"1\"^^<http://dt> >> <http://p> <http://o> . # c\n";
        let q = parse_nquads(d).unwrap();
        assert_eq!(q.len(), 3);
        assert_eq!(q[0].o, MT::lang("x\né", "en-US"));
        assert_eq!(q[1].s, MT::bn("a.b"));
        assert_eq!(q[1].o, MT::bn("c"));
        assert!(q[2].s.is_triple());
        assert!(parse_nquads("<http://a> <http://p> \"a\nb\" .").is_err());
    }
}
