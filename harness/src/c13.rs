//! C13 — SPARQL evaluation returns exactly the algebra's solutions or 'not implemented'.
//!
//! Query *text* is generated from a grammar (own AST, rendered to SPARQL), parsed with spargebra,
//! evaluated by a naive reference evaluator over the algebra, and compared with
//! `SparqlWrapper(&dataset).query(text)`.
use crate::c14::{classify, num_rel, run_query, Dec, NumTy, NumVal, Outcome, Rel, VClass};
use crate::engine::*;
use crate::model::*;
use crate::stores::*;
use proptest::prelude::*;
use serde::{Deserialize, Serialize};
use serde_json::{json, Value};
use spargebra::algebra::{Expression, Function, GraphPattern, OrderExpression};
use spargebra::term::{NamedNodePattern, TermPattern, TriplePattern};
use std::collections::{BTreeMap, BTreeSet};

// ====================================================================== query AST (generator side)

/// term in a triple pattern
#[derive(Clone, Debug, Serialize, Deserialize)]
pub enum T {
    Var(String),
    /// blank-node placeholder (label made unique per triples block at render time)
    Bn(String),
    Anon,
    C(MT),
    Quoted(Box<TP>),
}
#[derive(Clone, Debug, Serialize, Deserialize)]
pub struct TP {
    pub s: T,
    pub p: T,
    pub o: T,
}
#[derive(Clone, Debug, Serialize, Deserialize)]
pub enum E {
    Var(String),
    C(MT),
    /// op in = != < > <= >= && || + - *
    Bin(String, Box<E>, Box<E>),
    Not(Box<E>),
    Neg(Box<E>),
    Bound(String),
    /// isIRI isBlank isLiteral str lang datatype  (and unimplemented ones: e.g. ucase is fine, MD5 ...)
    F1(String, Box<E>),
    /// sameTerm, and unimplemented binary functions (REGEX, STRDT, STRLANG)
    F2(String, Box<E>, Box<E>),
    If(Box<E>, Box<E>, Box<E>),
    Coalesce(Vec<E>),
    /// NOW() etc
    F0(String),
    /// [NOT] EXISTS { basic graph pattern }
    Exists(bool, Vec<TP>),
}
#[derive(Clone, Debug, Serialize, Deserialize)]
pub enum El {
    Triples(Vec<TP>),
    Filter(E),
    Bind(E, String),
    Union(Vec<G>),
    /// name: Var or C(iri)
    Graph(T, G),
    Sub(Box<Sel>),
    Group(G),
    Optional(G),
    Minus(G),
    Values(String, Vec<MT>),
    /// subject, path text, object
    Path(T, String, T),
    Service(G),
}
#[derive(Clone, Debug, Serialize, Deserialize)]
pub struct G(pub Vec<El>);
#[derive(Clone, Debug, Serialize, Deserialize)]
pub enum PItem {
    V(String),
    Expr(E, String),
    /// aggregate text e.g. COUNT(?a), alias
    Agg(String, String),
}
#[derive(Clone, Debug, Serialize, Deserialize)]
pub struct Sel {
    pub distinct: bool,
    /// None = *
    pub proj: Option<Vec<PItem>>,
    pub body: G,
    pub group_by: Option<String>,
    pub order: Vec<(bool, E)>,
    pub offset: Option<u32>,
    pub limit: Option<u32>,
}
#[derive(Clone, Debug, Serialize, Deserialize)]
pub enum Form {
    Select(Sel),
    Ask(G),
    /// ASK with solution modifiers (OFFSET, LIMIT): the answer is whether the *sliced* sequence is non-empty
    AskSlice(G, Option<u32>, Option<u32>),
    Construct(G),
    Describe(G),
}
#[derive(Clone, Debug, Serialize, Deserialize)]
pub struct Q {
    pub from: Vec<String>,
    pub from_named: Vec<String>,
    pub form: Form,
}

pub fn render_mt(t: &MT) -> String {
    match t {
        MT::Iri(i) => format!("<{i}>"),
        MT::Bnode(b) => format!("_:{b}"),
        MT::Lit(l, d) if d == XSD_STRING => format!("\"{}\"", esc(l)),
        MT::Lit(l, d) => format!("\"{}\"^^<{d}>", esc(l)),
        MT::Lang(l, t) => format!("\"{}\"@{t}", esc(l)),
        MT::Triple(t) => format!("<< {} {} {} >>", render_mt(&t[0]), render_mt(&t[1]), render_mt(&t[2])),
        MT::Var(v) => format!("?{v}"),
    }
}
fn esc(s: &str) -> String {
    s.replace('\\', "\\\\").replace('"', "\\\"").replace('\n', "\\n").replace('\r', "\\r").replace('\t', "\\t")
}

struct R {
    block: usize,
}
impl R {
    fn t(&self, t: &T) -> String {
        match t {
            T::Var(v) => format!("?{v}"),
            T::Bn(b) => format!("_:{b}k{}", self.block),
            T::Anon => "[]".into(),
            T::C(m) => render_mt(m),
            T::Quoted(tp) => format!("<< {} {} {} >>", self.t(&tp.s), self.t(&tp.p), self.t(&tp.o)),
        }
    }
    fn e(&self, e: &E) -> String {
        match e {
            E::Var(v) => format!("?{v}"),
            E::C(m) => render_mt(m),
            E::Bin(op, a, b) => format!("({} {op} {})", self.e(a), self.e(b)),
            E::Not(a) => format!("(!{})", self.e(a)),
            E::Neg(a) => format!("(- {})", self.e(a)),
            E::Bound(v) => format!("bound(?{v})"),
            E::F0(f) => format!("{f}()"),
            E::F1(f, a) => format!("{f}({})", self.e(a)),
            E::F2(f, a, b) => format!("{f}({}, {})", self.e(a), self.e(b)),
            E::If(c, a, b) => format!("IF({}, {}, {})", self.e(c), self.e(a), self.e(b)),
            E::Coalesce(v) => format!("COALESCE({})", v.iter().map(|x| self.e(x)).collect::<Vec<_>>().join(", ")),
            E::Exists(neg, tps) => {
                // blank node labels of the inner pattern get their own block number
                let inner = R { block: 9000 + self.block * 10 + tps.len() };
                let body: String = tps.iter().map(|tp| format!("{} {} {} . ", inner.t(&tp.s), inner.t(&tp.p), inner.t(&tp.o))).collect();
                format!("{}EXISTS {{ {body}}}", if *neg { "NOT " } else { "" })
            }
        }
    }
    fn g(&mut self, g: &G) -> String {
        let mut s = String::from("{ ");
        for el in &g.0 {
            match el {
                El::Triples(tps) => {
                    self.block += 1;
                    for tp in tps {
                        s.push_str(&format!("{} {} {} . ", self.t(&tp.s), self.t(&tp.p), self.t(&tp.o)));
                    }
                }
                El::Filter(e) => s.push_str(&format!("FILTER({}) ", self.e(e))),
                El::Bind(e, v) => s.push_str(&format!("BIND({} AS ?{v}) ", self.e(e))),
                El::Union(gs) => {
                    let parts: Vec<String> = gs.iter().map(|g| self.g(g)).collect();
                    s.push_str(&parts.join(" UNION "));
                    s.push(' ');
                }
                El::Graph(n, g) => {
                    let n = self.t(n);
                    s.push_str(&format!("GRAPH {n} {} ", self.g(g)));
                }
                El::Sub(sel) => s.push_str(&format!("{{ {} }} ", self.sel(sel))),
                El::Group(g) => {
                    let x = self.g(g);
                    s.push_str(&x);
                    s.push(' ');
                }
                El::Optional(g) => s.push_str(&format!("OPTIONAL {} ", self.g(g))),
                El::Minus(g) => s.push_str(&format!("MINUS {} ", self.g(g))),
                El::Values(v, ms) => s.push_str(&format!("VALUES ?{v} {{ {} }} ", ms.iter().map(render_mt).collect::<Vec<_>>().join(" "))),
                El::Path(a, p, b) => {
                    self.block += 1;
                    s.push_str(&format!("{} {p} {} . ", self.t(a), self.t(b)));
                }
                El::Service(g) => s.push_str(&format!("SERVICE <http://x/svc> {} ", self.g(g))),
            }
        }
        s.push('}');
        s
    }
    fn sel(&mut self, sel: &Sel) -> String {
        let mut s = String::from("SELECT ");
        if sel.distinct {
            s.push_str("DISTINCT ");
        }
        match &sel.proj {
            None => s.push_str("* "),
            Some(items) => {
                for it in items {
                    match it {
                        PItem::V(v) => s.push_str(&format!("?{v} ")),
                        PItem::Expr(e, v) => s.push_str(&format!("({} AS ?{v}) ", self.e(e))),
                        PItem::Agg(a, v) => s.push_str(&format!("({a} AS ?{v}) ")),
                    }
                }
            }
        }
        s.push_str("WHERE ");
        s.push_str(&self.g(&sel.body));
        if let Some(v) = &sel.group_by {
            s.push_str(&format!(" GROUP BY ?{v}"));
        }
        if !sel.order.is_empty() {
            s.push_str(" ORDER BY");
            for (d, e) in &sel.order {
                s.push_str(&format!(" {}({})", if *d { "DESC" } else { "ASC" }, self.e(e)));
            }
        }
        if let Some(o) = sel.offset {
            s.push_str(&format!(" OFFSET {o}"));
        }
        if let Some(l) = sel.limit {
            s.push_str(&format!(" LIMIT {l}"));
        }
        s
    }
}
impl Q {
    pub fn render(&self) -> String {
        let mut r = R { block: 0 };
        let ds: String = self
            .from
            .iter()
            .map(|g| format!("FROM <{g}> "))
            .chain(self.from_named.iter().map(|g| format!("FROM NAMED <{g}> ")))
            .collect();
        match &self.form {
            Form::Select(sel) => {
                let t = r.sel(sel);
                // dataset clause goes between the projection and WHERE
                t.replacen("WHERE ", &format!("{ds}WHERE "), 1)
            }
            Form::Ask(g) => format!("ASK {ds}WHERE {}", r.g(g)),
            Form::AskSlice(g, offset, limit) => {
                let mut t = format!("ASK {ds}WHERE {}", r.g(g));
                if let Some(o) = offset {
                    t.push_str(&format!(" OFFSET {o}"));
                }
                if let Some(l) = limit {
                    t.push_str(&format!(" LIMIT {l}"));
                }
                t
            }
            Form::Construct(g) => format!("CONSTRUCT {{ ?a <http://x/p> ?b }} {ds}WHERE {}", r.g(g)),
            Form::Describe(g) => format!("DESCRIBE ?a {ds}WHERE {}", r.g(g)),
        }
    }
}

// ====================================================================== reference evaluator

type Mu = BTreeMap<String, MT>;
type Tr = [MT; 3];

#[derive(Clone, Debug, PartialEq)]
enum XErr {
    Type,
    /// semantics the harness does not judge: the whole case is skipped
    Uncertain(&'static str),
}
type XR = Result<MT, XErr>;

#[derive(Default, Debug, Clone)]
struct Flags {
    /// `error || true` / `error && false` decided a value
    logic_rescue: bool,
    /// EBV of an ill-typed numeric literal was taken
    ebv_illtyped_numeric: bool,
    /// IF whose condition has no EBV
    if_cond_error: bool,
    /// an expression inside GRAPH ?g read ?g while it was not bound by the inner pattern
    graph_var_in_expr: bool,
    /// GRAPH over a group that has a solution without matching any triple
    graph_over_empty_group: bool,
    /// a nested projection dropped a variable
    nested_project_drop: bool,
    /// COALESCE / IF skipped over an error
    coalesce_skip: bool,
    /// an EXISTS / NOT EXISTS over a basic graph pattern was evaluated
    exists: bool,
}

struct Ev {
    /// active graph of the group whose FILTER / BIND expression is being evaluated (for EXISTS)
    cur_active: Option<String>,
    default: Vec<Tr>,
    named: BTreeMap<String, Vec<Tr>>,
    flags: Flags,
    graph_vars: Vec<String>,
    uncertain: Option<&'static str>,
}

fn bool_lit(b: bool) -> MT {
    MT::lit(if b { "true" } else { "false" }, xsd("boolean"))
}
fn is_lit(t: &MT) -> bool {
    t.is_literal()
}
fn has_dt(t: &MT, local: &str) -> bool {
    matches!(t, MT::Lit(_, d) if d.strip_prefix(XSD) == Some(local))
}
fn is_integer_typed(t: &MT) -> bool {
    matches!(t, MT::Lit(_, d) if matches!(d.strip_prefix(XSD), Some("integer" | "long" | "int" | "short" | "byte" | "nonNegativeInteger" | "positiveInteger" | "nonPositiveInteger" | "negativeInteger" | "unsignedLong" | "unsignedInt" | "unsignedShort" | "unsignedByte")))
}
fn cls(t: &MT) -> VClass {
    classify(&Some(t.clone()))
}

fn mt_of_nn(n: &spargebra::term::NamedNode) -> MT {
    MT::iri(n.as_str())
}
fn mt_of_lit(l: &spargebra::term::Literal) -> MT {
    match l.language() {
        Some(tag) => MT::lang(l.value(), tag),
        None => MT::lit(l.value(), l.datatype().as_str()),
    }
}

impl Ev {
    fn ebv(&mut self, t: &MT) -> Result<bool, XErr> {
        match cls(t) {
            VClass::Bool(b) => {
                if matches!(t, MT::Lit(l, _) if l == "1" || l == "0") {
                    return Err(XErr::Uncertain("boolean-1-0"));
                }
                Ok(b)
            }
            VClass::OtherLit("ill-typed-boolean") => Ok(false),
            VClass::Num(n) => match &n.val {
                NumVal::NaN => Ok(false),
                NumVal::Fin(d) => Ok(!d.is_zero()),
                _ => Ok(true),
            },
            VClass::OtherLit("ill-typed-numeric") => {
                self.flags.ebv_illtyped_numeric = true;
                Ok(false)
            }
            VClass::OtherLit("uncertain-numeric") => Err(XErr::Uncertain("numeric-lexical")),
            VClass::Str(s) => Ok(!s.is_empty()),
            VClass::OtherLit("lang") => Ok(!t.lexical().unwrap().is_empty()),
            _ => Err(XErr::Type),
        }
    }

    fn equals(&mut self, a: &MT, b: &MT) -> Result<bool, XErr> {
        if a.is_triple() || b.is_triple() {
            return Err(XErr::Uncertain("triple-in-comparison"));
        }
        if !is_lit(a) || !is_lit(b) {
            return Ok(a.same_repr(b));
        }
        match (cls(a), cls(b)) {
            (VClass::Num(x), VClass::Num(y)) => match num_rel(&x, &y) {
                Rel::Tie => Ok(true),
                Rel::Unknown => Err(XErr::Uncertain("numeric-corner")),
                _ => Ok(false),
            },
            (VClass::Str(x), VClass::Str(y)) => Ok(x == y),
            (VClass::Bool(x), VClass::Bool(y)) => {
                let b10 = |t: &MT| matches!(t, MT::Lit(l, _) if l == "1" || l == "0");
                if b10(a) || b10(b) {
                    return Err(XErr::Uncertain("boolean-1-0"));
                }
                Ok(x == y)
            }
            (VClass::DateTime(..), _) | (_, VClass::DateTime(..)) => Err(XErr::Uncertain("dateTime")),
            _ => {
                if a.same_repr(b) {
                    Ok(true)
                } else if a.tag().is_some() && b.tag().is_some() {
                    Err(XErr::Uncertain("lang-vs-lang-equality"))
                } else if has_dt(a, "boolean") && has_dt(b, "boolean") {
                    Err(XErr::Uncertain("ill-typed-boolean-equality"))
                } else if a == b {
                    // same term up to the case of the language tag
                    Err(XErr::Uncertain("tag-case"))
                } else {
                    Err(XErr::Type)
                }
            }
        }
    }

    fn compare(&mut self, a: &MT, b: &MT) -> Result<std::cmp::Ordering, XErr> {
        use std::cmp::Ordering::*;
        if a.is_triple() || b.is_triple() {
            return Err(XErr::Uncertain("triple-in-comparison"));
        }
        if !is_lit(a) || !is_lit(b) {
            return Err(XErr::Type);
        }
        match (cls(a), cls(b)) {
            (VClass::Num(x), VClass::Num(y)) => match num_rel(&x, &y) {
                Rel::Tie => Ok(Equal),
                Rel::Less => Ok(Less),
                Rel::Greater => Ok(Greater),
                Rel::Unknown => Err(XErr::Uncertain("numeric-corner")),
            },
            (VClass::Str(x), VClass::Str(y)) => Ok(Ord::cmp(x.as_str(), y.as_str())),
            (VClass::Bool(x), VClass::Bool(y)) => {
                let b10 = |t: &MT| matches!(t, MT::Lit(l, _) if l == "1" || l == "0");
                if b10(a) || b10(b) {
                    return Err(XErr::Uncertain("boolean-1-0"));
                }
                Ok(Ord::cmp(&x, &y))
            }
            (VClass::DateTime(..), _) | (_, VClass::DateTime(..)) => Err(XErr::Uncertain("dateTime")),
            _ => {
                if a == b {
                    Err(XErr::Uncertain("order-of-same-unordered-literal"))
                } else if a.tag().is_some() && b.tag().is_some() {
                    Err(XErr::Uncertain("lang-vs-lang-order"))
                } else if has_dt(a, "boolean") && has_dt(b, "boolean") {
                    Err(XErr::Uncertain("ill-typed-boolean-order"))
                } else {
                    Err(XErr::Type)
                }
            }
        }
    }

    fn int_of(&mut self, t: &MT) -> Result<i128, XErr> {
        match cls(t) {
            VClass::Num(n) => {
                if n.ty != NumTy::Exact || !is_integer_typed(t) {
                    return Err(XErr::Uncertain("non-integer-arithmetic"));
                }
                match &n.val {
                    NumVal::Fin(d) if d.is_integer() && d.int.len() <= 30 => Ok(d.to_plain().parse::<i128>().unwrap()),
                    _ => Err(XErr::Uncertain("big-arithmetic")),
                }
            }
            VClass::OtherLit("uncertain-numeric") => Err(XErr::Uncertain("numeric-lexical")),
            _ => Err(XErr::Type),
        }
    }

    fn var(&mut self, name: &str, mu: &Mu) -> Option<MT> {
        let v = mu.get(name).cloned();
        if v.is_none() && self.graph_vars.iter().any(|g| g == name) {
            self.flags.graph_var_in_expr = true;
        }
        v
    }

    fn expr(&mut self, e: &Expression, mu: &Mu) -> XR {
        use Expression as X;
        let cmp = |s: &mut Self, a: &Expression, b: &Expression, mu: &Mu, f: fn(std::cmp::Ordering) -> bool| -> XR {
            let x = s.expr(a, mu);
            let y = s.expr(b, mu);
            let (x, y) = (Self::unc_first(x, &y)?, y?);
            Ok(bool_lit(f(s.compare(&x, &y)?)))
        };
        match e {
            X::NamedNode(n) => Ok(mt_of_nn(n)),
            X::Literal(l) => Ok(mt_of_lit(l)),
            X::Variable(v) => self.var(v.as_str(), mu).ok_or(XErr::Type),
            X::Or(a, b) | X::And(a, b) => {
                let is_or = matches!(e, X::Or(..));
                let x = self.expr(a, mu).and_then(|t| self.ebv(&t));
                let y = self.expr(b, mu).and_then(|t| self.ebv(&t));
                if let Err(XErr::Uncertain(u)) = &x {
                    return Err(XErr::Uncertain(u));
                }
                if let Err(XErr::Uncertain(u)) = &y {
                    return Err(XErr::Uncertain(u));
                }
                let decisive = is_or; // `true` decides OR, `false` decides AND
                match (x, y) {
                    (Ok(p), Ok(q)) => Ok(bool_lit(if is_or { p || q } else { p && q })),
                    (Ok(p), Err(_)) | (Err(_), Ok(p)) if p == decisive => {
                        self.flags.logic_rescue = true;
                        Ok(bool_lit(decisive))
                    }
                    _ => Err(XErr::Type),
                }
            }
            X::Equal(a, b) => {
                let x = self.expr(a, mu);
                let y = self.expr(b, mu);
                let (x, y) = (Self::unc_first(x, &y)?, y?);
                Ok(bool_lit(self.equals(&x, &y)?))
            }
            X::SameTerm(a, b) => {
                let x = self.expr(a, mu);
                let y = self.expr(b, mu);
                let (x, y) = (Self::unc_first(x, &y)?, y?);
                if x == y && !x.same_repr(&y) {
                    return Err(XErr::Uncertain("tag-case"));
                }
                Ok(bool_lit(x.same_repr(&y)))
            }
            X::Greater(a, b) => cmp(self, a, b, mu, |o| o.is_gt()),
            X::GreaterOrEqual(a, b) => cmp(self, a, b, mu, |o| o.is_ge()),
            X::Less(a, b) => cmp(self, a, b, mu, |o| o.is_lt()),
            X::LessOrEqual(a, b) => cmp(self, a, b, mu, |o| o.is_le()),
            X::Add(a, b) | X::Subtract(a, b) | X::Multiply(a, b) => {
                let x = self.expr(a, mu);
                let y = self.expr(b, mu);
                let (x, y) = (Self::unc_first(x, &y)?, y?);
                let i = self.int_of(&x);
                let j = self.int_of(&y);
                let (i, j) = (Self::unc_first(i, &j)?, j?);
                let r = match e {
                    X::Add(..) => i.checked_add(j),
                    X::Subtract(..) => i.checked_sub(j),
                    _ => i.checked_mul(j),
                };
                match r {
                    Some(r) => Ok(MT::lit(r.to_string(), xsd("integer"))),
                    None => Err(XErr::Uncertain("overflow")),
                }
            }
            X::UnaryMinus(a) => {
                let x = self.expr(a, mu)?;
                let i = self.int_of(&x)?;
                Ok(MT::lit((-i).to_string(), xsd("integer")))
            }
            X::Not(a) => {
                let x = self.expr(a, mu)?;
                Ok(bool_lit(!self.ebv(&x)?))
            }
            X::Bound(v) => Ok(bool_lit(self.var(v.as_str(), mu).is_some())),
            X::If(c, a, b) => {
                let cv = self.expr(c, mu)?;
                match self.ebv(&cv) {
                    Ok(true) => self.expr(a, mu),
                    Ok(false) => self.expr(b, mu),
                    Err(XErr::Type) => {
                        self.flags.if_cond_error = true;
                        Err(XErr::Type)
                    }
                    Err(u) => Err(u),
                }
            }
            X::Coalesce(es) => {
                for (i, x) in es.iter().enumerate() {
                    match self.expr(x, mu) {
                        Ok(v) => {
                            if i > 0 {
                                self.flags.coalesce_skip = true;
                            }
                            return Ok(v);
                        }
                        Err(XErr::Type) => continue,
                        Err(u) => return Err(u),
                    }
                }
                Err(XErr::Type)
            }
            X::FunctionCall(f, args) => {
                let mut vals = vec![];
                let mut err: Option<XErr> = None;
                for a in args {
                    match self.expr(a, mu) {
                        Ok(v) => vals.push(v),
                        Err(XErr::Uncertain(u)) => return Err(XErr::Uncertain(u)),
                        Err(x) => {
                            err.get_or_insert(x);
                        }
                    }
                }
                if let Some(x) = err {
                    return Err(x);
                }
                match (f, &vals[..]) {
                    (Function::IsIri, [a]) => Ok(bool_lit(a.is_iri())),
                    (Function::IsBlank, [a]) => Ok(bool_lit(a.is_bnode())),
                    (Function::IsLiteral, [a]) => Ok(bool_lit(a.is_literal())),
                    (Function::Str, [a]) => match a {
                        MT::Iri(i) => Ok(MT::string(i.clone())),
                        MT::Lit(l, _) | MT::Lang(l, _) => Ok(MT::string(l.clone())),
                        MT::Triple(_) => Err(XErr::Uncertain("str-of-triple")),
                        _ => Err(XErr::Type),
                    },
                    (Function::Lang, [a]) => match a {
                        MT::Lang(_, t) => Ok(MT::string(t.clone())),
                        MT::Lit(..) => Ok(MT::string("")),
                        _ => Err(XErr::Type),
                    },
                    (Function::Datatype, [a]) => match a {
                        MT::Lang(..) => Ok(MT::iri(RDF_LANGSTRING)),
                        MT::Lit(_, d) => Ok(MT::iri(d.clone())),
                        _ => Err(XErr::Type),
                    },
                    _ => Err(XErr::Uncertain("function-outside-subset")),
                }
            }
            X::Exists(p) => match p.as_ref() {
                GraphPattern::Bgp { patterns } => {
                    // crisp only for a basic graph pattern that does not mention a GRAPH variable in scope
                    let mentions = |name: &str| format!("{patterns:?}").contains(&format!("name: \"{name}\""));
                    if self.graph_vars.iter().any(|g| mentions(g)) {
                        return Err(XErr::Uncertain("exists-mentions-graph-variable"));
                    }
                    let active = self.cur_active.clone();
                    let sols = self.bgp(patterns, &active);
                    let found = sols.iter().any(|s| s.iter().all(|(v, t)| mu.get(v).map(|x| x == t).unwrap_or(true)));
                    self.flags.exists = true;
                    Ok(bool_lit(found))
                }
                _ => Err(XErr::Uncertain("exists-over-non-bgp")),
            },
            _ => Err(XErr::Uncertain("expression-outside-subset")),
        }
    }

    /// Uncertain in the second operand wins over a type error in the first
    fn unc_first<A, B>(x: Result<A, XErr>, y: &Result<B, XErr>) -> Result<A, XErr> {
        if let Err(XErr::Uncertain(u)) = y {
            return Err(XErr::Uncertain(u));
        }
        x
    }

    fn triples(&self, active: &Option<String>) -> Vec<Tr> {
        match active {
            None => self.default.clone(),
            Some(g) => self.named.get(g).cloned().unwrap_or_default(),
        }
    }

    fn match_named(p: &NamedNodePattern, t: &MT, mu: &mut Mu) -> bool {
        match p {
            NamedNodePattern::NamedNode(n) => matches!(t, MT::Iri(i) if i == n.as_str()),
            NamedNodePattern::Variable(v) => Self::bind(mu, v.as_str(), t),
        }
    }
    fn bind(m: &mut Mu, k: &str, t: &MT) -> bool {
        match m.get(k) {
            Some(x) => x.same_repr(t),
            None => {
                m.insert(k.to_string(), t.clone());
                true
            }
        }
    }
    fn match_term(p: &TermPattern, t: &MT, mu: &mut Mu, sigma: &mut Mu) -> bool {
        match p {
            TermPattern::NamedNode(n) => matches!(t, MT::Iri(i) if i == n.as_str()),
            TermPattern::Literal(l) => mt_of_lit(l).same_repr(t),
            TermPattern::BlankNode(b) => Self::bind(sigma, b.as_str(), t),
            TermPattern::Variable(v) => Self::bind(mu, v.as_str(), t),
            TermPattern::Triple(tp) => match t {
                MT::Triple(inner) => Self::match_tp(tp, inner, mu, sigma),
                _ => false,
            },
        }
    }
    fn match_tp(tp: &TriplePattern, t: &Tr, mu: &mut Mu, sigma: &mut Mu) -> bool {
        Self::match_term(&tp.subject, &t[0], mu, sigma) && Self::match_named(&tp.predicate, &t[1], mu) && Self::match_term(&tp.object, &t[2], mu, sigma)
    }

    fn bgp(&self, pats: &[TriplePattern], active: &Option<String>) -> Vec<Mu> {
        let g = self.triples(active);
        let mut cur: Vec<(Mu, Mu)> = vec![(Mu::new(), Mu::new())];
        for tp in pats {
            let mut next = vec![];
            for (mu, sigma) in &cur {
                for t in &g {
                    let (mut m, mut s) = (mu.clone(), sigma.clone());
                    if Self::match_tp(tp, t, &mut m, &mut s) {
                        next.push((m, s));
                    }
                }
            }
            cur = next;
        }
        // one solution per distinct (mu, sigma): the blank-node multiplicity rule
        cur.into_iter().map(|(m, _)| m).collect()
    }

    /// can this pattern have a solution that matches no triple at all?
    fn may_be_empty_group(p: &GraphPattern) -> bool {
        match p {
            GraphPattern::Bgp { patterns } => patterns.is_empty(),
            GraphPattern::Filter { inner, .. } | GraphPattern::Extend { inner, .. } | GraphPattern::Project { inner, .. } | GraphPattern::Distinct { inner } => Self::may_be_empty_group(inner),
            GraphPattern::Union { left, right } => Self::may_be_empty_group(left) || Self::may_be_empty_group(right),
            _ => false,
        }
    }

    fn eval(&mut self, p: &GraphPattern, active: &Option<String>, top: bool) -> Vec<Mu> {
        match p {
            GraphPattern::Bgp { patterns } => self.bgp(patterns, active),
            GraphPattern::Filter { expr, inner } => {
                let rows = self.eval(inner, active, false);
                let mut out = vec![];
                self.cur_active = active.clone();
                for mu in rows {
                    match self.expr(expr, &mu).and_then(|t| self.ebv(&t)) {
                        Ok(true) => out.push(mu),
                        Ok(false) | Err(XErr::Type) => {}
                        Err(XErr::Uncertain(u)) => {
                            self.uncertain.get_or_insert(u);
                        }
                    }
                }
                out
            }
            GraphPattern::Union { left, right } => {
                let mut l = self.eval(left, active, false);
                l.extend(self.eval(right, active, false));
                l
            }
            GraphPattern::Graph { name, inner } => {
                if Self::may_be_empty_group(inner) {
                    self.flags.graph_over_empty_group = true;
                }
                match name {
                    NamedNodePattern::NamedNode(n) => {
                        if self.named.contains_key(n.as_str()) {
                            self.eval(inner, &Some(n.as_str().to_string()), false)
                        } else {
                            vec![]
                        }
                    }
                    NamedNodePattern::Variable(v) => {
                        let names: Vec<String> = self.named.keys().cloned().collect();
                        let mut out = vec![];
                        self.graph_vars.push(v.as_str().to_string());
                        for g in names {
                            for mut mu in self.eval(inner, &Some(g.clone()), false) {
                                if Self::bind(&mut mu, v.as_str(), &MT::iri(g.clone())) {
                                    out.push(mu);
                                }
                            }
                        }
                        self.graph_vars.pop();
                        out
                    }
                }
            }
            GraphPattern::Extend { inner, variable, expression } => {
                let rows = self.eval(inner, active, false);
                let mut out = vec![];
                self.cur_active = active.clone();
                for mut mu in rows {
                    if mu.contains_key(variable.as_str()) {
                        self.uncertain.get_or_insert("extend-of-bound-variable");
                    }
                    match self.expr(expression, &mu) {
                        Ok(v) => {
                            mu.insert(variable.as_str().to_string(), v);
                        }
                        Err(XErr::Type) => {}
                        Err(XErr::Uncertain(u)) => {
                            self.uncertain.get_or_insert(u);
                        }
                    }
                    out.push(mu);
                }
                out
            }
            GraphPattern::Project { inner, variables } => {
                let rows = self.eval(inner, active, false);
                let keep: BTreeSet<&str> = variables.iter().map(|v| v.as_str()).collect();
                rows.into_iter()
                    .map(|mu| {
                        if !top && mu.keys().any(|k| !keep.contains(k.as_str())) {
                            self.flags.nested_project_drop = true;
                        }
                        mu.into_iter().filter(|(k, _)| keep.contains(k.as_str())).collect()
                    })
                    .collect()
            }
            GraphPattern::Distinct { inner } => {
                let rows = self.eval(inner, active, top);
                let mut seen: Vec<Mu> = vec![];
                for mu in rows {
                    if !seen.iter().any(|m| same_mu(m, &mu)) {
                        seen.push(mu);
                    }
                }
                seen
            }
            GraphPattern::OrderBy { inner, expression } => {
                // the multiset is unchanged; evaluate the keys only to notice semantics we do not judge
                let rows = self.eval(inner, active, top);
                for mu in &rows {
                    for oe in expression {
                        let (OrderExpression::Asc(e) | OrderExpression::Desc(e)) = oe;
                        let _ = self.expr(e, mu);
                    }
                }
                rows
            }
            GraphPattern::Slice { inner, .. } => {
                // only reached for a slice that is not the outermost operator
                self.uncertain.get_or_insert("nested-slice");
                self.eval(inner, active, false)
            }
            _ => {
                self.uncertain.get_or_insert("unsupported-node-reached");
                vec![]
            }
        }
    }
}

fn same_mu(a: &Mu, b: &Mu) -> bool {
    a.len() == b.len() && a.iter().zip(b.iter()).all(|((k1, v1), (k2, v2))| k1 == k2 && v1.same_repr(v2))
}

/// The algebra operators the property lists as supported; anything else must be rejected explicitly.
fn unsupported_pattern(p: &GraphPattern) -> Option<&'static str> {
    use GraphPattern::*;
    match p {
        Bgp { .. } => None,
        Filter { expr, inner } => unsupported_expr(expr).or_else(|| unsupported_pattern(inner)),
        Union { left, right } => unsupported_pattern(left).or_else(|| unsupported_pattern(right)),
        Graph { inner, .. } => unsupported_pattern(inner),
        Extend { inner, expression, .. } => unsupported_expr(expression).or_else(|| unsupported_pattern(inner)),
        OrderBy { inner, expression } => expression
            .iter()
            .find_map(|oe| {
                let (OrderExpression::Asc(e) | OrderExpression::Desc(e)) = oe;
                unsupported_expr(e)
            })
            .or_else(|| unsupported_pattern(inner)),
        Project { inner, .. } | Distinct { inner } | Slice { inner, .. } => unsupported_pattern(inner),
        Path { .. } => Some("Path"),
        Join { .. } => Some("Join"),
        LeftJoin { .. } => Some("LeftJoin"),
        Minus { .. } => Some("Minus"),
        Values { .. } => Some("Values"),
        Reduced { .. } => Some("Reduced"),
        Group { .. } => Some("Group"),
        Service { .. } => Some("Service"),
    }
}
/// functions the engine documents as not implemented (function.rs `todo`)
fn unimplemented_function(f: &Function) -> Option<&'static str> {
    use Function::*;
    Some(match f {
        Replace => "REPLACE",
        Timezone => "TIMEZONE",
        Tz => "TZ",
        Now => "NOW",
        Uuid => "UUID",
        StrUuid => "STRUUID",
        Md5 => "MD5",
        Sha1 => "SHA1",
        Sha256 => "SHA256",
        Sha384 => "SHA384",
        Sha512 => "SHA512",
        StrLang => "STRLANG",
        StrDt => "STRDT",
        Regex => "REGEX",
        Subject => "SUBJECT",
        Predicate => "PREDICATE",
        Object => "OBJECT",
        Custom(_) => "custom",
        _ => return None,
    })
}
fn unsupported_expr(e: &Expression) -> Option<&'static str> {
    use Expression as X;
    match e {
        X::NamedNode(_) | X::Literal(_) | X::Variable(_) | X::Bound(_) => None,
        X::Or(a, b) | X::And(a, b) | X::Equal(a, b) | X::SameTerm(a, b) | X::Greater(a, b) | X::GreaterOrEqual(a, b) | X::Less(a, b) | X::LessOrEqual(a, b) | X::Add(a, b) | X::Subtract(a, b) | X::Multiply(a, b) | X::Divide(a, b) => {
            unsupported_expr(a).or_else(|| unsupported_expr(b))
        }
        X::In(a, v) => unsupported_expr(a).or_else(|| v.iter().find_map(unsupported_expr)),
        X::UnaryPlus(a) | X::UnaryMinus(a) | X::Not(a) => unsupported_expr(a),
        X::Exists(p) => unsupported_pattern(p),
        X::If(a, b, c) => unsupported_expr(a).or_else(|| unsupported_expr(b)).or_else(|| unsupported_expr(c)),
        X::Coalesce(v) => v.iter().find_map(unsupported_expr),
        X::FunctionCall(f, v) => unimplemented_function(f).or_else(|| v.iter().find_map(unsupported_expr)),
    }
}

// ====================================================================== generators

const NS: &str = "http://x/";
fn iri(l: &str) -> MT {
    MT::iri(format!("{NS}{l}"))
}
fn xl(l: &str, dt: &str) -> MT {
    MT::lit(l, xsd(dt))
}
fn subj_pool() -> Vec<MT> {
    vec![iri("a"), iri("b"), iri("g1"), MT::bn("n1"), MT::triple(iri("a"), iri("p"), xl("1", "integer"))]
}
fn lit_pool() -> Vec<MT> {
    vec![
        xl("1", "integer"),
        xl("2", "integer"),
        xl("01", "integer"),
        xl("-3", "integer"),
        MT::string("a"),
        MT::string(""),
        MT::string("b"),
        MT::lang("a", "en"),
        MT::lang("b", "fr"),
        xl("true", "boolean"),
        xl("false", "boolean"),
        xl("abc", "integer"),
        MT::lit("x", format!("{NS}dt")),
        xl("1.5", "decimal"),
        xl("1.0e0", "double"),
        xl("foo", "boolean"),
        xl("0", "integer"),
    ]
}
fn obj_pool() -> Vec<MT> {
    let mut v = vec![iri("a"), iri("b"), iri("g1"), MT::bn("n1"), MT::bn("n2"), MT::triple(MT::bn("n1"), iri("q"), iri("b")), MT::triple(iri("a"), iri("p"), xl("1", "integer"))];
    v.extend(lit_pool());
    v
}

fn quad_strategy() -> BoxedStrategy<Vec<MQ>> {
    let s = prop_oneof![9 => pick(subj_pool()[..4].to_vec()), 1 => Just(subj_pool()[4].clone())];
    let p = pick(vec![iri("p"), iri("q")]);
    let o = prop_oneof![6 => pick(obj_pool()[..5].to_vec()), 1 => pick(obj_pool()[5..7].to_vec()), 3 => pick(lit_pool()[..5].to_vec()), 3 => pick(lit_pool())];
    // bit 0 default graph, bit 1 g1, bit 2 g2
    let gm = prop_oneof![8 => Just(1u8), 2 => Just(2u8), 2 => Just(4u8), 1 => Just(3u8), 1 => Just(6u8), 1 => Just(7u8), 1 => Just(5u8)];
    prop_oneof![1 => prop::collection::vec((s.clone(), p.clone(), o.clone(), gm.clone()), 0..=4), 6 => prop::collection::vec((s, p, o, gm), 5..=14)]
        .prop_map(|v| {
            let mut out = vec![];
            for (s, p, o, gm) in v {
                for (bit, g) in [(1u8, None), (2, Some(iri("g1"))), (4, Some(iri("g2")))] {
                    if gm & bit != 0 {
                        out.push(MQ::new(s.clone(), p.clone(), o.clone(), g));
                    }
                }
            }
            let mut out = crate::gen::dedup(out);
            out.truncate(15);
            out
        })
        .boxed()
}

fn var_name() -> BoxedStrategy<String> {
    prop_oneof![4 => Just("a"), 4 => Just("b"), 3 => Just("c"), 3 => Just("d"), 1 => Just("g")].prop_map(String::from).boxed()
}
fn t_subject(q: bool) -> BoxedStrategy<T> {
    let mut opts: Vec<(u32, BoxedStrategy<T>)> = vec![
        (62, var_name().prop_map(T::Var).boxed()),
        (14, pick(subj_pool()[..4].to_vec()).prop_map(|m| if m.is_bnode() { T::Bn("x".into()) } else { T::C(m) }).boxed()),
        (10, pick_str(&["x", "y"]).prop_map(T::Bn).boxed()),
        (4, Just(T::Anon).boxed()),
        (3, Just(T::C(iri("z"))).boxed()),
    ];
    if q {
        opts.push((4, quoted().boxed()));
    }
    proptest::strategy::Union::new_weighted(opts).boxed()
}
fn t_pred() -> BoxedStrategy<T> {
    prop_oneof![7 => pick(vec![iri("p"), iri("q")]).prop_map(T::C), 2 => Just(T::Var("p".into())), 1 => Just(T::Var("a".into()))].boxed()
}
fn t_object(q: bool) -> BoxedStrategy<T> {
    let consts: Vec<MT> = obj_pool().into_iter().filter(|m| !m.has_bnode()).collect();
    let mut opts: Vec<(u32, BoxedStrategy<T>)> = vec![
        (58, var_name().prop_map(T::Var).boxed()),
        (12, pick(consts[..5].to_vec()).prop_map(T::C).boxed()),
        (5, pick(consts).prop_map(T::C).boxed()),
        (10, pick_str(&["x", "y"]).prop_map(T::Bn).boxed()),
        (4, Just(T::Anon).boxed()),
        (3, Just(T::C(iri("z"))).boxed()),
    ];
    if q {
        opts.push((5, quoted().boxed()));
    }
    proptest::strategy::Union::new_weighted(opts).boxed()
}
fn quoted() -> BoxedStrategy<T> {
    (t_subject(false), t_pred(), t_object(false)).prop_map(|(s, p, o)| T::Quoted(Box::new(TP { s, p, o }))).boxed()
}
fn tp() -> BoxedStrategy<TP> {
    let strict = (t_subject(true), t_pred(), t_object(true)).prop_map(|(s, p, o)| TP { s, p, o });
    // loose patterns (variables around a constant predicate) keep intermediate results non-empty
    let loose = (
        var_name().prop_map(T::Var),
        pick(vec![iri("p"), iri("q")]).prop_map(T::C),
        prop_oneof![6 => var_name().prop_map(T::Var), 1 => Just(T::Bn("x".into())), 1 => Just(T::Anon)],
    )
        .prop_map(|(s, p, o)| TP { s, p, o });
    prop_oneof![5 => strict, 4 => loose].boxed()
}

fn leaf() -> BoxedStrategy<E> {
    let consts: Vec<MT> = obj_pool().into_iter().filter(|m| !m.has_bnode() && !m.is_triple()).collect();
    prop_oneof![
        6 => prop_oneof![8 => Just("a"), 8 => Just("b"), 4 => Just("c"), 3 => Just("d"), 2 => Just("g"), 2 => Just("x0"), 1 => Just("x1"), 1 => Just("p"), 1 => Just("u")].prop_map(|s| E::Var(s.to_string())),
        4 => pick(consts).prop_map(E::C),
    ]
    .boxed()
}
fn val_expr(depth: u32) -> BoxedStrategy<E> {
    if depth == 0 {
        return leaf();
    }
    let d = depth - 1;
    prop_oneof![
        5 => leaf(),
        2 => (pick_str(&["str", "lang", "datatype"]), val_expr(d)).prop_map(|(f, a)| E::F1(f, Box::new(a))),
        3 => (pick_str(&["+", "-", "*"]), val_expr(d), val_expr(d)).prop_map(|(op, a, b)| E::Bin(op, Box::new(a), Box::new(b))),
        1 => val_expr(d).prop_map(|a| E::Neg(Box::new(a))),
        1 => (bool_expr(d), val_expr(d), val_expr(d)).prop_map(|(c, a, b)| E::If(Box::new(c), Box::new(a), Box::new(b))),
        1 => (val_expr(d), val_expr(d), leaf()).prop_map(|(a, b, c)| E::If(Box::new(a), Box::new(b), Box::new(c))),
        1 => prop::collection::vec(val_expr(d), 1..=3).prop_map(E::Coalesce),
        2 => bool_expr(d),
    ]
    .boxed()
}
fn bool_expr(depth: u32) -> BoxedStrategy<E> {
    let atom = prop_oneof![
        8 => (pick_str(&["=", "!=", "<", ">", "<=", ">="]), val_expr(depth.min(1)), val_expr(depth.min(1))).prop_map(|(op, a, b)| E::Bin(op, Box::new(a), Box::new(b))),
        2 => pick_str(&["a", "b", "c", "d", "g", "x0", "u"]).prop_map(E::Bound),
        3 => (pick_str(&["isIRI", "isBlank", "isLiteral"]), leaf()).prop_map(|(f, a)| E::F1(f, Box::new(a))),
        2 => (leaf(), leaf()).prop_map(|(a, b)| E::F2("sameTerm".into(), Box::new(a), Box::new(b))),
        2 => leaf(),
        2 => (any::<bool>(), prop::collection::vec(tp(), 1..=2)).prop_map(|(n, tps)| E::Exists(n, tps)),
    ]
    .boxed();
    if depth == 0 {
        return atom;
    }
    let d = depth - 1;
    prop_oneof![
        4 => atom,
        4 => (pick_str(&["&&", "||"]), bool_expr(d), bool_expr(d)).prop_map(|(op, a, b)| E::Bin(op, Box::new(a), Box::new(b))),
        2 => bool_expr(d).prop_map(|a| E::Not(Box::new(a))),
    ]
    .boxed()
}
fn unimpl_expr() -> BoxedStrategy<E> {
    prop_oneof![
        (leaf()).prop_map(|a| E::F2("REGEX".into(), Box::new(a), Box::new(E::C(MT::string("a"))))),
        Just(E::F2("STRDT".into(), Box::new(E::C(MT::string("1"))), Box::new(E::C(MT::iri(xsd("integer")))))),
        Just(E::F2("STRLANG".into(), Box::new(E::C(MT::string("a"))), Box::new(E::C(MT::string("en"))))),
        leaf().prop_map(|a| E::F1("MD5".into(), Box::new(E::F1("str".into(), Box::new(a))))),
        leaf().prop_map(|a| E::F1("TZ".into(), Box::new(a))),
        Just(E::Bin("!=".into(), Box::new(E::F0("NOW".into())), Box::new(E::C(xl("1", "integer"))))),
        Just(E::F1("isLiteral".into(), Box::new(E::F0("STRUUID".into())))),
    ]
    .boxed()
}

fn graph_name() -> BoxedStrategy<T> {
    prop_oneof![
        11 => Just(T::Var("g".into())),
        2 => Just(T::Var("a".into())),
        3 => Just(T::C(iri("g1"))),
        2 => Just(T::C(iri("g2"))),
        1 => Just(T::C(iri("gz"))),
        1 => Just(T::C(iri("a"))),
    ]
    .boxed()
}

/// a group: one core element followed by BIND / FILTER; small weights for unsupported operators
fn group(depth: u32, top: bool) -> BoxedStrategy<G> {
    let triples = prop_oneof![5 => prop::collection::vec(tp(), 1..=1), 4 => prop::collection::vec(tp(), 2..=2), 2 => prop::collection::vec(tp(), 3..=3)].prop_map(El::Triples).boxed();
    let mut cores: Vec<(u32, BoxedStrategy<Vec<El>>)> = vec![(110, triples.clone().prop_map(|e| vec![e]).boxed()), (6, Just(vec![]).boxed())];
    if depth > 0 {
        let d = depth - 1;
        cores.push((28, prop::collection::vec(group(d, false), 2..=3).prop_map(|gs| vec![El::Union(gs)]).boxed()));
        cores.push((40, (graph_name(), group(d, false)).prop_map(|(n, g)| vec![El::Graph(n, g)]).boxed()));
        cores.push((8, select(d, false).prop_map(|s| vec![El::Sub(Box::new(s))]).boxed()));
        cores.push((6, group(d, false).prop_map(|g| vec![El::Group(g)]).boxed()));
        // unsupported operators
        cores.push((2, (triples.clone(), group(d, false)).prop_map(|(t, g)| vec![t, El::Optional(g)]).boxed()));
        cores.push((2, (triples.clone(), group(d, false)).prop_map(|(t, g)| vec![t, El::Minus(g)]).boxed()));
        cores.push((2, (triples.clone(), graph_name(), group(d, false)).prop_map(|(t, n, g)| vec![t, El::Graph(n, g)]).boxed()));
        cores.push((2, (group(d, false), group(d, false)).prop_map(|(a, b)| vec![El::Group(G(vec![El::Union(vec![a.clone(), b])])), El::Group(a)]).boxed()));
        cores.push((1, group(d, false).prop_map(|g| vec![El::Service(g)]).boxed()));
    }
    cores.push((1, (var_name(), pick(lit_pool())).prop_map(|(v, m)| vec![El::Values(v, vec![m])]).boxed()));
    cores.push((1, (triples.clone(), var_name(), prop::collection::vec(pick(obj_pool().into_iter().filter(|m| !m.has_bnode() && !m.is_triple()).collect::<Vec<_>>()), 1..=2)).prop_map(|(t, v, ms)| vec![t, El::Values(v, ms)]).boxed()));
    cores.push((
        2,
        (t_subject(false), pick_str(&["<http://x/p>+", "<http://x/p>*", "<http://x/p>/<http://x/q>", "^<http://x/p>", "(<http://x/p>|<http://x/q>)"]), t_object(false))
            .prop_map(|(a, p, b)| vec![El::Path(a, p, b)])
            .boxed(),
    ));
    let core = proptest::strategy::Union::new_weighted(cores);
    let _ = top;
    let xname = format!("x{}", 2u32.saturating_sub(depth));
    let yname = format!("y{}", 2u32.saturating_sub(depth));
    let tail_item = prop_oneof![
        6 => bool_expr(2).prop_map(El::Filter),
        6 => bool_expr(1).prop_map(El::Filter),
        2 => val_expr(1).prop_map(El::Filter),
        14 => val_expr(2).prop_map(move |e| El::Bind(e, String::new())),
        1 => unimpl_expr().prop_map(El::Filter),
        // a triples block after the core (join when the core is not a BGP or follows a BIND)
        1 => prop::collection::vec(tp(), 1..=1).prop_map(El::Triples),
    ];
    (core, prop_oneof![5 => prop::collection::vec(tail_item.clone(), 0..=0), 4 => prop::collection::vec(tail_item.clone(), 1..=1), 1 => prop::collection::vec(tail_item, 2..=2)])
        .prop_map(move |(mut c, tail)| {
            let mut nb = 0;
            for t in tail {
                match t {
                    El::Bind(e, _) => {
                        nb += 1;
                        c.push(El::Bind(e, if nb == 1 { xname.clone() } else { yname.clone() }));
                    }
                    other => c.push(other),
                }
            }
            G(c)
        })
        .boxed()
}

fn select(depth: u32, top: bool) -> BoxedStrategy<Sel> {
    let vars = ["a", "b", "c", "d", "g", "p", "x0", "x1", "y0"];
    let proj = prop_oneof![
        4 => Just(None),
        5 => prop::collection::vec(pick_str(&vars), 1..=3).prop_map(|mut v| {
            v.sort();
            v.dedup();
            Some(v.into_iter().map(PItem::V).collect::<Vec<_>>())
        }),
        1 => (pick_str(&["a", "b"]), val_expr(1)).prop_map(|(v, e)| Some(vec![PItem::V(v), PItem::Expr(e, "e".into())])),
    ];
    let order = prop_oneof![5 => Just(vec![]), 1 => prop::collection::vec((any::<bool>(), pick_str(&["a", "b", "c"]).prop_map(E::Var)), 1..=2)];
    let slice = if top {
        prop_oneof![3 => Just((None, None)), 1 => (prop::option::of(0u32..4), prop::option::of(0u32..5))].boxed()
    } else {
        Just((None, None)).boxed()
    };
    let agg = if top {
        prop_oneof![
            60 => Just(None),
            1 => Just(Some((Some(vec![PItem::Agg("COUNT(*)".into(), "n".into())]), None))),
            1 => Just(Some((Some(vec![PItem::V("a".into()), PItem::Agg("COUNT(?b)".into(), "n".into())]), Some("a".to_string())))),
        ]
        .boxed()
    } else {
        Just(None).boxed()
    };
    (prop::bool::weighted(0.25), proj, group(depth, top), order, slice, agg)
        .prop_map(|(distinct, proj, body, order, (offset, limit), agg)| match agg {
            Some((p, gb)) => Sel { distinct, proj: p, body, group_by: gb, order: vec![], offset, limit },
            None => Sel { distinct, proj, body, group_by: None, order, offset, limit },
        })
        .boxed()
}

fn query() -> BoxedStrategy<Q> {
    let form = prop_oneof![
        30 => select(2, true).prop_map(Form::Select),
        8 => group(2, true).prop_map(Form::Ask),
        3 => (group(2, true), prop::option::of(0u32..4), prop::option::of(0u32..3)).prop_map(|(g, o, l)| Form::AskSlice(g, o, l)),
        1 => group(1, true).prop_map(|g| if g.0.len() % 2 == 0 { Form::Construct(g) } else { Form::Describe(g) }),
    ];
    let ds = prop_oneof![
        60 => Just((vec![], vec![])),
        1 => Just((vec![format!("{NS}g1")], vec![])),
        1 => Just((vec![format!("{NS}g1"), format!("{NS}g2")], vec![format!("{NS}g2")])),
        1 => Just((vec![], vec![format!("{NS}g1")])),
    ];
    (ds, form).prop_map(|((from, from_named), form)| Q { from, from_named, form }).boxed()
}

#[derive(Clone, Debug, Serialize, Deserialize)]
pub struct Case {
    pub quads: Vec<MQ>,
    pub query: Q,
    /// if set, replaces the rendered query (hand-written corpus cases)
    #[serde(default)]
    pub text: Option<String>,
    pub store: u8,
}

// ====================================================================== the check

pub struct C13;

const STORES: &[&str] = &["FastDataset", "LightDataset", "BTreeSet<Spog>", "Vec<Spog>", "HashSet<Gspo>"];

fn run_on_store(store: usize, quads: &[MQ], text: &str) -> Outcome {
    fn go<D: sophia_api::dataset::CollectibleDataset>(quads: &[MQ], text: &str) -> Outcome {
        match d_from::<D>(quads) {
            Ok(d) => run_query(&d, text),
            Err(e) => Outcome::OtherErr(format!("harness: cannot build dataset: {e}")),
        }
    }
    match store % STORES.len() {
        0 => go::<FastDataset>(quads, text),
        1 => go::<LightDataset>(quads, text),
        2 => go::<BTreeSpog>(quads, text),
        3 => go::<VecSpog>(quads, text),
        _ => go::<HashGspo>(quads, text),
    }
}

fn show_row(vars: &[String], r: &[Option<MT>]) -> String {
    vars.iter().zip(r.iter()).map(|(v, t)| format!("?{v}={}", t.as_ref().map(MT::show).unwrap_or_else(|| "-".into()))).collect::<Vec<_>>().join(" ")
}
fn show_rows(vars: &[String], rows: &[Vec<Option<MT>>]) -> String {
    let mut v: Vec<String> = rows.iter().map(|r| show_row(vars, r)).collect();
    v.sort();
    if v.is_empty() {
        "(none)".into()
    } else {
        v.join("\n    ")
    }
}

fn count_tps(p: &GraphPattern) -> (usize, usize) {
    // (triple patterns, operators above BGPs)
    use GraphPattern::*;
    match p {
        Bgp { patterns } => (patterns.len(), 0),
        Filter { inner, .. } | Graph { inner, .. } | Extend { inner, .. } | Distinct { inner } | Slice { inner, .. } | OrderBy { inner, .. } => {
            let (a, b) = count_tps(inner);
            (a, b + 1)
        }
        Project { inner, .. } => count_tps(inner),
        Union { left, right } => {
            let (a, b) = count_tps(left);
            let (c, d) = count_tps(right);
            (a + c, b + d + 1)
        }
        _ => (0, 1),
    }
}

fn op_classes(p: &GraphPattern, out: &mut BTreeSet<&'static str>, under_graph_var: bool) {
    use GraphPattern::*;
    match p {
        Bgp { patterns } => {
            out.insert(if patterns.is_empty() { "op:empty-bgp" } else { "op:bgp" });
            let mut vars: Vec<&str> = vec![];
            for tp in patterns {
                for t in [&tp.subject, &tp.object] {
                    match t {
                        TermPattern::BlankNode(_) => {
                            out.insert("tp:blank-placeholder");
                        }
                        TermPattern::Triple(_) => {
                            out.insert("tp:quoted-pattern");
                        }
                        TermPattern::Variable(v) => {
                            if vars.contains(&v.as_str()) {
                                out.insert("tp:repeated-variable");
                            }
                            vars.push(v.as_str());
                        }
                        _ => {}
                    }
                }
                if let NamedNodePattern::Variable(v) = &tp.predicate {
                    if vars.contains(&v.as_str()) {
                        out.insert("tp:repeated-variable");
                    }
                    vars.push(v.as_str());
                }
            }
            if patterns.len() >= 2 {
                out.insert("op:bgp-2+");
            }
            if under_graph_var && vars.contains(&"g") {
                out.insert("graph:var-reused-inside");
            }
        }
        Filter { inner, .. } => {
            out.insert("op:filter");
            op_classes(inner, out, under_graph_var)
        }
        Union { left, right } => {
            out.insert("op:union");
            op_classes(left, out, under_graph_var);
            op_classes(right, out, under_graph_var)
        }
        Graph { name, inner } => {
            let v = matches!(name, NamedNodePattern::Variable(_));
            out.insert(if v { "op:graph-var" } else { "op:graph-const" });
            op_classes(inner, out, under_graph_var || v)
        }
        Extend { inner, .. } => {
            out.insert("op:extend");
            op_classes(inner, out, under_graph_var)
        }
        Project { inner, .. } => op_classes(inner, out, under_graph_var),
        Distinct { inner } => {
            out.insert("op:distinct");
            op_classes(inner, out, under_graph_var)
        }
        OrderBy { inner, .. } => {
            out.insert("op:order-by");
            op_classes(inner, out, under_graph_var)
        }
        Slice { inner, .. } => {
            out.insert("op:slice");
            op_classes(inner, out, under_graph_var)
        }
        _ => {}
    }
}

impl Case {
    pub fn text(&self) -> String {
        self.text.clone().unwrap_or_else(|| self.query.render())
    }
}

impl Check for C13 {
    type Case = Case;
    const ID: &'static str = "C13";
    fn rule() -> String {
        "dataset (<=15 quads over a dense universe: default graph + 2 named graphs sharing triples, IRIs/blank nodes/quoted triples/literals of every value class incl. ill-typed) x query text from a grammar (BGPs with repeated variables, blank placeholders, quoted patterns, present/absent constants; UNION; GRAPH <g>|?g incl. ?g reused inside; FILTER/BIND over a crisp expression subset with unbound/type-error operands; DISTINCT; projection incl. (expr AS ?v); sub-select; ORDER BY; OFFSET/LIMIT; ASK; plus unsupported operators). Oracle: naive evaluator over the spargebra algebra (multiset equality; sub-multiset of right cardinality under a top-level slice; ASK boolean); algebra with an operator outside the supported list must give Err(NotImplemented); never a panic. Non-trivial = (>=2 triple patterns or an operator above the BGP) and (>=1 reference solution, or an unsupported operator present). Distinct by hash of the case.".into()
    }
    fn assumptions() -> Vec<String> {
        vec![
            "expression semantics are judged on a crisp subset only; cases whose evaluation touches anything else (lang-vs-lang comparisons, ill-typed booleans in comparisons, decimal/double arithmetic, ordering of equal unordered literals, quoted triples in comparisons, dateTimes) are skipped and counted as class skipped:<reason>".into(),
            "blank node labels of results are compared literally (the engine returns the stored labels)".into(),
            "datasets are sets of quads (duplicates removed before loading Vec-backed stores); graph names are IRIs".into(),
            "for dataset clauses (FROM / FROM NAMED) either Err(NotImplemented) or the correct answer is accepted".into(),
        ]
    }
    fn cases(tier: Tier) -> u32 {
        tier.pick(40_000, 1_500_000)
    }
    fn strategy(_tier: Tier) -> BoxedStrategy<Case> {
        (quad_strategy(), query(), 0u8..STORES.len() as u8).prop_map(|(quads, query, store)| Case { quads, query, text: None, store }).boxed()
    }
    fn show(case: &Case) -> Value {
        json!({ "query": case.text(), "data": case.quads.iter().map(MQ::show).collect::<Vec<_>>(), "store": STORES[case.store as usize % STORES.len()] })
    }
    fn run(case: &Case, ctx: &mut Ctx) {
        let text = case.text();
        let quads = crate::gen::dedup(case.quads.clone());
        let parsed = match spargebra::Query::parse(&text, None) {
            Ok(q) => q,
            Err(e) => {
                ctx.class("parse-rejected");
                if ctx.strict {
                    ctx.fail("harness/unparsable-replay", format!("{e}\n{text}"));
                }
                return;
            }
        };
        let (kind, dataset, pattern) = match &parsed {
            spargebra::Query::Select { dataset, pattern, .. } => ("select", dataset, pattern),
            spargebra::Query::Ask { dataset, pattern, .. } => ("ask", dataset, pattern),
            spargebra::Query::Construct { dataset, pattern, .. } => ("construct", dataset, pattern),
            spargebra::Query::Describe { dataset, pattern, .. } => ("describe", dataset, pattern),
        };
        ctx.class(format!("form:{kind}"));
        let unsupported: Option<&'static str> = match kind {
            "construct" => Some("CONSTRUCT"),
            "describe" => Some("DESCRIBE"),
            _ => unsupported_pattern(pattern),
        };
        let mut ops = BTreeSet::new();
        op_classes(pattern, &mut ops, false);
        for o in &ops {
            ctx.class(*o);
        }
        let outcome = run_on_store(case.store as usize, &quads, &text);
        let data = || format!("query: {text}\ndata:\n    {}\nstore: {}", quads.iter().map(MQ::show).collect::<Vec<_>>().join("\n    "), STORES[case.store as usize % STORES.len()]);
        if let Outcome::Panic(p) = &outcome {
            ctx.fail(format!("panic/{}", panic_site(p)), format!("engine panicked: {p}\n{}", data()));
            return;
        }
        if let Some(u) = unsupported {
            ctx.class(format!("unsupported:{u}"));
            ctx.nontrivial();
            match &outcome {
                Outcome::NotImpl(_) => {}
                other => {
                    let is_fn = unsupported_pattern_is_function(pattern);
                    let sig = if is_fn { "unsupported/function-not-rejected".to_string() } else { format!("unsupported/{u}-not-rejected") };
                    ctx.fail(sig, format!("the query uses {u}, which the engine does not implement, but the result is not Err(NotImplemented): {}\n{}", brief(other), data()));
                }
            }
            return;
        }
        // reference evaluation
        let mut ev = Ev { cur_active: None, default: vec![], named: BTreeMap::new(), flags: Flags::default(), graph_vars: vec![], uncertain: None };
        match dataset {
            None => {
                for q in &quads {
                    let t = [q.s.clone(), q.p.clone(), q.o.clone()];
                    match &q.g {
                        None => ev.default.push(t),
                        Some(MT::Iri(g)) => ev.named.entry(g.clone()).or_default().push(t),
                        Some(_) => {
                            ctx.class("skipped:non-iri-graph-name");
                            return;
                        }
                    }
                }
            }
            Some(ds) => {
                ctx.class("dataset-clause");
                let graph_of = |name: &str| -> Vec<Tr> { quads.iter().filter(|q| matches!(&q.g, Some(MT::Iri(g)) if g == name)).map(|q| [q.s.clone(), q.p.clone(), q.o.clone()]).collect() };
                let mut seen: BTreeSet<MQ> = BTreeSet::new();
                for g in &ds.default {
                    for t in graph_of(g.as_str()) {
                        if seen.insert(MQ::new(t[0].clone(), t[1].clone(), t[2].clone(), None)) {
                            ev.default.push(t);
                        }
                    }
                }
                for g in ds.named.iter().flatten() {
                    let ts = graph_of(g.as_str());
                    if !ts.is_empty() {
                        ev.named.insert(g.as_str().to_string(), ts);
                    }
                }
                if matches!(outcome, Outcome::NotImpl(_)) {
                    ctx.nontrivial();
                    return;
                }
            }
        }
        let (slice, body) = match pattern {
            GraphPattern::Slice { inner, start, length } => (Some((*start, *length)), &**inner),
            p => (None, p),
        };
        let rows = ev.eval(body, &None, true);
        if let Some(u) = ev.uncertain {
            ctx.class(format!("skipped:{u}"));
            return;
        }
        let f = &ev.flags;
        for (on, name) in [
            (f.logic_rescue, "expr:error-operand-rescued-by-logic"),
            (f.exists, "expr:exists-over-bgp"),
            (f.ebv_illtyped_numeric, "expr:ebv-of-ill-typed-numeric"),
            (f.if_cond_error, "expr:if-condition-error"),
            (f.graph_var_in_expr, "graph:var-read-in-inner-expression"),
            (f.graph_over_empty_group, "graph:over-empty-group"),
            (f.nested_project_drop, "subselect:drops-variable"),
            (f.coalesce_skip, "expr:coalesce-skips-error"),
        ] {
            if on {
                ctx.class(name);
            }
        }
        let (ntp, nops) = count_tps(pattern);
        ctx.class(match rows.len() {
            0 => "solutions:0",
            1 => "solutions:1",
            _ => "solutions:2+",
        });
        if (ntp >= 2 || nops >= 1) && !rows.is_empty() {
            ctx.nontrivial();
        }
        // trigger-keyed signature for any mismatch
        let sig = |what: &str| -> String {
            if f.graph_var_in_expr {
                "graph-var/read-by-inner-expression".into()
            } else if f.nested_project_drop {
                "subselect/projected-away-variable-visible".into()
            } else if f.if_cond_error {
                "if/condition-without-ebv".into()
            } else if f.logic_rescue {
                "filter/logical-op-with-error-operand".into()
            } else if f.ebv_illtyped_numeric {
                "ebv/ill-typed-numeric".into()
            } else if f.graph_over_empty_group {
                "graph/over-empty-group".into()
            } else {
                let mut o: Vec<&str> = ops.iter().copied().filter(|o| o.starts_with("op:") && *o != "op:bgp" && *o != "op:bgp-2+").collect();
                if o.is_empty() {
                    o.push("op:bgp");
                }
                format!("eval/{what}/{}", o.join("+"))
            }
        };
        match (kind, outcome) {
            ("ask", Outcome::Bool(b)) => {
                // the answer is about the sequence *after* the outermost OFFSET / LIMIT
                let mut left = rows.len();
                if let Some((start, length)) = slice {
                    ctx.class("ask-with-slice");
                    left = left.saturating_sub(start);
                    if let Some(l) = length {
                        left = left.min(l);
                    }
                }
                let exp = left > 0;
                if b != exp {
                    ctx.fail(sig("ask"), format!("ASK answered {b}, the algebra gives {exp} ({} solutions before the slice {slice:?})\n{}", rows.len(), data()));
                }
            }
            ("select", Outcome::Rows { vars, rows: got }) => {
                let pvars: Vec<String> = match top_project(body) {
                    Some(v) => v,
                    None => {
                        ctx.class("skipped:no-top-projection");
                        return;
                    }
                };
                let mut a = vars.clone();
                a.sort();
                let mut b = pvars.clone();
                b.sort();
                if a != b {
                    ctx.fail("select/variables", format!("variables() = {vars:?}, projection = {pvars:?}\n{}", data()));
                    return;
                }
                let mut exp: Vec<Vec<Option<MT>>> = rows.iter().map(|mu| vars.iter().map(|v| mu.get(v).cloned()).collect()).collect();
                let mut got = got;
                let key = |r: &Vec<Option<MT>>| r.iter().map(|t| t.as_ref().map(MT::show).unwrap_or_default()).collect::<Vec<_>>();
                exp.sort_by_key(key);
                got.sort_by_key(key);
                let same_row = |x: &Vec<Option<MT>>, y: &Vec<Option<MT>>| {
                    x.iter().zip(y.iter()).all(|(p, q)| match (p, q) {
                        (None, None) => true,
                        (Some(p), Some(q)) => p.same_repr(q),
                        _ => false,
                    })
                };
                match slice {
                    None => {
                        let ok = exp.len() == got.len() && exp.iter().zip(got.iter()).all(|(x, y)| same_row(x, y));
                        if !ok {
                            ctx.fail(sig("select"), format!("solution multisets differ\n  engine ({}):\n    {}\n  algebra ({}):\n    {}\n{}", got.len(), show_rows(&vars, &got), exp.len(), show_rows(&vars, &exp), data()));
                        }
                    }
                    Some((start, length)) => {
                        let avail = exp.len().saturating_sub(start);
                        let n = length.map(|l| l.min(avail)).unwrap_or(avail);
                        // sub-multiset check (both sorted)
                        let mut pool = exp.clone();
                        let mut sub = true;
                        for r in &got {
                            match pool.iter().position(|x| same_row(x, r)) {
                                Some(i) => {
                                    pool.remove(i);
                                }
                                None => sub = false,
                            }
                        }
                        if got.len() != n || !sub {
                            ctx.fail(
                                format!("slice/{}", sig("select")),
                                format!("OFFSET {start} LIMIT {length:?}: engine returned {} rows (expected {n}), sub-multiset of the unsliced result: {sub}\n  engine:\n    {}\n  unsliced algebra result ({}):\n    {}\n{}", got.len(), show_rows(&vars, &got), exp.len(), show_rows(&vars, &exp), data()),
                            );
                        }
                    }
                }
            }
            (_, other) => {
                ctx.fail(sig("error"), format!("supported query did not produce a result: {}\n{}", brief(&other), data()));
            }
        }
    }
}

fn brief(o: &Outcome) -> String {
    match o {
        Outcome::Rows { rows, .. } => format!("Ok({} rows)", rows.len()),
        Outcome::Bool(b) => format!("Ok({b})"),
        Outcome::NotImpl(s) => format!("Err(NotImplemented({s}))"),
        Outcome::OtherErr(s) => format!("Err({s})"),
        Outcome::Panic(p) => format!("panic {p}"),
    }
}

fn top_project(p: &GraphPattern) -> Option<Vec<String>> {
    match p {
        GraphPattern::Project { variables, .. } => Some(variables.iter().map(|v| v.as_str().to_string()).collect()),
        GraphPattern::Distinct { inner } | GraphPattern::Slice { inner, .. } => top_project(inner),
        _ => None,
    }
}

/// is the (first) unsupported thing an unimplemented function rather than an algebra operator?
fn unsupported_pattern_is_function(p: &GraphPattern) -> bool {
    fn strip(p: &GraphPattern) -> Option<&'static str> {
        use GraphPattern::*;
        match p {
            Bgp { .. } => None,
            Filter { inner, .. } | Graph { inner, .. } | Extend { inner, .. } | OrderBy { inner, .. } | Project { inner, .. } | Distinct { inner } | Slice { inner, .. } => strip(inner),
            Union { left, right } => strip(left).or_else(|| strip(right)),
            _ => Some("op"),
        }
    }
    strip(p).is_none()
}

pub fn main(opts: &Opts) -> i32 {
    drive::<C13>(opts)
}
pub fn worker(_args: &[String]) -> i32 {
    2
}
