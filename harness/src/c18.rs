//! C18 — RDF/XML serialisation round-trips every graph it accepts.
//!
//! Statement (properties.jsonl): serialising a graph to RDF/XML either fails with an error or
//! produces a well-formed document whose parse is isomorphic to the graph restricted to the
//! triples RDF/XML can express; for graphs whose predicates can be written as XML qualified
//! names and whose text contains only XML-legal characters it always succeeds and loses
//! nothing. Indentation settings never change the parsed result.
//!
//! Oracle pieces written here, independent of sophia / rio_xml / quick-xml:
//!  * XML 1.0 character classes (Char, NameStartChar, NameChar) and "ends with an NCName";
//!  * a small XML 1.0 well-formedness checker (prolog, elements, attributes, references);
//!  * the set of RDF names that RDF/XML forbids (or re-interprets) as property elements;
//!  * exact isomorphism (`iso::iso_exact`).
use crate::engine::*;
use crate::gen::{bnode_labels_exotic, bnode_labels_plain, tags};
use crate::iso::{diff_summary, iso_exact};
use crate::model::*;
use proptest::prelude::*;
use serde::{Deserialize, Serialize};
use sophia_api::serializer::{Stringifier, TripleSerializer};
use sophia_api::source::TripleSource;
use sophia_api::term::SimpleTerm;
use sophia_xml::serializer::{RdfXmlConfig, RdfXmlSerializer};
use std::collections::BTreeSet;

#[derive(Clone, Debug, Serialize, Deserialize)]
pub struct Case {
    pub triples: Vec<MQ>,
    /// second indentation (1..=8); indentation 0 is always exercised as well
    pub indent: u8,
}

pub struct C18;

// ------------------------------------------------------------------ XML 1.0 character classes

/// XML 1.0 (5th ed.) production [2] Char
pub fn is_xml_char(c: char) -> bool {
    matches!(c, '\u{9}' | '\u{A}' | '\u{D}' | '\u{20}'..='\u{D7FF}' | '\u{E000}'..='\u{FFFD}' | '\u{10000}'..='\u{10FFFF}')
}
/// production [4] NameStartChar (includes ':')
fn is_name_start(c: char) -> bool {
    matches!(c, ':' | 'A'..='Z' | '_' | 'a'..='z'
        | '\u{C0}'..='\u{D6}' | '\u{D8}'..='\u{F6}' | '\u{F8}'..='\u{2FF}' | '\u{370}'..='\u{37D}'
        | '\u{37F}'..='\u{1FFF}' | '\u{200C}'..='\u{200D}' | '\u{2070}'..='\u{218F}' | '\u{2C00}'..='\u{2FEF}'
        | '\u{3001}'..='\u{D7FF}' | '\u{F900}'..='\u{FDCF}' | '\u{FDF0}'..='\u{FFFD}' | '\u{10000}'..='\u{EFFFF}')
}
/// production [4a] NameChar
fn is_name_char(c: char) -> bool {
    is_name_start(c) || matches!(c, '-' | '.' | '0'..='9' | '\u{B7}' | '\u{300}'..='\u{36F}' | '\u{203F}'..='\u{2040}')
}
fn is_ncname(s: &str) -> bool {
    let mut it = s.chars();
    match it.next() {
        Some(c) if c != ':' && is_name_start(c) => it.all(|c| c != ':' && is_name_char(c)),
        _ => false,
    }
}
/// Can the IRI be written as namespace-name + NCName (i.e. as an XML qualified name)?
/// True iff some proper suffix is an NCName: the trailing run of (non-colon) NameChars
/// contains a (non-colon) NameStartChar.
pub fn qname_able(iri: &str) -> bool {
    for c in iri.chars().rev() {
        if c == ':' || !is_name_char(c) {
            return false;
        }
        if is_name_start(c) {
            return true;
        }
    }
    false
}

/// RDF names that cannot be used as property element names to denote themselves
/// (RDF/XML Syntax 5.1: coreSyntaxTerms | rdf:Description | oldTerms are forbidden as
/// propertyElementURIs; rdf:li is allowed but *means* rdf:_n).
const RESERVED_LOCAL: &[&str] = &[
    "RDF", "ID", "about", "parseType", "resource", "nodeID", "datatype", "Description", "aboutEach", "aboutEachPrefix", "bagID",
    "li",
];
fn is_reserved_pred(iri: &str) -> bool {
    iri.strip_prefix(RDF).map(|l| RESERVED_LOCAL.contains(&l)).unwrap_or(false)
}

// ------------------------------------------------------------------ XML well-formedness checker

struct Xml<'a> {
    s: &'a [char],
    i: usize,
}
type XR<T> = Result<T, String>;
impl<'a> Xml<'a> {
    fn peek(&self) -> Option<char> {
        self.s.get(self.i).copied()
    }
    fn starts(&self, p: &str) -> bool {
        let pc: Vec<char> = p.chars().collect();
        self.s.len() >= self.i + pc.len() && self.s[self.i..self.i + pc.len()] == pc[..]
    }
    fn eat(&mut self, p: &str) -> bool {
        if self.starts(p) {
            self.i += p.chars().count();
            true
        } else {
            false
        }
    }
    fn err<T>(&self, m: &str) -> XR<T> {
        Err(format!("{m} at char offset {}", self.i))
    }
    fn ws(&mut self) -> bool {
        let st = self.i;
        while matches!(self.peek(), Some(' ' | '\t' | '\n' | '\r')) {
            self.i += 1;
        }
        self.i > st
    }
    fn name(&mut self) -> XR<String> {
        let st = self.i;
        match self.peek() {
            Some(c) if is_name_start(c) => self.i += 1,
            _ => return self.err("expected a Name"),
        }
        while matches!(self.peek(), Some(c) if is_name_char(c)) {
            self.i += 1;
        }
        Ok(self.s[st..self.i].iter().collect())
    }
    /// after '&'
    fn reference(&mut self) -> XR<()> {
        if self.eat("#x") {
            let st = self.i;
            while matches!(self.peek(), Some(c) if c.is_ascii_hexdigit()) {
                self.i += 1;
            }
            let h: String = self.s[st..self.i].iter().collect();
            if h.is_empty() || !self.eat(";") {
                return self.err("malformed character reference");
            }
            let v = u32::from_str_radix(&h, 16).map_err(|e| e.to_string())?;
            match char::from_u32(v) {
                Some(c) if is_xml_char(c) => Ok(()),
                _ => self.err("character reference to a non-Char"),
            }
        } else if self.eat("#") {
            let st = self.i;
            while matches!(self.peek(), Some(c) if c.is_ascii_digit()) {
                self.i += 1;
            }
            let h: String = self.s[st..self.i].iter().collect();
            if h.is_empty() || !self.eat(";") {
                return self.err("malformed character reference");
            }
            let v: u32 = h.parse().map_err(|_| "bad char ref".to_string())?;
            match char::from_u32(v) {
                Some(c) if is_xml_char(c) => Ok(()),
                _ => self.err("character reference to a non-Char"),
            }
        } else {
            let n = self.name()?;
            if !self.eat(";") {
                return self.err("entity reference without ';'");
            }
            if ["lt", "gt", "amp", "apos", "quot"].contains(&n.as_str()) {
                Ok(())
            } else {
                self.err("reference to an undeclared entity")
            }
        }
    }
    fn att_value(&mut self) -> XR<()> {
        let q = match self.peek() {
            Some(c @ ('"' | '\'')) => c,
            _ => return self.err("expected a quoted attribute value"),
        };
        self.i += 1;
        loop {
            match self.peek() {
                None => return self.err("unterminated attribute value"),
                Some(c) if c == q => {
                    self.i += 1;
                    return Ok(());
                }
                Some('<') => return self.err("'<' in attribute value"),
                Some('&') => {
                    self.i += 1;
                    self.reference()?
                }
                Some(_) => self.i += 1,
            }
        }
    }
    fn attributes(&mut self) -> XR<Vec<String>> {
        let mut names = vec![];
        loop {
            let had_ws = self.ws();
            match self.peek() {
                Some('>') | Some('/') | Some('?') => return Ok(names),
                _ => {}
            }
            if !had_ws {
                return self.err("expected white space before attribute");
            }
            let n = self.name()?;
            if names.contains(&n) {
                return self.err("duplicate attribute");
            }
            names.push(n);
            self.ws();
            if !self.eat("=") {
                return self.err("expected '='");
            }
            self.ws();
            self.att_value()?;
        }
    }
    fn misc(&mut self) -> XR<()> {
        loop {
            self.ws();
            if self.starts("<!--") {
                self.comment()?;
            } else if self.starts("<?") {
                self.pi()?;
            } else {
                return Ok(());
            }
        }
    }
    fn comment(&mut self) -> XR<()> {
        self.eat("<!--");
        loop {
            if self.eat("-->") {
                return Ok(());
            }
            if self.starts("--") {
                return self.err("'--' in comment");
            }
            if self.peek().is_none() {
                return self.err("unterminated comment");
            }
            self.i += 1;
        }
    }
    fn pi(&mut self) -> XR<()> {
        self.eat("<?");
        let n = self.name()?;
        if n.eq_ignore_ascii_case("xml") {
            return self.err("reserved PI target");
        }
        loop {
            if self.eat("?>") {
                return Ok(());
            }
            if self.peek().is_none() {
                return self.err("unterminated PI");
            }
            self.i += 1;
        }
    }
    fn element(&mut self, depth: usize) -> XR<()> {
        if depth > 200 {
            return self.err("too deep");
        }
        if !self.eat("<") {
            return self.err("expected '<'");
        }
        let n = self.name()?;
        self.attributes()?;
        if self.eat("/>") {
            return Ok(());
        }
        if !self.eat(">") {
            return self.err("expected '>'");
        }
        loop {
            match self.peek() {
                None => return self.err("unterminated element"),
                Some('<') => {
                    if self.starts("</") {
                        self.eat("</");
                        let e = self.name()?;
                        if e != n {
                            return self.err("mismatched end tag");
                        }
                        self.ws();
                        if !self.eat(">") {
                            return self.err("expected '>' in end tag");
                        }
                        return Ok(());
                    } else if self.starts("<!--") {
                        self.comment()?;
                    } else if self.starts("<![CDATA[") {
                        self.eat("<![CDATA[");
                        loop {
                            if self.eat("]]>") {
                                break;
                            }
                            if self.peek().is_none() {
                                return self.err("unterminated CDATA");
                            }
                            self.i += 1;
                        }
                    } else if self.starts("<?") {
                        self.pi()?;
                    } else {
                        self.element(depth + 1)?;
                    }
                }
                Some('&') => {
                    self.i += 1;
                    self.reference()?
                }
                Some(_) => {
                    if self.starts("]]>") {
                        return self.err("']]>' in character data");
                    }
                    self.i += 1;
                }
            }
        }
    }
}

/// Is `doc` a well-formed XML 1.0 document (no DTD expected)?
pub fn well_formed(doc: &str) -> Result<(), String> {
    if let Some((i, c)) = doc.char_indices().find(|(_, c)| !is_xml_char(*c)) {
        return Err(format!("character U+{:04X} at byte {i} is not an XML Char", c as u32));
    }
    let chars: Vec<char> = doc.chars().collect();
    let mut x = Xml { s: &chars, i: 0 };
    if x.eat("<?xml") {
        let atts = x.attributes()?;
        if atts.first().map(String::as_str) != Some("version") {
            return x.err("XML declaration without version");
        }
        if !x.eat("?>") {
            return x.err("unterminated XML declaration");
        }
    }
    x.misc()?;
    if x.starts("<!DOCTYPE") {
        return x.err("unexpected DOCTYPE");
    }
    x.element(0)?;
    x.misc()?;
    if x.peek().is_some() {
        return x.err("content after the root element");
    }
    Ok(())
}

// ------------------------------------------------------------------ classification of the input

fn strict_plain(t: &MQ) -> bool {
    (t.s.is_iri() || t.s.is_bnode()) && t.p.is_iri() && (t.o.is_iri() || t.o.is_bnode() || t.o.is_literal())
}
fn text_legal(t: &MQ) -> bool {
    t.o.lexical().map(|l| l.chars().all(is_xml_char)).unwrap_or(true)
}
fn pred(t: &MQ) -> &str {
    match &t.p {
        MT::Iri(i) => i,
        _ => "",
    }
}
#[derive(PartialEq, Eq, Clone, Copy, Debug)]
enum Expr {
    /// RDF/XML can express it
    Yes,
    /// cannot be expressed in standard RDF/XML, but a serializer may find a non-standard way
    /// that its own parser reads back (predicate with no NCName suffix): either outcome accepted
    Unclear,
    No,
}
fn expressible(t: &MQ) -> Expr {
    if !strict_plain(t) || !text_legal(t) || is_reserved_pred(pred(t)) {
        Expr::No
    } else if !qname_able(pred(t)) {
        Expr::Unclear
    } else {
        Expr::Yes
    }
}

fn triggers(ts: &[MQ]) -> Vec<&'static str> {
    let mut v = vec![];
    let mut add = |c: bool, n: &'static str| {
        if c && !v.contains(&n) {
            v.push(n)
        }
    };
    add(ts.iter().any(|t| t.s.is_triple() || t.o.is_triple()), "quoted-triple");
    add(ts.iter().any(|t| !text_legal(t)), "illegal-xml-char");
    add(ts.iter().any(|t| is_reserved_pred(pred(t))), "reserved-rdf-name-predicate");
    add(
        ts.iter().any(|t| t.bnodes().iter().any(|b| !is_ncname(b)) && !t.s.is_triple() && !t.o.is_triple()),
        "bnode-label-not-ncname",
    );
    add(ts.iter().any(|t| t.p.is_iri() && !qname_able(pred(t))), "unsplittable-predicate");
    add(ts.iter().any(|t| t.o.lexical().is_some_and(|l| l.contains('\r'))), "literal-cr");
    add(
        ts.iter().any(|t| t.o.lexical().is_some_and(|l| !l.is_empty() && l.chars().all(char::is_whitespace))),
        "literal-whitespace-only",
    );
    add(
        ts.iter().any(|t| t.o.lexical().is_some_and(|l| l.starts_with(char::is_whitespace) || l.ends_with(char::is_whitespace))),
        "literal-edge-whitespace",
    );
    add(ts.iter().any(|t| t.o.lexical().is_some_and(|l| l.contains(['<', '>', '&', '"', '\'']))), "literal-markup");
    add(ts.iter().any(|t| t.o.lexical().is_some_and(|l| l.is_empty())), "literal-empty");
    add(ts.iter().any(|t| t.o.datatype() == Some(&rdf("XMLLiteral")[..])), "xmlliteral");
    add(ts.iter().any(|t| t.o.tag().is_some()), "language-tag");
    add(ts.iter().any(|t| t.s.is_bnode() || t.o.is_bnode()), "blank-node");
    add(true, "plain");
    v
}

fn sig(kind: &str, trig: &[&'static str]) -> String {
    let t = trig[0];
    match t {
        "illegal-xml-char" | "reserved-rdf-name-predicate" | "bnode-label-not-ncname" => format!("xml/{t}"),
        _ => format!("xml/{kind}/{t}"),
    }
}

fn serialize(ts: &[[SimpleTerm<'static>; 3]], indent: usize) -> Result<Result<String, String>, String> {
    catch(|| {
        let cfg = RdfXmlConfig::new().with_indentation(indent);
        let mut ser = RdfXmlSerializer::new_stringifier_with_config(cfg);
        match ser.serialize_graph(&ts.to_vec()) {
            Ok(s) => Ok(s.to_string()),
            Err(e) => Err(format!("{e}")),
        }
    })
}
fn parse(doc: &str) -> Result<Result<Vec<MQ>, String>, String> {
    catch(|| {
        let r: Result<Vec<[SimpleTerm<'static>; 3]>, _> = sophia_xml::parser::parse_str(doc).collect_triples();
        match r {
            Ok(v) => Ok(v.iter().map(|t| MQ::new(MT::from_term(&t[0]), MT::from_term(&t[1]), MT::from_term(&t[2]), None)).collect()),
            Err(e) => Err(format!("{e}")),
        }
    })
}

/// Is `parsed` isomorphic to yes ∪ U' for some U' ⊆ unclear ?
fn matches_restriction(yes: &[MQ], unclear: &[MQ], parsed: &[MQ]) -> bool {
    let n = unclear.len().min(6);
    // full set first (the common outcome), then the empty one, then the rest
    let mut masks: Vec<u32> = vec![(1u32 << n) - 1, 0];
    masks.extend(1..(1u32 << n) - 1);
    masks.dedup();
    let mut seen = BTreeSet::new();
    for m in masks {
        if !seen.insert(m) {
            continue;
        }
        let mut exp = yes.to_vec();
        for (i, t) in unclear.iter().enumerate() {
            if i >= n || m & (1 << i) != 0 {
                exp.push(t.clone());
            }
        }
        if iso_exact(&exp, parsed) {
            return true;
        }
    }
    false
}

impl Check for C18 {
    fn fixed_cases(_tier: Tier, _seed: u64) -> Vec<Case> {
        // large documents (tens of KiB): buffering must not lose or merge statements
        [(150usize, 1u64, 0u8), (600, 2, 4), (2000, 3, 2)]
            .into_iter()
            .map(|(n, salt, indent)| Case { triples: crate::gen::bulk_quads(n, salt, false), indent: indent.max(1) })
            .collect()
    }
    type Case = Case;
    const ID: &'static str = "C18";
    fn rule() -> String {
        "graphs of 0..8 triples over dense pools (IRI/blank subjects sharing and alternating, predicates with many namespace split points, literals over XML-legal markup/whitespace/non-BMP characters, tags, datatypes incl. rdf:XMLLiteral; at low weight: RDF/XML-reserved predicate names, predicates with no NCName suffix, XML-illegal characters, non-NCName blank labels, quoted triples), serialised at indentation 0 and k in 1..8. Oracle: Err, or own XML 1.0 well-formedness check + sophia_xml parse + exact isomorphism with the expressible part; must-succeed class (QName-able non-reserved predicates, legal text, no quoted triple) must be Ok and lossless; parse(k) isomorphic to parse(0). Non-trivial = graph with a literal containing markup/whitespace-edge/CR/LF/TAB characters, or an unusual predicate split, or a non-NCName blank label; distinct by hash of the whole case.".into()
    }
    fn assumptions() -> Vec<String> {
        vec![
            "the parse judged is sophia_xml::parser (the property's observation point); a raw CR in character data (which a conforming XML processor would normalise to LF) is only counted (counter raw-cr-in-output)".into(),
            "well-formedness is XML 1.0 well-formedness; element names like 'prop:' (legal XML 1.0 Name, not a Namespaces-QName) are only counted (counter non-qname-element)".into(),
            "a triple whose predicate has no NCName suffix is outside standard RDF/XML: both dropping it and round-tripping it are accepted; an Err is accepted too".into(),
            "predicates rdf:li, rdf:Description, rdf:RDF, rdf:ID, rdf:about, rdf:parseType, rdf:resource, rdf:nodeID, rdf:datatype, rdf:aboutEach, rdf:aboutEachPrefix, rdf:bagID cannot be expressed by RDF/XML (RDF/XML Syntax 5.1): accepted outcomes are Err or a document that parses to the graph without those triples".into(),
            "language tags are compared case-insensitively".into(),
        ]
    }
    fn cases(tier: Tier) -> u32 {
        tier.pick(300_000, 9_600_000)
    }
    fn strategy(_tier: Tier) -> BoxedStrategy<Case> {
        strategy()
    }
    fn run(case: &Case, ctx: &mut Ctx) {
        run(case, ctx)
    }
}

fn subj_iris() -> Vec<String> {
    ["http://x/a", "http://x/b", "http://x/a?b=1&c=2", "http://x/it's", "http://é.example/ç?q=é#frag", "urn:x:y"]
        .iter()
        .map(|s| s.to_string())
        .collect()
}
fn preds_ok() -> Vec<String> {
    let mut v: Vec<String> = [
        "http://x/ns#p",
        "http://x/ns/r",
        "http://x/p1",
        "http://x/p_",
        "http://x/p-",
        "http://x/p.",
        "http://x/1p",
        "http://x/-p",
        "http://x/p-1.2",
        "http://x/ns#_1",
        "urn:x:y",
        "tag:t",
        "http://x/é",
        "http://x/a\u{b7}b",
        "http://x/?q=v",
        "http://x/a?b=1&c",
        "http://x/a'b",
        "http://x/\u{10000}x",
        "http://x/a_b-c.d",
        "http://x/ns#P",
        // local names ending with NameChars that are not Unicode-alphanumeric (combining mark,
        // middle dot, undertie) or with NameStartChars that are symbols / non-BMP
        "http://x/cafe\u{301}",
        "http://x/a\u{b7}",
        "http://x/p\u{203f}",
        "http://x/\u{20ac}",
        "http://x/p\u{1F600}",
        "http://x/\u{915}\u{93e}",
        "http://x/\u{e01}\u{e34}",
    ]
    .iter()
    .map(|s| s.to_string())
    .collect();
    for l in ["type", "_1", "value", "first", "rest", "_12"] {
        v.push(rdf(l));
    }
    v.push(format!("{RDFS}label"));
    v
}
fn preds_unsplittable() -> Vec<String> {
    ["http://x/p/", "http://x/ns#", "http://x/1", "http://x/-1", "http://x/a%20", "http://x/p:", "http://x/?q=1", "http://x/.5"]
        .iter()
        .map(|s| s.to_string())
        .collect()
}
fn preds_reserved() -> Vec<String> {
    RESERVED_LOCAL.iter().map(|l| rdf(l)).collect()
}
const LEGAL: &[&str] = &[
    "<", ">", "&", "\"", "'", " ", " ", "\n", "\t", "\r", "\r\n", "]]>", "&amp;", "&#1;", "<!--", "-->", "<?x ?>", "a", "b", "é", "\u{1F600}",
    "\u{85}", "\u{2028}", "\u{FFFD}", "\u{D7FF}", "\u{E000}", "\u{10FFFF}", "\u{7f}", "\u{a0}", "\u{301}", "<a>", "</p>", "x y", "<![CDATA[",
];
const ILLEGAL: &[&str] = &["\u{0}", "\u{1}", "\u{8}", "\u{b}", "\u{c}", "\u{1f}", "\u{FFFE}", "\u{FFFF}"];

fn lex(dirty: bool) -> BoxedStrategy<String> {
    let legal = prop::collection::vec(pick(LEGAL.to_vec()), 0..=6).prop_map(|v| v.concat());
    let simple = pick(vec!["", "a", "hello world", "42", " a ", "\n a\n", "<b>x</b>", "a&b", " "]).prop_map(String::from);
    let illegal = (prop::collection::vec(pick(LEGAL.to_vec()), 0..=2), pick(ILLEGAL.to_vec()), prop::collection::vec(pick(LEGAL.to_vec()), 0..=2))
        .prop_map(|(a, b, c)| format!("{}{}{}", a.concat(), b, c.concat()));
    let any = prop::collection::vec(any::<char>(), 0..=5).prop_map(|v| v.into_iter().collect::<String>());
    // long texts (tens to hundreds of bytes) of 1-, 2-, 3- and 4-byte characters, so that every byte
    // offset of a message / buffer boundary falls inside a character in some case
    let long = (prop::collection::vec(pick(vec!["a", "é", "€", "\u{1F600}", " ", "<", "&"]), 1..=3), 8usize..90, 0usize..4)
        .prop_map(|(unit, times, lead)| format!("{}{}", "x".repeat(lead), unit.concat().repeat(times)));
    if dirty {
        let long_illegal = (long.clone(), pick(ILLEGAL.to_vec()), prop::bool::ANY).prop_map(|(l, b, front)| if front { format!("{b}{l}") } else { format!("{l}{b}") });
        prop_oneof![5 => simple, 10 => legal, 1 => illegal, 1 => any, 1 => long, 1 => long_illegal].boxed()
    } else {
        let legal = prop_oneof![10 => legal, 1 => long].boxed();
        let any_legal = any.prop_map(|s| s.chars().filter(|c| is_xml_char(*c)).collect::<String>());
        prop_oneof![5 => simple, 10 => legal, 1 => any_legal].boxed()
    }
}
fn dts() -> Vec<String> {
    vec![xsd("string"), xsd("integer"), rdf("XMLLiteral"), "http://x/dt?a=1&b=2".into(), rdf("HTML"), xsd("double")]
}

fn strategy() -> BoxedStrategy<Case> {
    prop_oneof![3 => strategy_for(false), 1 => strategy_for(true)].boxed()
}
fn strategy_for(dirty: bool) -> BoxedStrategy<Case> {
    let mut bl = bnode_labels_plain()[..3].to_vec();
    let bl_exotic = {
        let mut e = bnode_labels_exotic();
        e.push("1.a".into());
        e.push("_1.a".into());
        e.push("_0x".into());
        e
    };
    bl.push("_".into());
    let bnode = prop_oneof![5 => pick(bl).prop_map(MT::Bnode), 1 => pick(bl_exotic).prop_map(MT::Bnode)].boxed();
    let iri = pick(subj_iris()).prop_map(MT::Iri).boxed();
    let lit = prop_oneof![
        4 => lex(dirty).prop_map(MT::string),
        2 => (lex(dirty), prop_oneof![5 => pick(dts()), 1 => pick(crate::gen::near_miss_datatypes())]).prop_map(|(l, d)| MT::Lit(l, d)),
        2 => (lex(dirty), pick(tags())).prop_map(|(l, t)| MT::Lang(l, t)),
    ]
    .boxed();
    let p = if dirty {
        prop_oneof![
            40 => pick(preds_ok()),
            3 => pick(preds_unsplittable()),
            2 => pick(preds_reserved()),
        ]
        .prop_map(MT::Iri)
        .boxed()
    } else {
        pick(preds_ok()).prop_map(MT::Iri).boxed()
    };
    let quoted = (iri.clone(), pick(preds_ok()).prop_map(MT::Iri), iri.clone()).prop_map(|(s, p, o)| MT::triple(s, p, o)).boxed();
    let qw = if dirty { 1 } else { 0 };
    let s = prop_oneof![30 => iri.clone(), 20 => bnode.clone(), qw => quoted.clone()].boxed();
    let o = prop_oneof![10 => iri, 10 => bnode, 30 => lit, qw => quoted].boxed();
    let triple = (s, p, o).prop_map(|(s, p, o)| MQ::new(s, p, o, None));
    (prop::collection::vec(triple, 0..=8), 1u8..=8).prop_map(|(triples, indent)| Case { triples, indent }).boxed()
}

fn run(case: &Case, ctx: &mut Ctx) {
    let ts = &case.triples;
    let trig = triggers(ts);
    for t in &trig {
        ctx.class(format!("has:{t}"));
    }
    // predicate split classes
    for t in ts {
        if t.p.is_iri() && qname_able(pred(t)) {
            let p = pred(t);
            let last = p.chars().last().unwrap();
            if last.is_ascii_digit() || matches!(last, '_' | '-' | '.') {
                ctx.class("pred-split:tail-digit-or-punct");
            }
            if !p.contains('#') && !p.starts_with("http") {
                ctx.class("pred-split:no-slash-no-hash");
            }
        }
    }
    let yes: Vec<MQ> = ts.iter().filter(|t| expressible(t) == Expr::Yes).cloned().collect();
    let unclear: Vec<MQ> = ts.iter().filter(|t| expressible(t) == Expr::Unclear).cloned().collect();
    let must_succeed = yes.len() == ts.len();
    ctx.class(if must_succeed { "class:must-succeed" } else { "class:may-fail" });
    ctx.count("triples", ts.len() as u64);
    ctx.count("triples-inexpressible", (ts.len() - yes.len() - unclear.len()) as u64);
    let unusual_split = ts.iter().any(|t| {
        let p = pred(t);
        t.p.is_iri() && qname_able(p) && {
            // "usual" = NCName starts right after the last '#' or '/' and ends with a letter
            let cut = p.rfind(['#', '/']).map(|i| i + 1).unwrap_or(0);
            !is_ncname(&p[cut..]) || !p.chars().last().unwrap().is_alphabetic()
        }
    });
    let nasty_lit = ts.iter().any(|t| {
        t.o.lexical().is_some_and(|l| {
            l.contains(['<', '>', '&', '"', '\'', '\r', '\n', '\t']) || l.starts_with(' ') || l.ends_with(' ')
        })
    });
    if !ts.is_empty() && (unusual_split || nasty_lit || trig.contains(&"bnode-label-not-ncname")) {
        ctx.nontrivial();
    }

    let g: Vec<[SimpleTerm<'static>; 3]> = ts.iter().map(MQ::to_triple).collect();
    let mut parsed0: Option<Vec<MQ>> = None;
    let mut outcomes = vec![];
    for (round, k) in [0usize, case.indent as usize].into_iter().enumerate() {
        let doc = match serialize(&g, k) {
            Err(p) => {
                ctx.fail(sig("panic-serialize", &trig), format!("serializer panicked at indentation {k}: {p}\ninput:\n{}", show_quads(ts)));
                return;
            }
            Ok(Err(e)) => {
                outcomes.push(false);
                ctx.class("outcome:err");
                if must_succeed {
                    ctx.fail(
                        sig("error-on-expressible-graph", &trig),
                        format!("indentation {k}: serializer failed ({e}) on a graph whose predicates are QName-able and whose text is XML-legal\ninput:\n{}", show_quads(ts)),
                    );
                    return;
                }
                continue;
            }
            Ok(Ok(d)) => d,
        };
        // the document must not depend on the writer (block-structured short writes)
        if round == 0 {
            let other = catch(|| {
                struct Block(std::rc::Rc<std::cell::RefCell<Vec<u8>>>);
                impl std::io::Write for Block {
                    fn write(&mut self, b: &[u8]) -> std::io::Result<usize> {
                        let mut v = self.0.borrow_mut();
                        let n = b.len().min(19 - v.len() % 19);
                        v.extend_from_slice(&b[..n]);
                        Ok(n)
                    }
                    fn flush(&mut self) -> std::io::Result<()> {
                        Ok(())
                    }
                }
                let sink = std::rc::Rc::new(std::cell::RefCell::new(vec![]));
                let r = {
                    let mut ser = RdfXmlSerializer::new_with_config(Block(sink.clone()), RdfXmlConfig::new().with_indentation(k));
                    ser.serialize_graph(&g).map(|_| ()).map_err(|e| e.to_string())
                };
                let got = sink.borrow().clone();
                (r, got)
            });
            match other {
                Ok((Ok(()), got)) if got == doc.as_bytes() => {}
                Ok((r, got)) => {
                    ctx.fail(
                        "xml/output-depends-on-writer".to_string(),
                        format!("a writer doing short writes received {} bytes ({r:?}), the stringifier produced {}\ninput:\n{}", got.len(), doc.len(), show_quads(ts)),
                    );
                    return;
                }
                Err(p) => {
                    ctx.fail("xml/output-depends-on-writer".to_string(), format!("serialising to a writer doing short writes panicked: {p}"));
                    return;
                }
            }
        }
        outcomes.push(true);
        ctx.class("outcome:ok");
        if doc.contains('\r') {
            ctx.count("raw-cr-in-output", 1);
        }
        if doc.contains("<prop:") {
            ctx.count("non-qname-element", 1);
        }
        if let Err(e) = well_formed(&doc) {
            ctx.fail(
                sig("not-well-formed", &trig),
                format!("indentation {k}: output is not a well-formed XML document: {e}\ninput:\n{}\noutput:\n{doc:?}", show_quads(ts)),
            );
            return;
        }
        let parsed = match parse(&doc) {
            Err(p) => {
                ctx.fail(sig("panic-parse", &trig), format!("parser panicked on serializer output: {p}\noutput:\n{doc}"));
                return;
            }
            Ok(Err(e)) => {
                ctx.fail(
                    sig("output-rejected-by-parser", &trig),
                    format!("indentation {k}: sophia_xml's parser rejects the serializer's output: {e}\ninput:\n{}\noutput:\n{doc}", show_quads(ts)),
                );
                return;
            }
            Ok(Ok(p)) => p,
        };
        if !matches_restriction(&yes, &unclear, &parsed) {
            let mut exp = yes.clone();
            exp.extend(unclear.iter().cloned());
            // Is the only difference that literals made of XML white space only came back empty?
            let blank_ws = |t: &MQ| {
                let mut t = t.clone();
                if let MT::Lit(l, _) | MT::Lang(l, _) = &mut t.o {
                    if !l.is_empty() && l.chars().all(|c| matches!(c, ' ' | '\t' | '\n' | '\r')) {
                        l.clear();
                    }
                }
                t
            };
            let yes_ws: Vec<MQ> = yes.iter().map(blank_ws).collect();
            let unclear_ws: Vec<MQ> = unclear.iter().map(blank_ws).collect();
            if trig.contains(&"literal-whitespace-only") && matches_restriction(&yes_ws, &unclear_ws, &parsed) {
                ctx.fail(
                    "xml/whitespace-only-literal",
                    format!(
                        "indentation {k}: a literal consisting of XML white space only is read back as the empty string\ninput:\n{}\nparsed:\n{}\noutput:\n{doc}",
                        show_quads(ts),
                        show_quads(&parsed)
                    ),
                );
                return;
            }
            ctx.fail(
                sig("not-isomorphic", &trig),
                format!(
                    "indentation {k}: parse of the output is not isomorphic to the expressible part of the graph\n{}\ninput:\n{}\nparsed:\n{}\noutput:\n{doc}",
                    diff_summary(&exp, &parsed),
                    show_quads(ts),
                    show_quads(&parsed)
                ),
            );
            return;
        }
        if round == 0 {
            parsed0 = Some(parsed);
        } else if let Some(p0) = &parsed0 {
            if !iso_exact(p0, &parsed) {
                ctx.fail(
                    sig("indentation-changes-parse", &trig),
                    format!("parse at indentation {k} differs from parse at indentation 0\n{}\noutput:\n{doc}", diff_summary(p0, &parsed)),
                );
                return;
            }
        }
    }
    if outcomes.len() == 2 && outcomes[0] != outcomes[1] {
        ctx.count("ok-err-differs-between-indentations", 1);
    }
}

pub fn main(opts: &Opts) -> i32 {
    drive::<C18>(opts)
}
pub fn worker(_args: &[String]) -> i32 {
    2
}
