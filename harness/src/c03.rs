//! C03 — N-Triples / N-Quads serialisation round-trips every dataset exactly.
//!
//! generator: strict / RDF-star datasets (0..12 quads) over grammar-generated IRIs, blank node
//!            labels, BCP47 tags, arbitrary Unicode lexical forms, nested quoted triples;
//! system:    NqSerializer / NtSerializer  ->  sophia nq / gnq / nt parsers;
//! oracle:    (1) the input itself (round trip, term by term, multiset comparison),
//!            (2) line structure of the text (one '\n'-terminated statement per line),
//!            (3) the independent W3C N-Quads reader `nqread` must read the same quads.
use crate::engine::*;
use crate::gen::*;
use crate::model::*;
use crate::nqread;
use proptest::prelude::*;
use serde::{Deserialize, Serialize};
use sophia_api::quad::Spog;
use sophia_api::serializer::{QuadSerializer, Stringifier, TripleSerializer};
use sophia_api::source::{QuadSource, TripleSource};
use sophia_api::term::{BnodeId, LanguageTag, SimpleTerm};
use sophia_turtle::parser::{gnq, nq, nt};
use sophia_turtle::serializer::nq::NqSerializer;
use sophia_turtle::serializer::nt::NtSerializer;

#[derive(Clone, Debug, Serialize, Deserialize)]
pub struct Case {
    pub quads: Vec<MQ>,
}

/// `n` simple statements of varying length (about 60-140 bytes per N-Quads line)
fn bulk_quads(n: usize, salt: u64) -> Vec<MQ> {
    (0..n)
        .map(|i| {
            let k = i as u64 * 2654435761 % 1000 + salt;
            let s = if i % 5 == 0 { MT::bn(format!("b{}", i / 3)) } else { MT::iri(format!("http://example.org/subject/{}", i / 3)) };
            let p = MT::iri(format!("http://example.org/vocab#p{}", i % 7));
            let o = match i % 4 {
                0 => MT::iri(format!("http://example.org/object/{k}")),
                1 => MT::string(format!("value {i} {}", "x".repeat((k % 40) as usize))),
                2 => MT::lang(format!("valeur \"{i}\"\n"), "fr"),
                _ => MT::lit(format!("{k}"), xsd("integer")),
            };
            let g = match i % 3 {
                0 => None,
                1 => Some(MT::iri(format!("http://example.org/graph/{}", i % 11))),
                _ => Some(MT::bn(format!("g{}", i % 2))),
            };
            MQ::new(s, p, o, g)
        })
        .collect()
}

pub struct C03;

// ---------------------------------------------------------------- generators

/// PN_CHARS_U | [0-9]   (without ':' which sophia's BnodeId does not accept)
fn label_first() -> Vec<char> {
    vec![
        'a', 'Z', '_', '0', '9', 'r', '\u{e9}', '\u{c0}', '\u{d6}', '\u{d8}', '\u{2ff}', '\u{370}', '\u{37d}', '\u{37f}',
        '\u{1fff}', '\u{200c}', '\u{200d}', '\u{2070}', '\u{218f}', '\u{2c00}', '\u{2fef}', '\u{3001}', '\u{d7ff}',
        '\u{f900}', '\u{fdcf}', '\u{fdf0}', '\u{fffd}', '\u{10000}', '\u{effff}', '\u{3b1}',
    ]
}
/// PN_CHARS
fn label_rest() -> Vec<char> {
    let mut v = label_first();
    v.extend(['-', '5', '\u{b7}', '\u{300}', '\u{36f}', '\u{203f}', '\u{2040}', 'b']);
    v
}
/// BLANK_NODE_LABEL as accepted by `BnodeId::new`: first (PN_CHARS | '.' PN_CHARS)*
fn label_gen() -> BoxedStrategy<String> {
    (
        pick(label_first()),
        prop::collection::vec((prop::bool::weighted(0.3), pick(label_rest())), 0..6),
    )
        .prop_map(|(f, rest)| {
            let mut s = String::new();
            s.push(f);
            for (dot, c) in rest {
                if dot {
                    s.push('.');
                }
                s.push(c);
            }
            s
        })
        .boxed()
}
fn label() -> BoxedStrategy<String> {
    let mut pool = bnode_labels_plain();
    pool.extend(bnode_labels_exotic());
    pool.extend(["a.b.c.d", "a-", "a.-", "0.0", "_._", "a\u{300}", "a.\u{b7}"].iter().map(|s| s.to_string()));
    prop_oneof![3 => pick(pool), 2 => label_gen()].boxed()
}

fn pchars() -> Vec<&'static str> {
    vec![
        "a", "Z", "0", "-", ".", "_", "~", "!", "$", "&", "'", "(", ")", "*", "+", ",", ";", "=", ":", "@", "%41", "%c3%A9",
        "%00", "%2F", "\u{e9}", "\u{a0}", "\u{d7ff}", "\u{f900}", "\u{fdcf}", "\u{fdf0}", "\u{ffef}", "\u{10000}", "\u{1fffd}",
        "\u{20000}", "\u{e1000}", "\u{efffd}", "\u{3b1}", "\u{301}",
    ]
}
fn segment(min: usize, max: usize, no_colon: bool) -> BoxedStrategy<String> {
    prop::collection::vec(pick(pchars()), min..=max)
        .prop_map(move |v| {
            let s: String = v.concat();
            if no_colon {
                s.replace(':', "_")
            } else {
                s
            }
        })
        .boxed()
}
fn host() -> BoxedStrategy<String> {
    let reg = prop::collection::vec(
        pick(vec![
            "a", "Z", "0", "-", ".", "_", "~", "!", "$", "&", "'", "(", ")", "*", "+", ",", ";", "=", "%41", "\u{e9}", "\u{d7ff}",
            "\u{10000}", "example", "org",
        ]),
        0..5,
    )
    .prop_map(|v| v.concat());
    prop_oneof![
        80 => reg,
        40 => pick_str(&["x", "example.org", "1.2.3.4", "255.255.255.255", "[::1]", "[::]",
            "[::ffff:1.2.3.4]", "[1:2:3:4:5:6:7:8]", "[v7.a:b]", "[1:2:3:4:5:6:1.2.3.4]", "[::2:3]", "[A:B:c:d:0:00:000:0000]"]),
        // valid per RFC 3986 but rejected by sophia_iri::Iri::new on the pinned tree (C09's subject): kept rare,
        // such cases are counted as excluded/iri
        1 => pick_str(&["[2001:db8::8:800:200c:417a]", "[1::8]", "[fe80::1]", "[A:b::]"]),
    ]
    .boxed()
}
/// RFC 3987 absolute IRIs, valid by construction.
pub fn iri_gen() -> BoxedStrategy<String> {
    let scheme = pick_str(&["http", "https", "urn", "tag", "file", "mailto", "a", "x-y.z+1", "HTTP", "s9"]);
    let userinfo = prop_oneof![
        4 => Just(String::new()),
        1 => pick_str(&["u@", "u:p@", ":@", "%41@", "\u{e9}!$&'()*+,;=@", "@"]),
    ];
    let port = prop_oneof![3 => Just(String::new()), 1 => pick_str(&[":", ":80", ":0", ":65536"])];
    let abempty = prop::collection::vec(segment(0, 3, false), 0..4)
        .prop_map(|v| v.iter().map(|s| format!("/{s}")).collect::<String>());
    let authority_form = (userinfo, host(), port, abempty.clone()).prop_map(|(u, h, p, path)| format!("//{u}{h}{p}{path}"));
    let absolute = (segment(1, 3, false), abempty.clone()).prop_map(|(s, rest)| format!("/{s}{rest}"));
    let rootless = (segment(1, 3, false), abempty).prop_map(|(s, rest)| format!("{s}{rest}"));
    let hier = prop_oneof![
        5 => authority_form,
        1 => absolute,
        1 => Just("/".to_string()),
        2 => rootless,
        1 => Just(String::new()),
    ];
    let qchars = {
        let mut v = pchars();
        v.extend(["/", "?", "\u{e000}", "\u{f8ff}", "\u{f0000}", "\u{10fffd}"]);
        v
    };
    let fchars = {
        let mut v = pchars();
        v.extend(["/", "?"]);
        v
    };
    let query = prop_oneof![
        3 => Just(String::new()),
        1 => prop::collection::vec(pick(qchars), 0..4).prop_map(|v| format!("?{}", v.concat())),
    ];
    let frag = prop_oneof![
        3 => Just(String::new()),
        1 => prop::collection::vec(pick(fchars), 0..4).prop_map(|v| format!("#{}", v.concat())),
    ];
    (scheme, hier, query, frag)
        .prop_map(|(s, h, q, f)| format!("{s}:{h}{q}{f}"))
        .boxed()
}
fn iri() -> BoxedStrategy<String> {
    let mut pool = plain_iris();
    pool.extend(vocab_iris());
    prop_oneof![3 => pick(pool), 2 => iri_gen()].boxed()
}

fn rand_case(s: String, flips: Vec<bool>) -> String {
    s.chars()
        .enumerate()
        .map(|(i, c)| if flips.get(i).copied().unwrap_or(false) { c.to_ascii_uppercase() } else { c })
        .collect()
}
/// well-formed BCP47 language tags (RFC 5646 section 2.1), by construction
pub fn tag_gen() -> BoxedStrategy<String> {
    let language = pick_str(&["en", "fr", "de", "ja", "zh", "ast", "tlh", "zh-yue", "zh-cmn", "abcd", "abcde", "abcdefgh"]);
    let script = prop_oneof![3 => Just(String::new()), 1 => pick_str(&["-latn", "-hani", "-cyrl"])];
    let region = prop_oneof![2 => Just(String::new()), 1 => pick_str(&["-us", "-gb", "-056", "-419", "-de"])];
    let variant = prop_oneof![
        4 => Just(String::new()),
        1 => pick_str(&["-nedis", "-1996", "-rozaj-biske", "-valencia", "-1abc", "-abcdefgh"]),
    ];
    let ext = prop_oneof![
        4 => Just(String::new()),
        1 => pick_str(&["-u-co-phonebk", "-a-bb", "-t-ab-cdefghij", "-a-bb-z-12345678", "-0-ab"]),
    ];
    let private = prop_oneof![4 => Just(String::new()), 1 => pick_str(&["-x-a", "-x-private1-2", "-x-12345678"])];
    let regular = (language, script, region, variant, ext, private)
        .prop_map(|(l, s, r, v, e, p)| format!("{l}{s}{r}{v}{e}{p}"));
    let base = prop_oneof![
        6 => regular,
        1 => pick_str(&["x-priv", "x-a-b-c", "i-klingon", "en-gb-oed", "sgn-be-fr", "art-lojban", "i-default"]),
        2 => pick(tags()).prop_map(|t| t.to_ascii_lowercase()),
    ];
    (base, prop::collection::vec(prop::bool::weighted(0.25), 0..24), 0..4u8)
        .prop_map(|(t, flips, mode)| match mode {
            0 => t,
            1 => t.to_ascii_uppercase(),
            _ => rand_case(t, flips),
        })
        .boxed()
}

fn lex() -> BoxedStrategy<String> {
    prop_oneof![
        4 => lexical(10),
        1 => pick_str(&["\\", "\"", "\\\"", "\"\\", "\\n", "\\\\n", "\r", "\n", "\r\n", "a\rb", "\\u0041", "\\U00000041", "\\t",
            "\"\"\"", "'", "\u{0}", " .", "<http://x> .", "^^<http://x/a>", "@en", "\"@en", "_:b .\n_:c", "#", "\u{feff}x",
            "a\u{85}b", "a\u{2028}b", "\u{1F600}\\", "\t\u{b}\u{c}"]),
        1 => prop::collection::vec(any::<char>(), 0..40).prop_map(|v| v.into_iter().collect::<String>()),
    ]
    .boxed()
}

fn literal() -> BoxedStrategy<MT> {
    // near-misses of the datatypes that serializers treat specially (xsd:string is implicit,
    // rdf:langString belongs to tagged literals): a serializer that recognises them loosely
    // (case-insensitively, by suffix, by prefix) changes the datatype on the round trip
    let near: Vec<String> = [
        "http://www.w3.org/2001/XMLSchema#String",
        "http://www.w3.org/2001/XMLSchema#STRING",
        "http://www.w3.org/2001/XMLSchema#string2",
        "http://www.w3.org/2001/XMLSchema#strin",
        "http://www.w3.org/2001/xmlschema#string",
        "http://www.w3.org/2001/XMLSchema/string",
        "https://www.w3.org/2001/XMLSchema#string",
        "http://www.w3.org/2001/XMLSchema#normalizedString",
        "http://example.org/XMLSchema#string",
        "http://www.w3.org/1999/02/22-rdf-syntax-ns#langstring",
        "http://www.w3.org/1999/02/22-rdf-syntax-ns#LangString",
    ]
    .iter()
    .map(|s| s.to_string())
    .collect();
    let dt = prop_oneof![8 => pick(datatypes()), 2 => iri_gen(), 1 => pick(near)];
    prop_oneof![
        3 => (lex(), dt).prop_map(|(l, d)| MT::Lit(l, d)),
        2 => (lex(), tag_gen()).prop_map(|(l, t)| MT::Lang(l, t)),
    ]
    .boxed()
}

fn term(pos: char, depth: u32) -> BoxedStrategy<MT> {
    let i = iri().prop_map(MT::Iri).boxed();
    if pos == 'p' {
        return i;
    }
    let b = label().prop_map(MT::Bnode).boxed();
    let mut opts: Vec<(u32, BoxedStrategy<MT>)> = vec![(4, i), (4, b)];
    if pos == 'o' {
        opts.push((5, literal()));
    }
    if depth > 0 && pos != 'g' {
        let tr = (term('s', depth - 1), term('p', 0), term('o', depth - 1)).prop_map(|(s, p, o)| MT::triple(s, p, o));
        opts.push((2, tr.boxed()));
    }
    proptest::strategy::Union::new_weighted(opts).boxed()
}

fn quad() -> BoxedStrategy<MQ> {
    let g = prop_oneof![2 => Just(None), 3 => term('g', 0).prop_map(Some)];
    (term('s', 3), term('p', 0), term('o', 3), g)
        .prop_map(|(s, p, o, g)| MQ::new(s, p, o, g))
        .boxed()
}

// ---------------------------------------------------------------- domain checks (independent of the serialisers)

fn w3c_label_ok(l: &str) -> bool {
    // BLANK_NODE_LABEL (without "_:"), W3C grammar, minus ':' (not accepted by sophia)
    let cs: Vec<char> = l.chars().collect();
    let base = |c: char| {
        matches!(c, 'A'..='Z' | 'a'..='z' | '\u{C0}'..='\u{D6}' | '\u{D8}'..='\u{F6}' | '\u{F8}'..='\u{2FF}'
            | '\u{370}'..='\u{37D}' | '\u{37F}'..='\u{1FFF}' | '\u{200C}'..='\u{200D}' | '\u{2070}'..='\u{218F}'
            | '\u{2C00}'..='\u{2FEF}' | '\u{3001}'..='\u{D7FF}' | '\u{F900}'..='\u{FDCF}' | '\u{FDF0}'..='\u{FFFD}'
            | '\u{10000}'..='\u{EFFFF}')
    };
    let u = |c: char| base(c) || c == '_';
    let pn = |c: char| u(c) || c == '-' || c.is_ascii_digit() || c == '\u{B7}' || matches!(c, '\u{300}'..='\u{36F}' | '\u{203F}'..='\u{2040}');
    if cs.is_empty() || !(u(cs[0]) || cs[0].is_ascii_digit()) {
        return false;
    }
    if cs.len() > 1 && !pn(*cs.last().unwrap()) {
        return false;
    }
    cs[1..].iter().all(|&c| pn(c) || c == '.')
}

/// Is every component of the term inside the domain of the property (well-formed strict /
/// RDF-star term with valid IRI, label, tag)?  Returns the reason when not.
fn term_domain(t: &MT, pos: char) -> Result<(), String> {
    match t {
        MT::Iri(i) => sophia_iri::Iri::new(i.as_str()).map(|_| ()).map_err(|e| {
            // the property quantifies over all IRIs: a string the RFC 3987 reference recogniser accepts
            // must be accepted (REJECTED = failure), anything else is outside the domain
            if crate::c09::rfc::is_iri(i) {
                format!("REJECTED-iri: {i:?} is an IRI per RFC 3987 but Iri::new says {e}")
            } else {
                format!("iri: {e}")
            }
        }),
        MT::Bnode(b) => {
            if pos == 'p' {
                return Err("blank node predicate".into());
            }
            if b.starts_with("riog") {
                return Err("riog label".into());
            }
            if !w3c_label_ok(b) {
                return Err(format!("label {b:?} not in BLANK_NODE_LABEL"));
            }
            // a label of the W3C BLANK_NODE_LABEL production must be accepted
            BnodeId::new(b.as_str()).map(|_| ()).map_err(|e| format!("REJECTED-label: {b:?} matches BLANK_NODE_LABEL but BnodeId::new says {e}"))
        }
        MT::Lit(_, d) => {
            if pos != 'o' {
                return Err("literal not in object position".into());
            }
            if d == RDF_LANGSTRING {
                return Err("rdf:langString without tag".into());
            }
            sophia_iri::Iri::new(d.as_str()).map(|_| ()).map_err(|e| format!("datatype: {e}"))
        }
        MT::Lang(_, tag) => {
            if pos != 'o' {
                return Err("literal not in object position".into());
            }
            LanguageTag::new(tag.as_str()).map(|_| ()).map_err(|e| format!("tag: {e}"))
        }
        MT::Triple(tr) => {
            if pos != 's' && pos != 'o' {
                return Err("quoted triple in predicate/graph position".into());
            }
            term_domain(&tr[0], 's')?;
            term_domain(&tr[1], 'p')?;
            term_domain(&tr[2], 'o')
        }
        MT::Var(_) => Err("variable".into()),
    }
}
fn quad_domain(q: &MQ) -> Result<(), String> {
    term_domain(&q.s, 's')?;
    if !q.p.is_iri() {
        return Err("predicate is not an IRI".into());
    }
    term_domain(&q.p, 'p')?;
    term_domain(&q.o, 'o')?;
    if let Some(g) = &q.g {
        term_domain(g, 'g')?;
    }
    Ok(())
}

// ---------------------------------------------------------------- system under test

/// A writer that implements only `write` and `flush` (`write_vectored` falls back to the default)
/// and accepts, as the `io::Write` contract allows, only what fits in its current block of 7 bytes
/// (a block / ring-buffer / pipe style writer): short writes happen at every offset of every token.
struct PlainWriter(std::rc::Rc<std::cell::RefCell<Vec<u8>>>);
impl std::io::Write for PlainWriter {
    fn write(&mut self, b: &[u8]) -> std::io::Result<usize> {
        let room = 7 - self.0.borrow().len() % 7;
        let n = b.len().min(room);
        self.0.borrow_mut().extend_from_slice(&b[..n]);
        Ok(n)
    }
    fn flush(&mut self) -> std::io::Result<()> {
        Ok(())
    }
}
/// the serialised bytes must not depend on the kind of writer
fn same_on_other_writers(reference: &[u8], plain: Vec<u8>, buffered: Vec<u8>, who: &str) -> Result<(), String> {
    for (name, got) in [("a writer implementing only write()", plain), ("a BufWriter over such a writer", buffered)] {
        if got != reference {
            let at = got.iter().zip(reference.iter()).position(|(a, b)| a != b).unwrap_or(got.len().min(reference.len()));
            let ctx = |v: &[u8]| String::from_utf8_lossy(&v[at.saturating_sub(40)..(at + 40).min(v.len())]).to_string();
            return Err(format!("{who}: output written to {name} differs from the stringifier output at byte {at}: {:?} vs {:?}", ctx(&got), ctx(reference)));
        }
    }
    Ok(())
}

fn ser_nq(quads: &[MQ]) -> Result<String, String> {
    let d: Vec<Spog<SimpleTerm<'static>>> = quads.iter().map(MQ::to_spog).collect();
    let mut s = NqSerializer::new_stringifier();
    s.serialize_dataset(&d).map_err(|e| format!("NqSerializer error: {e}"))?;
    {
        let (pb, bb) = (std::rc::Rc::new(std::cell::RefCell::new(vec![])), std::rc::Rc::new(std::cell::RefCell::new(vec![])));
        let mut p = NqSerializer::new(PlainWriter(pb.clone()));
        p.serialize_dataset(&d).map_err(|e| format!("NqSerializer error on a plain writer: {e}"))?;
        let mut b = NqSerializer::new(std::io::BufWriter::with_capacity(61, PlainWriter(bb.clone())));
        b.serialize_dataset(&d).map_err(|e| format!("NqSerializer error on a BufWriter: {e}"))?;
        drop(p);
        drop(b); // a BufWriter flushes when dropped
        let (plain, buffered) = (pb.borrow().clone(), bb.borrow().clone());
        same_on_other_writers(s.as_utf8(), plain, buffered, "NqSerializer")?;
        // ... nor on the kind of source: an iterator whose size hint is inexact (lower bound 0)
        let mut it = NqSerializer::new_stringifier();
        it.serialize_quads(d.iter().filter(|_| true).map(|q| Ok::<_, std::convert::Infallible>(q.clone())))
            .map_err(|e| format!("NqSerializer error on an iterator source: {e}"))?;
        if it.as_utf8() != s.as_utf8() {
            return Err(format!("NqSerializer: an iterator source with an inexact size hint gives {} bytes, the dataset gives {}", it.as_utf8().len(), s.as_utf8().len()));
        }
    }
    std::str::from_utf8(s.as_utf8())
        .map(|x| x.to_string())
        .map_err(|e| format!("NqSerializer output is not UTF-8: {e}"))
}
fn ser_nt(quads: &[MQ]) -> Result<String, String> {
    let g: Vec<[SimpleTerm<'static>; 3]> = quads.iter().map(MQ::to_triple).collect();
    let mut s = NtSerializer::new_stringifier();
    s.serialize_graph(&g).map_err(|e| format!("NtSerializer error: {e}"))?;
    {
        let (pb, bb) = (std::rc::Rc::new(std::cell::RefCell::new(vec![])), std::rc::Rc::new(std::cell::RefCell::new(vec![])));
        let mut p = NtSerializer::new(PlainWriter(pb.clone()));
        p.serialize_graph(&g).map_err(|e| format!("NtSerializer error on a plain writer: {e}"))?;
        let mut b = NtSerializer::new(std::io::BufWriter::with_capacity(61, PlainWriter(bb.clone())));
        b.serialize_graph(&g).map_err(|e| format!("NtSerializer error on a BufWriter: {e}"))?;
        drop(p);
        drop(b);
        let (plain, buffered) = (pb.borrow().clone(), bb.borrow().clone());
        same_on_other_writers(s.as_utf8(), plain, buffered, "NtSerializer")?;
        let mut it = NtSerializer::new_stringifier();
        it.serialize_triples(g.iter().filter(|_| true).map(|t| Ok::<_, std::convert::Infallible>(t.clone())))
            .map_err(|e| format!("NtSerializer error on an iterator source: {e}"))?;
        if it.as_utf8() != s.as_utf8() {
            return Err(format!("NtSerializer: an iterator source with an inexact size hint gives {} bytes, the graph gives {}", it.as_utf8().len(), s.as_utf8().len()));
        }
    }
    std::str::from_utf8(s.as_utf8())
        .map(|x| x.to_string())
        .map_err(|e| format!("NtSerializer output is not UTF-8: {e}"))
}
fn proj(quads: &[MQ]) -> Vec<MQ> {
    quads.iter().map(|q| MQ::new(q.s.clone(), q.p.clone(), q.o.clone(), None)).collect()
}

#[derive(Clone, Copy, Debug, PartialEq)]
enum Stage {
    NqLines,
    NtLines,
    SophiaNq,
    SophiaNqCollect,
    SophiaGnq,
    ReaderNq,
    SophiaNt,
    SophiaNtCollect,
    ReaderNt,
}
const STAGES: &[Stage] = &[
    Stage::NqLines,
    Stage::NtLines,
    Stage::SophiaNq,
    Stage::SophiaNqCollect,
    Stage::SophiaGnq,
    Stage::ReaderNq,
    Stage::SophiaNt,
    Stage::SophiaNtCollect,
    Stage::ReaderNt,
];
impl Stage {
    fn name(self) -> &'static str {
        match self {
            Stage::NqLines => "nq-lines",
            Stage::NtLines => "nt-lines",
            Stage::SophiaNq => "nq-parse",
            Stage::SophiaNqCollect => "nq-collect",
            Stage::SophiaGnq => "gnq-parse",
            Stage::ReaderNq => "nq-reader",
            Stage::SophiaNt => "nt-parse",
            Stage::SophiaNtCollect => "nt-collect",
            Stage::ReaderNt => "nt-reader",
        }
    }
    fn is_nt(self) -> bool {
        matches!(self, Stage::NtLines | Stage::SophiaNt | Stage::SophiaNtCollect | Stage::ReaderNt)
    }
}

/// one statement per '\n'-terminated line: the text has exactly n lines, each of which is,
/// on its own, exactly one statement for the independent reader, equal to the n-th input quad.
fn check_lines(txt: &str, exp: &[MQ]) -> Result<(), String> {
    if exp.is_empty() {
        return if txt.is_empty() { Ok(()) } else { Err(format!("empty dataset serialised as {txt:?}")) };
    }
    if !txt.ends_with('\n') {
        return Err("output does not end with a line feed".into());
    }
    if txt.contains('\r') {
        return Err("raw carriage return in the output".into());
    }
    let lines: Vec<&str> = txt[..txt.len() - 1].split('\n').collect();
    if lines.len() != exp.len() {
        return Err(format!("{} statements serialised on {} lines", exp.len(), lines.len()));
    }
    for (i, l) in lines.iter().enumerate() {
        match nqread::parse_nquads(l) {
            Ok(v) if v.len() == 1 => {
                if v[0] != exp[i] {
                    return Err(format!("line {} reads as {} instead of {}", i + 1, v[0].show(), exp[i].show()));
                }
            }
            Ok(v) => return Err(format!("line {} holds {} statements: {l:?}", i + 1, v.len())),
            Err(e) => return Err(format!("line {} is not an N-Quads statement: {e}", i + 1)),
        }
    }
    Ok(())
}

/// serialise + read back through one consumer
fn roundtrip(stage: Stage, quads: &[MQ]) -> Result<Vec<MQ>, String> {
    let exp: Vec<MQ> = if stage.is_nt() { proj(quads) } else { quads.to_vec() };
    let txt = if stage.is_nt() { ser_nt(quads)? } else { ser_nq(quads)? };
    let mut out: Vec<MQ> = vec![];
    match stage {
        Stage::NqLines | Stage::NtLines => {
            check_lines(&txt, &exp)?;
            return Ok(exp);
        }
        Stage::SophiaNq => {
            let r = catch(|| nq::parse_str(&txt).for_each_quad(|q| out.push(MQ::from_quad(q))));
            match r {
                Ok(Ok(())) => {}
                Ok(Err(e)) => return Err(format!("sophia nq parser rejects the output: {e}")),
                Err(p) => return Err(format!("sophia nq parser panicked: {p}")),
            }
        }
        Stage::SophiaNqCollect => {
            let r = catch(|| nq::parse_str(&txt).collect_quads::<Vec<Spog<SimpleTerm<'static>>>>());
            match r {
                Ok(Ok(d)) => out = collect_dataset(&d),
                Ok(Err(e)) => return Err(format!("sophia nq parser (collect_quads) rejects the output: {e}")),
                Err(p) => return Err(format!("sophia nq parser (collect_quads) panicked: {p}")),
            }
        }
        Stage::SophiaGnq => {
            let r = catch(|| gnq::parse_str(&txt).for_each_quad(|q| out.push(MQ::from_quad(q))));
            match r {
                Ok(Ok(())) => {}
                Ok(Err(e)) => return Err(format!("sophia gnq parser rejects the output: {e}")),
                Err(p) => return Err(format!("sophia gnq parser panicked: {p}")),
            }
        }
        Stage::SophiaNt => {
            let r = catch(|| nt::parse_str(&txt).for_each_triple(|t| out.push(MQ::from_triple(t))));
            match r {
                Ok(Ok(())) => {}
                Ok(Err(e)) => return Err(format!("sophia nt parser rejects the output: {e}")),
                Err(p) => return Err(format!("sophia nt parser panicked: {p}")),
            }
        }
        Stage::SophiaNtCollect => {
            let r = catch(|| nt::parse_str(&txt).collect_triples::<Vec<[SimpleTerm<'static>; 3]>>());
            match r {
                Ok(Ok(g)) => out = collect_graph(&g),
                Ok(Err(e)) => return Err(format!("sophia nt parser (collect_triples) rejects the output: {e}")),
                Err(p) => return Err(format!("sophia nt parser (collect_triples) panicked: {p}")),
            }
        }
        Stage::ReaderNq | Stage::ReaderNt => match nqread::parse_nquads(&txt) {
            Ok(v) => out = v,
            Err(e) => return Err(format!("independent N-Quads reader rejects the output: {e}")),
        },
    }
    Ok(out)
}

/// multiset comparison (RDF term equality: tags case-insensitive); Err = description
fn same_multiset(exp: &[MQ], got: &[MQ]) -> Result<u64, String> {
    let e = sorted(exp.to_vec());
    let g = sorted(got.to_vec());
    if e.len() != g.len() || e.iter().zip(g.iter()).any(|(a, b)| a != b) {
        let only_e: Vec<String> = e.iter().filter(|q| !g.contains(q)).map(MQ::show).collect();
        let only_g: Vec<String> = g.iter().filter(|q| !e.contains(q)).map(MQ::show).collect();
        return Err(format!(
            "{} statements in, {} read back; lost/changed: {:?}; invented: {:?}",
            e.len(),
            g.len(),
            only_e,
            only_g
        ));
    }
    Ok(e.iter().zip(g.iter()).filter(|(a, b)| !a.same_repr(b)).count() as u64)
}

fn stage_ok(stage: Stage, quads: &[MQ]) -> Result<u64, String> {
    let exp: Vec<MQ> = if stage.is_nt() { proj(quads) } else { quads.to_vec() };
    let got = roundtrip(stage, quads)?;
    same_multiset(&exp, &got)
}

// ---------------------------------------------------------------- trigger analysis (signatures)

fn char_class(c: char) -> &'static str {
    match c {
        '"' => "quote",
        '\\' => "backslash",
        '\n' => "lf",
        '\r' => "cr",
        '\t' => "tab",
        '\u{0}' => "nul",
        '\u{1}'..='\u{1f}' => "c0",
        '\u{7f}' => "del",
        '\u{80}'..='\u{9f}' => "c1",
        '\u{2028}' | '\u{2029}' => "ls-ps",
        ' ' => "space",
        '\'' => "apostrophe",
        c if (c as u32) > 0xFFFF => "non-bmp",
        c if c.is_ascii() => "ascii",
        _ => "non-ascii",
    }
}
fn label_class(l: &str) -> &'static str {
    if l.contains('.') {
        "dot"
    } else if l.starts_with(|c: char| c.is_ascii_digit()) {
        "leading-digit"
    } else if !l.is_ascii() {
        "non-ascii"
    } else if l.contains('-') || l.contains('_') {
        "dash-underscore"
    } else {
        "plain"
    }
}
fn neutral(t: &MT) -> MQ {
    let s = MT::iri("http://x/s");
    let p = MT::iri("http://x/p");
    match t {
        MT::Lit(..) | MT::Lang(..) => MQ::new(s, p, t.clone(), None),
        _ => MQ::new(t.clone(), p.clone(), MT::iri("http://x/o"), None),
    }
}
/// smallest trigger of a failure of `stage` on `quads`, as a stable key
fn trigger(stage: Stage, quads: &[MQ]) -> String {
    let bad = quads.iter().find(|q| stage_ok(stage, std::slice::from_ref(q)).is_err());
    let Some(q) = bad else {
        return "interaction-between-statements".into();
    };
    // does the graph name matter?
    if let Some(g) = &q.g {
        let mut q2 = q.clone();
        q2.g = None;
        if stage_ok(stage, &[q2]).is_ok() {
            let gq = MQ::new(MT::iri("http://x/s"), MT::iri("http://x/p"), MT::iri("http://x/o"), Some(g.clone()));
            if stage_ok(stage, &[gq]).is_err() {
                return format!("graph-name/{}", term_trigger(stage, g));
            }
            return "graph-name/combination".into();
        }
    }
    let mut cs = vec![];
    q.s.constituents(&mut cs);
    q.p.constituents(&mut cs);
    q.o.constituents(&mut cs);
    // innermost first: atoms before the triples that contain them
    cs.sort_by_key(|t| t.depth());
    for t in cs {
        if stage_ok(stage, &[neutral(t)]).is_err() {
            return term_trigger(stage, t);
        }
    }
    "statement/combination-of-terms".into()
}
fn term_trigger(stage: Stage, t: &MT) -> String {
    match t {
        MT::Iri(_) => "iri".into(),
        MT::Bnode(b) => format!("bnode-label/{}", label_class(b)),
        MT::Triple(_) => "quoted-triple".into(),
        MT::Var(_) => "variable".into(),
        MT::Lit(l, d) => {
            if stage_ok(stage, &[neutral(&MT::Lit("a".into(), d.clone()))]).is_err() {
                return "datatype".into();
            }
            format!("lexical/{}", lex_trigger(stage, l, &|x: String| MT::Lit(x, d.clone())))
        }
        MT::Lang(l, tag) => {
            if stage_ok(stage, &[neutral(&MT::Lang("a".into(), tag.clone()))]).is_err() {
                return "language-tag".into();
            }
            format!("lexical/{}", lex_trigger(stage, l, &|x: String| MT::Lang(x, tag.clone())))
        }
    }
}
fn lex_trigger(stage: Stage, l: &str, mk: &dyn Fn(String) -> MT) -> String {
    let mut seen = std::collections::BTreeSet::new();
    for c in l.chars() {
        if seen.insert(c) && stage_ok(stage, &[neutral(&mk(c.to_string()))]).is_err() {
            return char_class(c).to_string();
        }
    }
    // pairs of adjacent characters
    let cs: Vec<char> = l.chars().collect();
    for w in cs.windows(2) {
        let s: String = w.iter().collect();
        if stage_ok(stage, &[neutral(&mk(s))]).is_err() {
            return format!("{}+{}", char_class(w[0]), char_class(w[1]));
        }
    }
    "combination".into()
}

// ---------------------------------------------------------------- non-trivial rule

fn lex_interesting(l: &str) -> bool {
    l.chars().any(|c| !matches!(char_class(c), "ascii" | "space"))
}
fn term_interesting(t: &MT, ctx: &mut Ctx) -> bool {
    match t {
        MT::Iri(i) => {
            if !i.is_ascii() {
                ctx.class("iri:non-ascii");
            }
            if i.contains('[') {
                ctx.class("iri:ip-literal");
            }
            if i.contains('%') {
                ctx.class("iri:pct-encoded");
            }
            false
        }
        MT::Bnode(b) => {
            let c = label_class(b);
            ctx.class(format!("label:{c}"));
            c != "plain"
        }
        MT::Lit(l, d) => {
            for c in l.chars().map(char_class).collect::<std::collections::BTreeSet<_>>() {
                ctx.class(format!("lex:{c}"));
            }
            if d == XSD_STRING {
                ctx.class("literal:simple");
            } else {
                ctx.class("literal:typed");
            }
            lex_interesting(l)
        }
        MT::Lang(l, tag) => {
            for c in l.chars().map(char_class).collect::<std::collections::BTreeSet<_>>() {
                ctx.class(format!("lex:{c}"));
            }
            ctx.class("literal:lang");
            if tag.chars().any(|c| c.is_ascii_uppercase()) {
                ctx.class("tag:has-uppercase");
            }
            if tag.matches('-').count() >= 2 {
                ctx.class("tag:3+subtags");
            }
            lex_interesting(l)
        }
        MT::Triple(tr) => {
            ctx.class(format!("quoted:depth{}", t.depth()));
            for x in tr.iter() {
                term_interesting(x, ctx);
            }
            true
        }
        MT::Var(_) => false,
    }
}

impl Check for C03 {
    type Case = Case;
    const ID: &'static str = "C03";
    fn rule() -> String {
        "strict/RDF-star datasets of 0..12 quads (grammar-generated RFC 3987 IRIs, BLANK_NODE_LABELs, BCP47 tags, lexical forms over all Unicode scalar values biased to escape-relevant characters, quoted triples to depth 3, IRI/blank graph names, duplicates kept) -> NqSerializer/NtSerializer -> {line structure, sophia nq/gnq/nt parsers (streamed and collected), independent W3C N-Quads reader}; oracle = the input, compared as a multiset term by term. Non-trivial = dataset with at least one of: a lexical form containing a character other than printable ASCII (quote, backslash, CR, LF, TAB, other controls, DEL, non-ASCII, non-BMP count), a blank node label that is not plain alphanumeric ASCII (dot, leading digit, '-', '_', non-ASCII), a quoted triple, or a blank node graph name; distinct by hash of the whole case.".into()
    }
    fn assumptions() -> Vec<String> {
        vec![
            "language tags are compared ASCII-case-insensitively (RDF term equality); exact-case drift is counted (counter tag_case_drift), not failed".into(),
            "blank node labels starting with 'riog' are excluded (Rio's fresh-label space)".into(),
            "domain: IRIs accepted by sophia_iri::Iri::new, labels by BnodeId::new and the W3C BLANK_NODE_LABEL production (no ':'), tags by LanguageTag::new and well-formed per RFC 5646; cases outside are counted as excluded/*".into(),
            "the statement multiset is compared; statement order is additionally checked by the per-line stage (a Vec dataset is serialised in order)".into(),
        ]
    }
    fn cases(tier: Tier) -> u32 {
        tier.pick(150_000, 6_000_000)
    }
    fn strategy(_tier: Tier) -> BoxedStrategy<Case> {
        // large outputs (tens of KiB): a serializer that batches or buffers its writes must not lose
        // or merge statements at block boundaries. Few of these: they are expensive.
        let bulk = (60usize..=900, 0u64..1000, prop::collection::vec(quad(), 1..=4)).prop_map(|(n, salt, specials)| {
            let mut quads = bulk_quads(n, salt);
            // a few arbitrary statements at scattered positions
            for (k, q) in specials.into_iter().enumerate() {
                let at = (salt as usize * 31 + k * 97) % (quads.len() + 1);
                quads.insert(at, q);
            }
            Case { quads }
        });
        let small = (prop::collection::vec(quad(), 0..=12), prop::collection::vec((any::<prop::sample::Index>(), any::<prop::sample::Index>()), 0..3))
            .prop_map(|(mut quads, dups)| {
                // re-insert a few copies so that duplicates and shared terms occur
                for (a, b) in dups {
                    if !quads.is_empty() {
                        let q = quads[a.index(quads.len())].clone();
                        let at = b.index(quads.len() + 1);
                        quads.insert(at, q);
                    }
                }
                Case { quads }
            });
        prop_oneof![400 => small, 1 => bulk].boxed()
    }
    fn fixed_cases(_tier: Tier, _seed: u64) -> Vec<Case> {
        // every character of the nasty alphabet alone and next to a backslash / quote, in both literal kinds
        let s = MT::iri("http://x/s");
        let p = MT::iri("http://x/p");
        let mut out = vec![Case { quads: vec![] }];
        for (n, salt) in [(85, 1), (95, 2), (200, 3), (700, 4), (3000, 5), (100, 6), (1500, 7)] {
            out.push(Case { quads: bulk_quads(n, salt) });
        }
        for &c in NASTY_CHARS {
            for pat in [format!("{c}"), format!("\\{c}"), format!("{c}\\"), format!("\"{c}\""), format!("{c}{c}")] {
                out.push(Case {
                    quads: vec![
                        MQ::new(s.clone(), p.clone(), MT::string(pat.clone()), None),
                        MQ::new(s.clone(), p.clone(), MT::lang(pat.clone(), "en"), Some(MT::bn("g"))),
                        MQ::new(MT::triple(s.clone(), p.clone(), MT::lit(pat, xsd("integer"))), p.clone(), s.clone(), None),
                    ],
                });
            }
        }
        let mut labels = bnode_labels_exotic();
        labels.extend(bnode_labels_plain());
        for l in labels {
            let b = MT::bn(l);
            out.push(Case {
                quads: vec![
                    MQ::new(b.clone(), p.clone(), b.clone(), Some(b.clone())),
                    MQ::new(MT::triple(b.clone(), p.clone(), b.clone()), p.clone(), MT::triple(b.clone(), p.clone(), b.clone()), None),
                ],
            });
        }
        out
    }
    fn run(case: &Case, ctx: &mut Ctx) {
        let quads = &case.quads;
        // the domain is "all BCP47 tags": a tag that is well-formed per RFC 5646 (harness recogniser)
        // must be accepted by the toolkit's validator; its rejection is not an exclusion
        for q in quads {
            let mut atoms = vec![];
            for t in q.terms() {
                t.atoms(&mut atoms);
            }
            for t in atoms {
                if let MT::Lang(_, tag) = t {
                    if bcp47_well_formed(tag) {
                        ctx.class("tag:bcp47-well-formed");
                        if let Err(e) = crate::engine::catch(|| LanguageTag::new(tag.as_str()).map(|_| ())).and_then(|r| r.map_err(|e| e.to_string())) {
                            ctx.fail("domain/bcp47-tag-rejected", format!("the well-formed BCP47 tag {tag:?} is rejected by LanguageTag::new: {e}"));
                            return;
                        }
                    }
                }
            }
        }
        for q in quads {
            if let Err(why) = quad_domain(q) {
                let key = why.split(':').next().unwrap_or("other").to_string();
                if let Some(k) = key.strip_prefix("REJECTED-") {
                    ctx.fail(format!("domain/valid-{k}-rejected"), why);
                    return;
                }
                ctx.class(format!("excluded/{key}"));
                if std::env::var_os("VERIF_C03_DEBUG").is_some() {
                    eprintln!("excluded: {why} in {}", q.show());
                }
                return;
            }
        }
        // classes + non-trivial rule
        let mut interesting = false;
        for q in quads {
            for t in q.terms() {
                interesting |= term_interesting(t, ctx);
            }
            match &q.g {
                Some(MT::Bnode(_)) => {
                    ctx.class("graph:blank");
                    interesting = true;
                }
                Some(_) => ctx.class("graph:iri"),
                None => ctx.class("graph:default"),
            }
        }
        ctx.class(format!("size:{}", match quads.len() { 0 => "0", 1..=3 => "1-3", 4..=8 => "4-8", _ => "9+" }));
        if sorted(quads.clone()).windows(2).any(|w| w[0] == w[1]) {
            ctx.class("has-duplicate-statement");
        }
        if interesting {
            ctx.nontrivial();
        }
        for &stage in STAGES {
            match stage_ok(stage, quads) {
                Ok(drift) => {
                    if drift > 0 && stage == Stage::SophiaNq {
                        ctx.count("tag_case_drift", drift);
                    }
                }
                Err(e) => {
                    let trig = trigger(stage, quads);
                    let txt = if stage.is_nt() { ser_nt(quads) } else { ser_nq(quads) };
                    ctx.fail(
                        format!("{}/{}", stage.name(), trig),
                        format!("{e}\ninput:\n{}\nserialised as:\n{}", show_quads(quads), txt.unwrap_or_else(|e| e)),
                    );
                    // the other stages would mostly repeat the same root cause
                    if matches!(stage, Stage::NqLines | Stage::NtLines) {
                        continue;
                    }
                    return;
                }
            }
        }
    }
    fn show(case: &Case) -> serde_json::Value {
        serde_json::json!({ "quads": case.quads.iter().map(MQ::show).collect::<Vec<_>>() })
    }
}

pub fn main(opts: &Opts) -> i32 {
    drive::<C03>(opts)
}
pub fn worker(_args: &[String]) -> i32 {
    2
}
