//! Shared generators: pools of IRIs / labels / lexical forms / tags, term and
//! quad strategies. Everything is built by construction from small pools so that equal
//! terms, shared blank nodes and index collisions are frequent.
#![allow(dead_code)]

use crate::engine::pick;
use crate::model::*;
use proptest::prelude::*;
use proptest::strategy::BoxedStrategy;

pub fn plain_iris() -> Vec<String> {
    [
        "http://x/a",
        "http://x/b",
        "http://x/c",
        "http://x/ns#p",
        "http://x/ns#q",
        "http://x/ns/r",
        "http://x/ns/sub/s",
        "tag:t",
        "urn:x:y",
        "http://é.example/ç?q=é#frag",
    ]
    .iter()
    .map(|s| s.to_string())
    .collect()
}

pub fn vocab_iris() -> Vec<String> {
    let mut v = vec![];
    for l in ["type", "first", "rest", "nil", "List", "JSON", "langString", "value", "_1"] {
        v.push(rdf(l));
    }
    for l in ["string", "integer", "decimal", "double", "boolean"] {
        v.push(xsd(l));
    }
    v.push(format!("{RDFS}label"));
    v
}

pub fn bnode_labels_plain() -> Vec<String> {
    ["a", "b", "c0", "b1", "x", "y"].iter().map(|s| s.to_string()).collect()
}

/// Labels accepted by `BnodeId::new` that stress the BLANK_NODE_LABEL grammar.
/// (`riog…` is excluded: Rio's fresh-label space.)
pub fn bnode_labels_exotic() -> Vec<String> {
    [
        "a.b", "a.1", "0x", "0", "_", "a-b", "a\u{b7}b", "e\u{301}", "\u{10000}x", "a.b.c", "9.9", "__", "a_",
        "\u{3b1}\u{3b2}", "x\u{203f}y", "Z-",
    ]
    .iter()
    .map(|s| s.to_string())
    .collect()
}

pub fn lexicals_simple() -> Vec<String> {
    ["", "a", "b", "hello world", "42", "1.5", "true", "x y"]
        .iter()
        .map(|s| s.to_string())
        .collect()
}

/// characters that matter to escaping / line structure / XML / JSON
pub const NASTY_CHARS: &[char] = &[
    '"', '\\', '\n', '\r', '\t', '\u{0}', '\u{1}', '\u{8}', '\u{b}', '\u{c}', '\u{1f}', '\u{7f}', '\u{85}', '\u{2028}',
    '\u{2029}', '\u{1F600}', '\u{301}', '\'', '<', '>', '&', ' ', 'a', 'é', '\u{FFFD}', '.', '#', '{', '}', '\u{a0}',
    '\u{d7ff}', '\u{e000}', '\u{10ffff}',
];

pub fn nasty_string(max: usize) -> BoxedStrategy<String> {
    prop::collection::vec(pick(NASTY_CHARS.to_vec()), 0..=max)
        .prop_map(|v| v.into_iter().collect::<String>())
        .boxed()
}

/// Any unicode scalar value strings, biased to the nasty alphabet.
pub fn lexical(max: usize) -> BoxedStrategy<String> {
    prop_oneof![
        3 => pick(lexicals_simple()),
        4 => nasty_string(max),
        1 => prop::collection::vec(any::<char>(), 0..=max).prop_map(|v| v.into_iter().collect::<String>()),
    ]
    .boxed()
}

pub fn tags() -> Vec<String> {
    // BCP47 shapes: region (alpha / digits), script, variants, extension singletons (t, u), private use
    // (also inside a tag), one-letter and eight-letter subtags
    [
        "en", "EN", "en-US", "en-us", "fr", "fr-056", "x-priv", "ja-Hani", "De-Latn-DE", "en-t-ja", "de-DE-u-co-phonebk", "en-x-a", "sl-rozaj-biske-1994", "zh-Hant-TW", "de-1996",
        "es-419", "abcdefgh-Latn",
    ]
        .iter()
        .map(|s| s.to_string())
        .collect()
}

pub fn datatypes() -> Vec<String> {
    vec![
        xsd("string"),
        xsd("integer"),
        xsd("decimal"),
        xsd("double"),
        xsd("boolean"),
        xsd("dateTime"),
        xsd("byte"),
        "http://x/dt".to_string(),
        rdf("XMLLiteral"),
    ]
}

#[derive(Clone, Debug)]
pub struct TermCfg {
    pub iris: Vec<String>,
    pub bnodes: Vec<String>,
    pub lex: BoxedStrategy<String>,
    pub tags: Vec<String>,
    pub dts: Vec<String>,
    pub vars: Vec<String>,
    pub allow_bnode: bool,
    pub allow_literal: bool,
    pub allow_triple: bool,
    pub allow_var: bool,
    pub max_depth: u32,
}

impl TermCfg {
    pub fn small() -> TermCfg {
        TermCfg {
            iris: plain_iris()[..5].to_vec(),
            bnodes: bnode_labels_plain()[..3].to_vec(),
            lex: pick(lexicals_simple()[..4].to_vec()),
            tags: tags()[..4].to_vec(),
            dts: datatypes()[..3].to_vec(),
            vars: vec!["v".into(), "w".into()],
            allow_bnode: true,
            allow_literal: true,
            allow_triple: true,
            allow_var: false,
            max_depth: 2,
        }
    }
    pub fn full() -> TermCfg {
        let mut iris = plain_iris();
        iris.extend(vocab_iris());
        let mut bn = bnode_labels_plain();
        bn.extend(bnode_labels_exotic());
        TermCfg {
            iris,
            bnodes: bn,
            lex: lexical(8),
            tags: tags(),
            dts: datatypes(),
            vars: vec!["v".into(), "w".into(), "x1".into()],
            allow_bnode: true,
            allow_literal: true,
            allow_triple: true,
            allow_var: false,
            max_depth: 2,
        }
    }
    pub fn iri(&self) -> BoxedStrategy<MT> {
        pick(self.iris.clone()).prop_map(MT::Iri).boxed()
    }
    pub fn bnode(&self) -> BoxedStrategy<MT> {
        pick(self.bnodes.clone()).prop_map(MT::Bnode).boxed()
    }
    pub fn literal(&self) -> BoxedStrategy<MT> {
        let dt = if self.dts.len() > 3 { prop_oneof![12 => pick(self.dts.clone()), 1 => pick(near_miss_datatypes())].boxed() } else { pick(self.dts.clone()).boxed() };
        let l1 = (self.lex.clone(), dt).prop_map(|(l, d)| MT::Lit(l, d));
        let l2 = (self.lex.clone(), pick(self.tags.clone())).prop_map(|(l, t)| MT::Lang(l, t));
        prop_oneof![3 => l1, 2 => l2].boxed()
    }
    pub fn var(&self) -> BoxedStrategy<MT> {
        pick(self.vars.clone()).prop_map(MT::Var).boxed()
    }
    /// atom for a given position: 's' 'p' 'o' 'g'. `generalized`: any kind anywhere.
    pub fn atom(&self, pos: char, generalized: bool) -> BoxedStrategy<MT> {
        let mut opts: Vec<(u32, BoxedStrategy<MT>)> = vec![(4, self.iri())];
        let b_ok = generalized || pos != 'p';
        let l_ok = generalized || pos == 'o';
        if self.allow_bnode && b_ok {
            opts.push((3, self.bnode()));
        }
        if self.allow_literal && l_ok {
            opts.push((3, self.literal()));
        }
        if self.allow_var && generalized {
            opts.push((1, self.var()));
        }
        proptest::strategy::Union::new_weighted(opts).boxed()
    }
    /// term for a position, possibly a (nested) quoted triple
    pub fn term(&self, pos: char, generalized: bool) -> BoxedStrategy<MT> {
        self.term_d(pos, generalized, self.max_depth)
    }
    fn term_d(&self, pos: char, generalized: bool, depth: u32) -> BoxedStrategy<MT> {
        let atom = self.atom(pos, generalized);
        let t_ok = self.allow_triple && depth > 0 && (generalized || pos == 's' || pos == 'o');
        if !t_ok {
            return atom;
        }
        let tr = (
            self.term_d('s', generalized, depth - 1),
            self.term_d('p', generalized, depth - 1),
            self.term_d('o', generalized, depth - 1),
        )
            .prop_map(|(s, p, o)| MT::triple(s, p, o));
        prop_oneof![6 => atom, 1 => tr].boxed()
    }
    pub fn graph_name(&self, generalized: bool) -> BoxedStrategy<Option<MT>> {
        let g = if generalized {
            self.term('g', true)
        } else if self.allow_bnode {
            prop_oneof![3 => self.iri(), 1 => self.bnode()].boxed()
        } else {
            self.iri()
        };
        prop_oneof![2 => Just(None), 3 => g.prop_map(Some)].boxed()
    }
    pub fn quad(&self, generalized: bool, with_graph: bool) -> BoxedStrategy<MQ> {
        let g = if with_graph {
            self.graph_name(generalized)
        } else {
            Just(None).boxed()
        };
        (
            self.term('s', generalized),
            self.term('p', generalized),
            self.term('o', generalized),
            g,
        )
            .prop_map(|(s, p, o, g)| MQ::new(s, p, o, g))
            .boxed()
    }
    pub fn quads(&self, generalized: bool, with_graph: bool, max: usize) -> BoxedStrategy<Vec<MQ>> {
        prop::collection::vec(self.quad(generalized, with_graph), 0..=max).boxed()
    }
}

/// Remove duplicates (model equality), keeping first occurrences.
pub fn dedup(qs: Vec<MQ>) -> Vec<MQ> {
    let mut seen = std::collections::BTreeSet::new();
    let mut out = vec![];
    for q in qs {
        if seen.insert(q.clone()) {
            out.push(q);
        }
    }
    out
}

/// Deterministic permutation of a vector from a list of swap indices.
pub fn permute<T>(mut v: Vec<T>, swaps: &[usize]) -> Vec<T> {
    let n = v.len();
    if n < 2 {
        return v;
    }
    for (i, s) in swaps.iter().enumerate() {
        let a = i % n;
        let b = s % n;
        v.swap(a, b);
    }
    v
}

// ---------------------------------------------------------------- blank-node shape library

/// A structural shape over blank nodes, later decorated with ground terms.
#[derive(Clone, Debug, serde::Serialize, serde::Deserialize)]
pub enum Shape {
    Cycle(usize),
    /// cycle of n with a tail of m entering it
    Rho(usize, usize),
    Clique(usize),
    Star(usize),
    Bipartite(usize, usize),
    Path(usize),
    /// two disjoint copies of a cycle
    TwoCycles(usize),
    Tree(usize),
    SelfLoop,
}

pub fn shape(max: usize) -> BoxedStrategy<Shape> {
    let m = max.max(3);
    prop_oneof![
        (1..=m).prop_map(Shape::Cycle),
        (1..=m / 2 + 1, 1..=m / 2 + 1).prop_map(|(a, b)| Shape::Rho(a, b)),
        (2..=(m.min(5))).prop_map(Shape::Clique),
        (1..=m).prop_map(Shape::Star),
        (1..=3usize, 1..=3usize).prop_map(|(a, b)| Shape::Bipartite(a, b)),
        (1..=m).prop_map(Shape::Path),
        (1..=m / 2 + 1).prop_map(Shape::TwoCycles),
        (2..=m).prop_map(Shape::Tree),
        Just(Shape::SelfLoop),
    ]
    .boxed()
}

impl Shape {
    /// arcs (from, to) over node indices 0..n; returns (n, arcs)
    pub fn arcs(&self) -> (usize, Vec<(usize, usize)>) {
        match *self {
            Shape::Cycle(n) => (n, (0..n).map(|i| (i, (i + 1) % n)).collect()),
            Shape::Rho(c, t) => {
                let mut a: Vec<(usize, usize)> = (0..c).map(|i| (i, (i + 1) % c)).collect();
                // tail nodes c..c+t, tail head = c+t-1 ... enters node 0
                for i in 0..t {
                    let from = c + i;
                    let to = if i == 0 { 0 } else { c + i - 1 };
                    a.push((from, to));
                }
                (c + t, a)
            }
            Shape::Clique(n) => {
                let mut a = vec![];
                for i in 0..n {
                    for j in 0..n {
                        if i != j {
                            a.push((i, j))
                        }
                    }
                }
                (n, a)
            }
            Shape::Star(n) => (n + 1, (1..=n).map(|i| (0, i)).collect()),
            Shape::Bipartite(m, n) => {
                let mut a = vec![];
                for i in 0..m {
                    for j in 0..n {
                        a.push((i, m + j))
                    }
                }
                (m + n, a)
            }
            Shape::Path(n) => (n + 1, (0..n).map(|i| (i, i + 1)).collect()),
            Shape::TwoCycles(n) => {
                let mut a: Vec<(usize, usize)> = (0..n).map(|i| (i, (i + 1) % n)).collect();
                a.extend((0..n).map(|i| (n + i, n + (i + 1) % n)));
                (2 * n, a)
            }
            Shape::Tree(n) => (n, (1..n).map(|i| ((i - 1) / 2, i)).collect()),
            Shape::SelfLoop => (1, vec![(0, 0)]),
        }
    }
    /// quads over blank nodes `prefix{i}` with predicate `p`, in graph `g`
    pub fn quads(&self, prefix: &str, p: &str, g: Option<MT>) -> Vec<MQ> {
        let (_, arcs) = self.arcs();
        arcs.into_iter()
            .map(|(a, b)| {
                MQ::new(
                    MT::bn(format!("{prefix}{a}")),
                    MT::iri(p),
                    MT::bn(format!("{prefix}{b}")),
                    g.clone(),
                )
            })
            .collect()
    }
}

/// Rename blank nodes with a bijection derived from `salt`, consistently everywhere.
pub fn relabel(qs: &[MQ], salt: u64) -> Vec<MQ> {
    let labels = all_bnodes(qs);
    // permutation of positions derived from salt
    let n = labels.len();
    let mut idx: Vec<usize> = (0..n).collect();
    let mut s = salt.wrapping_mul(0x9E3779B97F4A7C15) | 1;
    for i in (1..n).rev() {
        s ^= s << 13;
        s ^= s >> 7;
        s ^= s << 17;
        let j = (s % (i as u64 + 1)) as usize;
        idx.swap(i, j);
    }
    let map: std::collections::BTreeMap<String, String> = labels
        .iter()
        .enumerate()
        .map(|(i, l)| (l.clone(), format!("r{}x{}", salt % 7, idx[i])))
        .collect();
    qs.iter().map(|q| q.map_bnodes(&|b| map[b].clone())).collect()
}

/// `n` simple, pairwise distinct statements (IRIs, plain / tagged / integer literals, at most 8
/// distinguishable blank nodes, optionally 5 named graphs): serialised output of tens of KiB,
/// to exercise buffering / batching in serializers and parsers.
pub fn bulk_quads(n: usize, salt: u64, with_graphs: bool) -> Vec<MQ> {
    (0..n)
        .map(|i| {
            let k = (i as u64).wrapping_mul(2654435761) % 1000 + salt;
            let s = if i % 9 == 0 { MT::bn(format!("b{}", i % 8)) } else { MT::iri(format!("http://example.org/subject/{}", i / 3)) };
            let p = MT::iri(format!("http://example.org/vocab#p{}", i % 7));
            let o = match i % 4 {
                0 => MT::iri(format!("http://example.org/object/{i}")),
                1 => MT::string(format!("value {i} {}", "x".repeat((k % 40) as usize))),
                2 => MT::lang(format!("valeur {i} & <co>"), "fr"),
                _ => MT::lit(format!("{i}"), xsd("integer")),
            };
            let g = if with_graphs && i % 3 != 0 { Some(MT::iri(format!("http://example.org/graph/{}", i % 5))) } else { None };
            MQ::new(s, p, o, g)
        })
        .collect()
}


/// Well-formedness of a language tag per RFC 5646 section 2.1 (`Language-Tag` production: langtag,
/// privateuse or one of the grandfathered tags), case-insensitive. Independent of the toolkit's
/// own validator: used to tell a tag that *must* be accepted from one that may be excluded.
pub fn bcp47_well_formed(tag: &str) -> bool {
    let t = tag.to_ascii_lowercase();
    const GRANDFATHERED: &[&str] = &[
        "en-gb-oed", "i-ami", "i-bnn", "i-default", "i-enochian", "i-hak", "i-klingon", "i-lux", "i-mingo", "i-navajo", "i-pwn", "i-tao", "i-tay", "i-tsu", "sgn-be-fr", "sgn-be-nl", "sgn-ch-de",
        "art-lojban", "cel-gaulish", "no-bok", "no-nyn", "zh-guoyu", "zh-hakka", "zh-min", "zh-min-nan", "zh-xiang",
    ];
    if GRANDFATHERED.contains(&t.as_str()) {
        return true;
    }
    let subs: Vec<&str> = t.split('-').collect();
    if subs.iter().any(|s| s.is_empty() || s.len() > 8 || !s.chars().all(|c| c.is_ascii_alphanumeric())) {
        return false;
    }
    let alpha = |s: &str| s.chars().all(|c| c.is_ascii_alphabetic());
    let digit = |s: &str| s.chars().all(|c| c.is_ascii_digit());
    let privateuse = |subs: &[&str]| subs.len() >= 2 && subs[0] == "x";
    if subs[0] == "x" {
        return privateuse(&subs);
    }
    // language
    let mut i = 0;
    let l = subs[0];
    if !alpha(l) || l.len() < 2 {
        return false;
    }
    i += 1;
    if l.len() <= 3 {
        // up to three extlang subtags (3ALPHA each)
        let mut k = 0;
        while k < 3 && i < subs.len() && subs[i].len() == 3 && alpha(subs[i]) {
            i += 1;
            k += 1;
        }
    }
    // script
    if i < subs.len() && subs[i].len() == 4 && alpha(subs[i]) {
        i += 1;
    }
    // region
    if i < subs.len() && ((subs[i].len() == 2 && alpha(subs[i])) || (subs[i].len() == 3 && digit(subs[i]))) {
        i += 1;
    }
    // variants
    while i < subs.len() && ((subs[i].len() >= 5) || (subs[i].len() == 4 && subs[i].chars().next().unwrap().is_ascii_digit())) {
        i += 1;
    }
    // extensions
    while i < subs.len() && subs[i].len() == 1 && subs[i] != "x" {
        i += 1;
        let mut n = 0;
        while i < subs.len() && subs[i].len() >= 2 {
            i += 1;
            n += 1;
        }
        if n == 0 {
            return false;
        }
    }
    // private use
    if i < subs.len() {
        return privateuse(&subs[i..]);
    }
    true
}


/// Near-misses of the datatypes that serializers and parsers treat specially (xsd:string is implicit,
/// rdf:langString belongs to tagged literals, rdf:XMLLiteral / rdf:JSON have their own syntax): code that
/// recognises them loosely (case-insensitively, by suffix, by prefix) changes the datatype on a round trip.
pub fn near_miss_datatypes() -> Vec<String> {
    [
        "http://www.w3.org/2001/XMLSchema#String",
        "http://www.w3.org/2001/XMLSchema#STRING",
        "http://www.w3.org/2001/XMLSchema#string2",
        "http://www.w3.org/2001/XMLSchema#strin",
        "http://www.w3.org/2001/xmlschema#string",
        "HTTP://www.w3.org/2001/XMLSchema#string",
        "http://www.w3.org/2001/XMLSchema/string",
        "https://www.w3.org/2001/XMLSchema#string",
        "http://www.w3.org/2001/XMLSchema#normalizedString",
        "http://example.org/XMLSchema#string",
        "http://www.w3.org/1999/02/22-rdf-syntax-ns#langstring",
        "http://www.w3.org/1999/02/22-rdf-syntax-ns#LangString",
        "http://www.w3.org/1999/02/22-rdf-syntax-ns#xmlliteral",
        "http://www.w3.org/1999/02/22-rdf-syntax-ns#XMLLiteral2",
        "http://www.w3.org/1999/02/22-rdf-syntax-ns#json",
        "http://www.w3.org/2001/XMLSchema#Integer",
        "http://www.w3.org/2001/XMLSchema#BOOLEAN",
        "http://www.w3.org/2001/XMLSchema#Double",
    ]
    .iter()
    .map(|s| s.to_string())
    .collect()
}
