//! C20 — native Rust values map to valid typed literals and back without loss.
//!
//! Oracles (all independent of the code under test):
//!  * hand-written recognisers of the XSD lexical spaces (integer family with facets, decimal,
//!    double/float, boolean, string = XML Char*),
//!  * an exact decimal -> binary floating point rounding (`nearest`) on a tiny big-integer type
//!    (binary search over the ordered bit patterns + exact half-way comparison, ties to even),
//!  * the inverse property itself: value -> literal -> (any representation / serialisation round
//!    trip) -> value must be the identity (bitwise for f64, NaN -> NaN).
use crate::engine::*;
use crate::gen;
use crate::model::*;
use proptest::prelude::*;
use serde::{Deserialize, Serialize};
use sophia_api::prelude::{QuadParser, QuadSerializer, Stringifier, TripleSerializer};
use sophia_api::source::{IntoSource, QuadSource, TripleSource};
use sophia_api::term::{
    BnodeId, CmpTerm, IriRef, LanguageTag, SimpleTerm, Term, TermKind, TryFromTerm, VarName,
};
use sophia_api::triple::Triple;
use sophia_api::quad::Quad;
use sophia_api::MownStr;
use sophia_term::{ArcStrStash, ArcTerm, GenericLiteral, RcStrStash, RcTerm};
use std::cmp::Ordering;

#[derive(Clone, Debug, Serialize, Deserialize)]
pub enum Case {
    I32(i32),
    Isize(i64),
    Usize(u64),
    Bool(bool),
    /// bit pattern (keeps NaN payloads and the sign of zero through JSON)
    F64(u64),
    Str(String),
    /// arbitrary literal: lexical form, datatype IRI
    Lit(String, String),
    /// any term
    Term(MT),
}

pub struct C20;

// =====================================================================================
// tiny big unsigned integer
// =====================================================================================

#[derive(Clone, Debug, PartialEq, Eq)]
struct Big(Vec<u32>);
impl Big {
    fn from_u64(v: u64) -> Big {
        let mut b = Big(vec![v as u32, (v >> 32) as u32]);
        b.trim();
        b
    }
    fn from_dec(d: &str) -> Big {
        let mut b = Big(vec![]);
        for chunk in d.as_bytes().chunks(9) {
            let mut m = 1u32;
            let mut a = 0u32;
            for c in chunk {
                m *= 10;
                a = a * 10 + (c - b'0') as u32;
            }
            b.mul_small(m);
            b.add_small(a);
        }
        b
    }
    fn trim(&mut self) {
        while self.0.last() == Some(&0) {
            self.0.pop();
        }
    }
    fn is_zero(&self) -> bool {
        self.0.is_empty()
    }
    fn mul_small(&mut self, m: u32) {
        let mut carry = 0u64;
        for w in self.0.iter_mut() {
            let v = *w as u64 * m as u64 + carry;
            *w = v as u32;
            carry = v >> 32;
        }
        if carry > 0 {
            self.0.push(carry as u32);
        }
        self.trim();
    }
    fn add_small(&mut self, a: u32) {
        let mut carry = a as u64;
        for w in self.0.iter_mut() {
            if carry == 0 {
                break;
            }
            let v = *w as u64 + carry;
            *w = v as u32;
            carry = v >> 32;
        }
        if carry > 0 {
            self.0.push(carry as u32);
        }
    }
    fn mul_pow10(&mut self, mut k: u64) {
        while k >= 9 {
            self.mul_small(1_000_000_000);
            k -= 9;
        }
        if k > 0 {
            self.mul_small(10u32.pow(k as u32));
        }
    }
    fn shl(&mut self, bits: u64) {
        if self.is_zero() {
            return;
        }
        let words = (bits / 32) as usize;
        let rem = (bits % 32) as u32;
        if rem > 0 {
            let mut carry = 0u32;
            for w in self.0.iter_mut() {
                let v = ((*w as u64) << rem) | carry as u64;
                *w = v as u32;
                carry = (v >> 32) as u32;
            }
            if carry > 0 {
                self.0.push(carry);
            }
        }
        if words > 0 {
            let mut v = vec![0u32; words];
            v.extend_from_slice(&self.0);
            self.0 = v;
        }
    }
    fn cmp_big(&self, o: &Big) -> Ordering {
        Ord::cmp(&self.0.len(), &o.0.len()).then_with(|| Iterator::cmp(self.0.iter().rev(), o.0.iter().rev()))
    }
}

// =====================================================================================
// XSD lexical spaces and exact values
// =====================================================================================

/// A decimal number `(-1)^neg * digits * 10^exp` (digits: ASCII digits, no leading zeros, "0" for zero).
#[derive(Clone, Debug)]
struct Dec {
    neg: bool,
    digits: String,
    exp: i64,
}
impl Dec {
    fn is_zero(&self) -> bool {
        self.digits == "0"
    }
}

/// `[+-]?([0-9]+(\.[0-9]*)?|\.[0-9]+)([eE][+-]?[0-9]+)?` (exponent only if `allow_exp`).
fn parse_decimal_lexical(lex: &str, allow_exp: bool) -> Option<Dec> {
    let b = lex.as_bytes();
    let mut i = 0;
    let mut neg = false;
    if i < b.len() && (b[i] == b'+' || b[i] == b'-') {
        neg = b[i] == b'-';
        i += 1;
    }
    let int_start = i;
    while i < b.len() && b[i].is_ascii_digit() {
        i += 1;
    }
    let int_part = &lex[int_start..i];
    let mut frac_part = "";
    if i < b.len() && b[i] == b'.' {
        i += 1;
        let fs = i;
        while i < b.len() && b[i].is_ascii_digit() {
            i += 1;
        }
        frac_part = &lex[fs..i];
        if int_part.is_empty() && frac_part.is_empty() {
            return None;
        }
    } else if int_part.is_empty() {
        return None;
    }
    let mut exp: i64 = 0;
    if i < b.len() && (b[i] == b'e' || b[i] == b'E') {
        if !allow_exp {
            return None;
        }
        i += 1;
        let mut eneg = false;
        if i < b.len() && (b[i] == b'+' || b[i] == b'-') {
            eneg = b[i] == b'-';
            i += 1;
        }
        let es = i;
        while i < b.len() && b[i].is_ascii_digit() {
            i += 1;
        }
        if es == i {
            return None;
        }
        let ed = lex[es..i].trim_start_matches('0');
        let mag: i64 = if ed.len() > 7 { 10_000_000 } else { ed.parse().unwrap_or(0) };
        exp = if eneg { -mag } else { mag };
    }
    if i != b.len() {
        return None;
    }
    let mut digits = format!("{int_part}{frac_part}");
    exp -= frac_part.len() as i64;
    let t = digits.trim_start_matches('0').to_string();
    digits = if t.is_empty() { "0".into() } else { t };
    Some(Dec { neg, digits, exp })
}

/// `[+-]?[0-9]+`
fn parse_integer_lexical(lex: &str) -> Option<Dec> {
    let body = lex.strip_prefix(['+', '-']).unwrap_or(lex);
    if body.is_empty() || !body.bytes().all(|c| c.is_ascii_digit()) {
        return None;
    }
    parse_decimal_lexical(lex, false)
}

/// integer value of an integral `Dec` with exp == 0, if it fits an i128
fn dec_to_i128(d: &Dec) -> Option<i128> {
    if d.exp != 0 || d.digits.len() > 38 {
        return None;
    }
    let v: i128 = d.digits.parse().ok()?;
    Some(if d.neg { -v } else { v })
}

#[derive(Clone, Copy)]
enum Fp {
    F64,
    F32,
}
impl Fp {
    fn inf_k(self) -> u64 {
        match self {
            Fp::F64 => 0x7FF0_0000_0000_0000,
            Fp::F32 => 0x7F80_0000,
        }
    }
    /// value(k) = m * 2^e for the k-th non-negative finite value
    fn decompose(self, k: u64) -> (u64, i64) {
        match self {
            Fp::F64 => {
                let frac = k & ((1u64 << 52) - 1);
                let ex = (k >> 52) as i64;
                if ex == 0 {
                    (frac, -1074)
                } else {
                    (frac | (1u64 << 52), ex - 1075)
                }
            }
            Fp::F32 => {
                let frac = k & ((1u64 << 23) - 1);
                let ex = (k >> 23) as i64;
                if ex == 0 {
                    (frac, -149)
                } else {
                    (frac | (1u64 << 23), ex - 150)
                }
            }
        }
    }
    fn value(self, k: u64) -> f64 {
        match self {
            Fp::F64 => f64::from_bits(k),
            Fp::F32 => f32::from_bits(k as u32) as f64,
        }
    }
}

/// compare |d| = digits * 10^exp with m * 2^e, exactly. None = too large to evaluate.
fn cmp_dec_bin(d: &Dec, m: u64, e: i64) -> Option<Ordering> {
    if d.is_zero() {
        return Some(if m == 0 { Ordering::Equal } else { Ordering::Less });
    }
    if m == 0 {
        return Some(Ordering::Greater);
    }
    let n = d.digits.len() as i64;
    if n > 3000 {
        return None;
    }
    if n + d.exp > 400 {
        return Some(Ordering::Greater);
    }
    if n + d.exp < -400 {
        return Some(Ordering::Less);
    }
    let mut lhs = Big::from_dec(&d.digits);
    let mut rhs = Big::from_u64(m);
    if d.exp > 0 {
        lhs.mul_pow10(d.exp as u64);
    } else if d.exp < 0 {
        rhs.mul_pow10((-d.exp) as u64);
    }
    if e < 0 {
        lhs.shl((-e) as u64);
    } else if e > 0 {
        rhs.shl(e as u64);
    }
    Some(lhs.cmp_big(&rhs))
}

/// The value of format `fp` nearest to the decimal number (round half to even, overflow to
/// infinity): IEEE 754 roundTiesToEven == XSD 1.1 floatingPointRound.
fn nearest(d: &Dec, fp: Fp) -> Option<f64> {
    let mut lo = 0u64; // value(lo) <= |d|
    let mut hi = fp.inf_k() - 1;
    {
        let (m, e) = fp.decompose(hi);
        if cmp_dec_bin(d, m, e)? != Ordering::Less {
            lo = hi;
        }
    }
    while lo < hi {
        let mid = lo + (hi - lo + 1) / 2;
        let (m, e) = fp.decompose(mid);
        match cmp_dec_bin(d, m, e)? {
            Ordering::Less => hi = mid - 1,
            _ => lo = mid,
        }
    }
    let (m, e) = fp.decompose(lo);
    let k = match cmp_dec_bin(d, m, e)? {
        Ordering::Equal => lo,
        _ => match cmp_dec_bin(d, 2 * m + 1, e - 1)? {
            Ordering::Less => lo,
            Ordering::Greater => lo + 1,
            Ordering::Equal => {
                if m % 2 == 0 {
                    lo
                } else {
                    lo + 1
                }
            }
        },
    };
    let v = if k >= fp.inf_k() { f64::INFINITY } else { fp.value(k) };
    Some(if d.neg { -v } else { v })
}

/// value denoted by a lexical form of xsd:double / xsd:float (None = not in the lexical space)
enum FpLex {
    Num(Dec),
    Inf(bool),
    NaN,
}
fn parse_fp_lexical(lex: &str) -> Option<FpLex> {
    match lex {
        "INF" | "+INF" => Some(FpLex::Inf(false)),
        "-INF" => Some(FpLex::Inf(true)),
        "NaN" => Some(FpLex::NaN),
        _ => parse_decimal_lexical(lex, true).map(FpLex::Num),
    }
}

/// Char of XML 1.1 (the most permissive reading of xsd:string's "Char" production)
fn is_xml11_char(c: char) -> bool {
    !matches!(c, '\u{0}' | '\u{FFFE}' | '\u{FFFF}')
}
/// Char of XML 1.0 (what an RDF/XML document can carry)
fn is_xml10_char(c: char) -> bool {
    matches!(c, '\u{9}' | '\u{A}' | '\u{D}' | '\u{20}'..='\u{D7FF}' | '\u{E000}'..='\u{FFFD}' | '\u{10000}'..='\u{10FFFF}')
}

#[derive(Clone, Copy, Debug, PartialEq)]
enum Family {
    /// integer-derived, with inclusive facets
    Int(Option<i128>, Option<i128>),
    Decimal,
    Double,
    Float,
    Boolean,
    Other,
}
fn family(dt: &str) -> Family {
    let Some(l) = dt.strip_prefix(XSD) else { return Family::Other };
    match l {
        "integer" => Family::Int(None, None),
        "long" => Family::Int(Some(i64::MIN as i128), Some(i64::MAX as i128)),
        "int" => Family::Int(Some(i32::MIN as i128), Some(i32::MAX as i128)),
        "short" => Family::Int(Some(i16::MIN as i128), Some(i16::MAX as i128)),
        "byte" => Family::Int(Some(i8::MIN as i128), Some(i8::MAX as i128)),
        "unsignedLong" => Family::Int(Some(0), Some(u64::MAX as i128)),
        "unsignedInt" => Family::Int(Some(0), Some(u32::MAX as i128)),
        "unsignedShort" => Family::Int(Some(0), Some(u16::MAX as i128)),
        "unsignedByte" => Family::Int(Some(0), Some(u8::MAX as i128)),
        "nonNegativeInteger" => Family::Int(Some(0), None),
        "nonPositiveInteger" => Family::Int(None, Some(0)),
        "negativeInteger" => Family::Int(None, Some(-1)),
        "positiveInteger" => Family::Int(Some(1), None),
        "decimal" => Family::Decimal,
        "double" => Family::Double,
        "float" => Family::Float,
        "boolean" => Family::Boolean,
        _ => Family::Other,
    }
}

/// The exact number denoted by a literal of a numeric datatype, if its lexical form is valid.
enum Denoted {
    /// an exact decimal number (integer family, decimal)
    Exact(Dec),
    /// a floating point value (already rounded to the datatype's value space)
    Fp(f64),
    Bool(bool),
    /// the lexical form is not in the lexical space (or violates a facet): ill-typed literal
    IllTyped,
    /// datatype outside the numeric/boolean families: denotes no number at all
    NotNumeric,
    /// oracle cannot evaluate (absurdly long input)
    Unknown,
}
fn denoted(lex: &str, dt: &str) -> Denoted {
    match family(dt) {
        Family::Other => Denoted::NotNumeric,
        Family::Boolean => match lex {
            "true" | "1" => Denoted::Bool(true),
            "false" | "0" => Denoted::Bool(false),
            _ => Denoted::IllTyped,
        },
        Family::Int(min, max) => match parse_integer_lexical(lex) {
            None => Denoted::IllTyped,
            Some(d) => {
                if min.is_some() || max.is_some() {
                    match dec_to_i128(&d) {
                        None => return Denoted::IllTyped, // > 38 digits: outside every bounded facet... or unbounded side
                        Some(v) => {
                            if min.map(|m| v < m).unwrap_or(false) || max.map(|m| v > m).unwrap_or(false) {
                                return Denoted::IllTyped;
                            }
                        }
                    }
                }
                Denoted::Exact(d)
            }
        },
        Family::Decimal => match parse_decimal_lexical(lex, false) {
            None => Denoted::IllTyped,
            Some(d) => Denoted::Exact(d),
        },
        Family::Double | Family::Float => {
            let fp = if family(dt) == Family::Double { Fp::F64 } else { Fp::F32 };
            match parse_fp_lexical(lex) {
                None => Denoted::IllTyped,
                Some(FpLex::NaN) => Denoted::Fp(f64::NAN),
                Some(FpLex::Inf(neg)) => Denoted::Fp(if neg { f64::NEG_INFINITY } else { f64::INFINITY }),
                Some(FpLex::Num(d)) => match nearest(&d, fp) {
                    Some(v) => Denoted::Fp(v),
                    None => Denoted::Unknown,
                },
            }
        }
    }
}

fn same_f64(a: f64, b: f64) -> bool {
    (a.is_nan() && b.is_nan()) || a.to_bits() == b.to_bits()
}

// =====================================================================================
// native kinds
// =====================================================================================

trait Kind {
    type Val: Clone + std::fmt::Debug;
    const NAME: &'static str;
    const DT: &'static str;
    fn back<T: Term>(t: T) -> Result<Self::Val, String>;
    fn same(a: &Self::Val, b: &Self::Val) -> bool;
    fn lexical_ok(lex: &str) -> bool;
    /// label of the region of the value space (the *trigger* used in signatures)
    fn region(v: &Self::Val) -> String;
}

fn xsd_(s: &str) -> String {
    format!("{XSD}{s}")
}

struct KI32;
struct KIsize;
struct KUsize;
struct KBool;
struct KF64;
struct KStr;

fn int_region(v: i128) -> String {
    if v == 0 {
        "zero".into()
    } else if v < 0 {
        "negative".into()
    } else {
        "positive".into()
    }
}
impl Kind for KI32 {
    type Val = i32;
    const NAME: &'static str = "i32";
    const DT: &'static str = "integer";
    fn back<T: Term>(t: T) -> Result<i32, String> {
        i32::try_from_term(t).map_err(|e| e.to_string())
    }
    fn same(a: &i32, b: &i32) -> bool {
        a == b
    }
    fn lexical_ok(lex: &str) -> bool {
        parse_integer_lexical(lex).is_some()
    }
    fn region(v: &i32) -> String {
        int_region(*v as i128)
    }
}
impl Kind for KIsize {
    type Val = isize;
    const NAME: &'static str = "isize";
    const DT: &'static str = "integer";
    fn back<T: Term>(t: T) -> Result<isize, String> {
        isize::try_from_term(t).map_err(|e| e.to_string())
    }
    fn same(a: &isize, b: &isize) -> bool {
        a == b
    }
    fn lexical_ok(lex: &str) -> bool {
        parse_integer_lexical(lex).is_some()
    }
    fn region(v: &isize) -> String {
        int_region(*v as i128)
    }
}
impl Kind for KUsize {
    type Val = usize;
    const NAME: &'static str = "usize";
    const DT: &'static str = "integer";
    fn back<T: Term>(t: T) -> Result<usize, String> {
        usize::try_from_term(t).map_err(|e| e.to_string())
    }
    fn same(a: &usize, b: &usize) -> bool {
        a == b
    }
    fn lexical_ok(lex: &str) -> bool {
        parse_integer_lexical(lex).is_some()
    }
    fn region(v: &usize) -> String {
        int_region(*v as i128)
    }
}
impl Kind for KBool {
    type Val = bool;
    const NAME: &'static str = "bool";
    const DT: &'static str = "boolean";
    fn back<T: Term>(t: T) -> Result<bool, String> {
        bool::try_from_term(t).map_err(|e| e.to_string())
    }
    fn same(a: &bool, b: &bool) -> bool {
        a == b
    }
    fn lexical_ok(lex: &str) -> bool {
        matches!(lex, "true" | "false" | "1" | "0")
    }
    fn region(v: &bool) -> String {
        v.to_string()
    }
}
impl Kind for KF64 {
    type Val = f64;
    const NAME: &'static str = "f64";
    const DT: &'static str = "double";
    fn back<T: Term>(t: T) -> Result<f64, String> {
        f64::try_from_term(t).map_err(|e| e.to_string())
    }
    fn same(a: &f64, b: &f64) -> bool {
        same_f64(*a, *b)
    }
    fn lexical_ok(lex: &str) -> bool {
        parse_fp_lexical(lex).is_some()
    }
    fn region(v: &f64) -> String {
        if v.is_nan() {
            "NaN".into()
        } else if v.is_infinite() {
            if *v > 0.0 { "+infinity".into() } else { "-infinity".into() }
        } else if *v == 0.0 {
            if v.is_sign_negative() { "-0".into() } else { "+0".into() }
        } else if v.abs() < f64::MIN_POSITIVE {
            "subnormal".into()
        } else {
            "finite".into()
        }
    }
}
impl Kind for KStr {
    type Val = String;
    const NAME: &'static str = "str";
    const DT: &'static str = "string";
    fn back<T: Term>(t: T) -> Result<String, String> {
        // there is no TryFromTerm for strings: the "native value" of an xsd:string literal is its lexical form
        if t.kind() != TermKind::Literal {
            return Err(format!("not a literal: {:?}", t.kind()));
        }
        if t.language_tag().is_some() {
            return Err("language-tagged".into());
        }
        let dt = t.datatype().ok_or("no datatype")?;
        if dt.as_str() != XSD_STRING {
            return Err(format!("datatype {}", dt.as_str()));
        }
        Ok(t.lexical_form().ok_or("no lexical form")?.to_string())
    }
    fn same(a: &String, b: &String) -> bool {
        a == b
    }
    fn lexical_ok(lex: &str) -> bool {
        lex.chars().all(is_xml11_char)
    }
    fn region(v: &String) -> String {
        if v.chars().any(|c| !is_xml11_char(c)) {
            "non-xml-char".into()
        } else if !v.is_empty() && v.chars().all(|c| matches!(c, ' ' | '\t' | '\n' | '\r')) {
            "whitespace-only".into()
        } else if v.contains('\r') {
            "carriage-return".into()
        } else if v.chars().any(|c| !is_xml10_char(c)) {
            "c0-control".into()
        } else if v.chars().any(|c| c == '\n' || c == '\t') {
            "newline-tab".into()
        } else if v.chars().any(|c| matches!(c, '"' | '\\' | '<' | '>' | '&' | '\'')) {
            "markup-quote".into()
        } else if !v.is_ascii() {
            "non-ascii".into()
        } else if v.is_empty() {
            "empty".into()
        } else if v.starts_with(' ') || v.ends_with(' ') {
            "space-padded".into()
        } else {
            "plain".into()
        }
    }
}

// =====================================================================================
// serialisation round trips. A `Slot` lets the native value itself sit in a triple.
// =====================================================================================

#[derive(Clone, Copy, Debug)]
enum Slot<N> {
    I(&'static str),
    N(N),
}
impl<N: Term + Copy> Term for Slot<N> {
    type BorrowTerm<'x>
        = Slot<N>
    where
        N: 'x;
    fn kind(&self) -> TermKind {
        match self {
            Slot::I(_) => TermKind::Iri,
            Slot::N(n) => n.kind(),
        }
    }
    fn iri(&self) -> Option<IriRef<MownStr>> {
        match self {
            Slot::I(i) => Some(IriRef::new_unchecked(MownStr::from_ref(i))),
            Slot::N(n) => n.iri(),
        }
    }
    fn lexical_form(&self) -> Option<MownStr> {
        match self {
            Slot::I(_) => None,
            Slot::N(n) => n.lexical_form(),
        }
    }
    fn datatype(&self) -> Option<IriRef<MownStr>> {
        match self {
            Slot::I(_) => None,
            Slot::N(n) => n.datatype(),
        }
    }
    fn language_tag(&self) -> Option<LanguageTag<MownStr>> {
        match self {
            Slot::I(_) => None,
            Slot::N(n) => n.language_tag(),
        }
    }
    fn bnode_id(&self) -> Option<BnodeId<MownStr>> {
        None
    }
    fn variable(&self) -> Option<VarName<MownStr>> {
        None
    }
    fn triple(&self) -> Option<[Self::BorrowTerm<'_>; 3]> {
        None
    }
    fn to_triple(self) -> Option<[Self; 3]> {
        None
    }
    fn borrow_term(&self) -> Self::BorrowTerm<'_> {
        *self
    }
}

const S_IRI: &str = "http://x/s";
const P_IRI: &str = "http://x/p";
const G_IRI: &str = "http://x/g";

pub const FORMATS: &[&str] = &[
    "nt", "nq", "turtle", "turtle-pretty", "trig", "trig-pretty", "rdfxml", "rdfxml-indent", "jsonld", "jsonld-pretty",
];

/// What came back: the object read through accessors, and `K::back` applied to the
/// parser-backed term inside the parser callback.
type RtOut<V> = Result<(MT, Result<V, String>), String>;

fn rt<K: Kind, N: Term + Copy>(fmt: &str, n: N) -> RtOut<K::Val> {
    use sophia_turtle::serializer::{nq::NqSerializer, nt::NtSerializer, trig::TrigConfig, trig::TrigSerializer, turtle::TurtleConfig, turtle::TurtleSerializer};
    let triple = [Slot::I(S_IRI), Slot::I(P_IRI), Slot::N(n)];
    let quad = (triple, Some(Slot::<N>::I(G_IRI)));
    let ts = || [triple].into_iter().into_source();
    let qs = || [quad].into_iter().into_source();
    let es = |e: &dyn std::fmt::Display| format!("serializer error: {e}");
    let txt: String = match fmt {
        "nt" => NtSerializer::new_stringifier().serialize_triples(ts()).map_err(|e| es(&e))?.to_string(),
        "nq" => NqSerializer::new_stringifier().serialize_quads(qs()).map_err(|e| es(&e))?.to_string(),
        "turtle" => TurtleSerializer::new_stringifier().serialize_triples(ts()).map_err(|e| es(&e))?.to_string(),
        "turtle-pretty" => TurtleSerializer::new_stringifier_with_config(TurtleConfig::new().with_pretty(true))
            .serialize_triples(ts())
            .map_err(|e| es(&e))?
            .to_string(),
        "trig" => TrigSerializer::new_stringifier().serialize_quads(qs()).map_err(|e| es(&e))?.to_string(),
        "trig-pretty" => TrigSerializer::new_stringifier_with_config(TrigConfig::new().with_pretty(true))
            .serialize_quads(qs())
            .map_err(|e| es(&e))?
            .to_string(),
        "rdfxml" => sophia_xml::serializer::RdfXmlSerializer::new_stringifier()
            .serialize_triples(ts())
            .map_err(|e| es(&e))?
            .to_string(),
        "rdfxml-indent" => sophia_xml::serializer::RdfXmlSerializer::new_stringifier_with_config(
            sophia_xml::serializer::RdfXmlConfig::new().with_indentation(2),
        )
        .serialize_triples(ts())
        .map_err(|e| es(&e))?
        .to_string(),
        "jsonld" => sophia_jsonld::JsonLdSerializer::new_stringifier()
            .serialize_quads(qs())
            .map_err(|e| es(&e))?
            .to_string(),
        "jsonld-pretty" => sophia_jsonld::JsonLdSerializer::new_stringifier_with_options(sophia_jsonld::JsonLdOptions::new().with_spaces(2))
            .serialize_quads(qs())
            .map_err(|e| es(&e))?
            .to_string(),
        _ => unreachable!(),
    };
    if std::env::var_os("C20_DEBUG").is_some() {
        eprintln!("[{fmt}] {txt:?}");
    }
    let mut out: Vec<(MT, Result<K::Val, String>)> = vec![];
    let ep = |e: &dyn std::fmt::Display| format!("parser error: {e} on document {txt:?}");
    match fmt {
        "nt" => sophia_turtle::parser::nt::parse_str(&txt)
            .for_each_triple(|t| out.push((MT::from_term(t.o()), K::back(t.o()))))
            .map_err(|e| ep(&e))?,
        "turtle" | "turtle-pretty" => sophia_turtle::parser::turtle::parse_str(&txt)
            .for_each_triple(|t| out.push((MT::from_term(t.o()), K::back(t.o()))))
            .map_err(|e| ep(&e))?,
        "nq" => sophia_turtle::parser::nq::parse_str(&txt)
            .for_each_quad(|q| out.push((MT::from_term(q.o()), K::back(q.o()))))
            .map_err(|e| ep(&e))?,
        "trig" | "trig-pretty" => sophia_turtle::parser::trig::parse_str(&txt)
            .for_each_quad(|q| out.push((MT::from_term(q.o()), K::back(q.o()))))
            .map_err(|e| ep(&e))?,
        "rdfxml" | "rdfxml-indent" => sophia_xml::parser::parse_str(&txt)
            .for_each_triple(|t| out.push((MT::from_term(t.o()), K::back(t.o()))))
            .map_err(|e| ep(&e))?,
        "jsonld" | "jsonld-pretty" => sophia_jsonld::JsonLdParser::new()
            .parse_str(&txt)
            .for_each_quad(|q| out.push((MT::from_term(q.o()), K::back(q.o()))))
            .map_err(|e| ep(&e))?,
        _ => unreachable!(),
    }
    if out.len() != 1 {
        return Err(format!("{} statements came back instead of 1 from document {txt:?}", out.len()));
    }
    Ok(out.pop().unwrap())
}

// =====================================================================================
// the checks
// =====================================================================================

fn check_repr<K: Kind, T: Term>(ctx: &mut Ctx, repr: &str, orig: &K::Val, exp_lex: &str, t: T) {
    let region = K::region(orig);
    let m = MT::from_term(t.borrow_term());
    let want = MT::lit(exp_lex, xsd_(K::DT));
    if !m.same_repr(&want) {
        ctx.fail(
            format!("copy/{}/{repr}/{region}", K::NAME),
            format!("{} value {orig:?}: copy into {repr} reads back as {} instead of {}", K::NAME, m.show(), want.show()),
        );
    }
    match catch(|| K::back(t.borrow_term())) {
        Err(p) => ctx.fail(format!("roundtrip/{}/{repr}/{region}", K::NAME), format!("{} value {orig:?} via {repr}: panic {p}", K::NAME)),
        Ok(Err(e)) => ctx.fail(
            format!("roundtrip/{}/{repr}/{region}", K::NAME),
            format!("{} value {orig:?} via {repr} ({}): conversion back fails: {e}", K::NAME, m.show()),
        ),
        Ok(Ok(v)) => {
            if !K::same(&v, orig) {
                ctx.fail(
                    format!("roundtrip/{}/{repr}/{region}", K::NAME),
                    format!("{} value {orig:?} via {repr} ({}): converts back to {v:?}", K::NAME, m.show()),
                );
            }
        }
    }
}

fn check_native<K: Kind, N: Term + Copy>(ctx: &mut Ctx, n: N, orig: K::Val) {
    let region = K::region(&orig);
    ctx.class(format!("{}:{region}", K::NAME));
    // 1. the native value as a term: kind, accessors, datatype, lexical validity
    let kind = n.kind();
    if kind != TermKind::Literal {
        ctx.fail(format!("term/{}/kind", K::NAME), format!("{orig:?}: kind {kind:?}"));
        return;
    }
    if n.iri().is_some() || n.bnode_id().is_some() || n.variable().is_some() || n.triple().is_some() || n.language_tag().is_some() {
        ctx.fail(format!("term/{}/accessors", K::NAME), format!("{orig:?}: a non-literal accessor returns Some"));
    }
    if !(n.is_literal() && n.is_atom() && !n.is_iri() && !n.is_blank_node() && !n.is_triple() && !n.is_variable()) {
        ctx.fail(format!("term/{}/accessors", K::NAME), format!("{orig:?}: is_* inconsistent with kind"));
    }
    let (Some(lex), Some(dt)) = (n.lexical_form(), n.datatype()) else {
        ctx.fail(format!("term/{}/accessors", K::NAME), format!("{orig:?}: lexical_form/datatype is None"));
        return;
    };
    let lex = lex.to_string();
    if dt.as_str() != xsd_(K::DT) {
        ctx.fail(format!("datatype/{}", K::NAME), format!("{orig:?}: datatype {} instead of xsd:{}", dt.as_str(), K::DT));
    }
    if !K::lexical_ok(&lex) {
        ctx.fail(
            format!("lexical/{}/{region}", K::NAME),
            format!("{} value {orig:?} has lexical form {lex:?}, which is not in the lexical space of xsd:{}", K::NAME, K::DT),
        );
    }
    // two reads agree (lexical_form allocates on demand)
    if n.lexical_form().map(|l| l.to_string()) != Some(lex.clone()) {
        ctx.fail(format!("term/{}/unstable-lexical", K::NAME), format!("{orig:?}: two calls of lexical_form differ"));
    }
    // 2. every term representation converts back to the original
    check_repr::<K, _>(ctx, "native", &orig, &lex, n);
    check_repr::<K, _>(ctx, "borrow_term", &orig, &lex, n.borrow_term());
    check_repr::<K, _>(ctx, "CmpTerm", &orig, &lex, CmpTerm(n));
    let st: SimpleTerm<'static> = n.into_term();
    check_repr::<K, _>(ctx, "SimpleTerm", &orig, &lex, &st);
    check_repr::<K, _>(ctx, "as_simple", &orig, &lex, n.as_simple());
    let st2: SimpleTerm<'static> = n.try_into_term().unwrap();
    check_repr::<K, _>(ctx, "SimpleTerm(try)", &orig, &lex, st2);
    let at: ArcTerm = n.into_term();
    check_repr::<K, _>(ctx, "ArcTerm", &orig, &lex, &at);
    let rt_: RcTerm = n.into_term();
    check_repr::<K, _>(ctx, "RcTerm", &orig, &lex, &rt_);
    match GenericLiteral::<String>::try_from_term(n) {
        Ok(gl) => check_repr::<K, _>(ctx, "GenericLiteral<String>", &orig, &lex, &gl),
        Err(e) => ctx.fail(format!("copy/{}/GenericLiteral/{region}", K::NAME), format!("{orig:?}: {e}")),
    }
    match GenericLiteral::<std::sync::Arc<str>>::try_from_term(&st) {
        Ok(gl) => check_repr::<K, _>(ctx, "GenericLiteral<Arc<str>>", &orig, &lex, &gl),
        Err(e) => ctx.fail(format!("copy/{}/GenericLiteral/{region}", K::NAME), format!("{orig:?}: {e}")),
    }
    let mut stash = ArcStrStash::new();
    check_repr::<K, _>(ctx, "ArcStrStash", &orig, &lex, stash.copy_term(n));
    let mut stash = RcStrStash::new();
    check_repr::<K, _>(ctx, "RcStrStash", &orig, &lex, stash.copy_term(n));
    let cmp_simple: CmpTerm<SimpleTerm<'static>> = n.into_term();
    check_repr::<K, _>(ctx, "CmpTerm<SimpleTerm>", &orig, &lex, cmp_simple);
    let res: sophia_sparql::ResultTerm = at.clone().into();
    check_repr::<K, _>(ctx, "ResultTerm", &orig, &lex, res);
    // the model-built literal with the same lexical form (i.e. "any other term" that is the image)
    check_repr::<K, _>(ctx, "model-literal", &orig, &lex, MT::lit(lex.clone(), xsd_(K::DT)).to_simple());

    // 3. serialisation round trips
    let xml_ok = lex.chars().all(is_xml10_char);
    for fmt in FORMATS {
        let r = match catch(|| rt::<K, N>(fmt, n)) {
            Ok(r) => r,
            Err(p) => {
                ctx.fail(format!("serialise/{}/{fmt}/{region}", K::NAME), format!("{} value {orig:?} via {fmt}: panic {p}", K::NAME));
                continue;
            }
        };
        let xmlish = fmt.starts_with("rdfxml");
        // indentation is only a formatter option of the same code path: one signature for both
        let fmt: &str = if xmlish { "rdfxml" } else { *fmt };
        if xmlish && !xml_ok {
            // XML 1.0 cannot carry this character at all; any outcome other than a silent
            // success is acceptable, and even the outcome is only counted (C18's business).
            ctx.class(format!("rdfxml-unrepresentable:{}", if r.is_ok() { "ok" } else { "error" }));
            continue;
        }
        match r {
            Err(e) => ctx.fail(
                format!("serialise/{}/{fmt}/{region}", K::NAME),
                format!("{} value {orig:?} (lexical {lex:?}) via {fmt}: {e}", K::NAME),
            ),
            Ok((m, back)) => match back {
                Err(e) => ctx.fail(
                    format!("serialise/{}/{fmt}/{region}", K::NAME),
                    format!("{} value {orig:?} via {fmt}: came back as {} and conversion fails: {e}", K::NAME, m.show()),
                ),
                Ok(v) => {
                    if !K::same(&v, &orig) {
                        ctx.fail(
                            format!("serialise/{}/{fmt}/{region}", K::NAME),
                            format!("{} value {orig:?} via {fmt}: came back as {} = {v:?}", K::NAME, m.show()),
                        );
                    }
                }
            },
        }
    }
}

#[derive(Clone, Debug, PartialEq)]
enum Conv {
    I(i128),
    F(u64),
    B(bool),
    Err,
    Panic(String),
}
impl Conv {
    fn show(&self) -> String {
        match self {
            Conv::F(b) => format!("{:?}f64", f64::from_bits(*b)),
            o => format!("{o:?}"),
        }
    }
}
fn norm_f(v: f64) -> u64 {
    if v.is_nan() {
        f64::NAN.to_bits()
    } else {
        v.to_bits()
    }
}

/// all five conversions of one term
fn convert_all<T: Term>(t: T) -> [Conv; 5] {
    fn c<R>(r: Result<Result<R, impl std::fmt::Display>, String>, f: impl Fn(R) -> Conv) -> Conv {
        match r {
            Err(p) => Conv::Panic(p),
            Ok(Err(_)) => Conv::Err,
            Ok(Ok(v)) => f(v),
        }
    }
    [
        c(catch(|| i32::try_from_term(t.borrow_term())), |v| Conv::I(v as i128)),
        c(catch(|| isize::try_from_term(t.borrow_term())), |v| Conv::I(v as i128)),
        c(catch(|| usize::try_from_term(t.borrow_term())), |v| Conv::I(v as i128)),
        c(catch(|| f64::try_from_term(t.borrow_term())), |v| Conv::F(norm_f(v))),
        c(catch(|| bool::try_from_term(t.borrow_term())), Conv::B),
    ]
}
const TARGETS: [&str; 5] = ["i32", "isize", "usize", "f64", "bool"];

fn dt_label(dt: &str) -> String {
    match dt.strip_prefix(XSD) {
        Some(l) if family(dt) != Family::Other => format!("xsd:{l}"),
        Some(_) => "xsd:other".into(),
        None => "non-xsd".into(),
    }
}

/// features of a lexical form, used as the trigger part of signatures
fn lex_shape(lex: &str) -> &'static str {
    if lex.is_empty() {
        "empty"
    } else if lex.chars().any(|c| c.is_whitespace()) {
        "whitespace"
    } else if matches!(lex.to_ascii_lowercase().trim_start_matches(['+', '-']), "inf" | "infinity" | "nan") {
        "non-finite-word"
    } else if !lex.is_ascii() {
        "non-ascii"
    } else if parse_integer_lexical(lex).is_some() {
        "integer"
    } else if parse_decimal_lexical(lex, false).is_some() {
        "decimal"
    } else if parse_decimal_lexical(lex, true).is_some() {
        "exponent"
    } else {
        "malformed"
    }
}

fn check_literal(ctx: &mut Ctx, lex: &str, dt: &str) {
    let fam = family(dt);
    let dtl = dt_label(dt);
    let shape = lex_shape(lex);
    ctx.class(format!("lit-dt:{dtl}"));
    ctx.class(format!("lit-lex:{shape}"));
    let m = MT::lit(lex, dt);
    let st = m.to_simple();
    let base = convert_all(&st);
    // every representation of the same literal converts identically
    let at: ArcTerm = (&st).into_term();
    let others: Vec<(&str, [Conv; 5])> = vec![
        ("ArcTerm", convert_all(&at)),
        ("as_simple", convert_all(at.as_simple())),
        ("CmpTerm", convert_all(CmpTerm(&st))),
        ("GenericLiteral", convert_all(GenericLiteral::<Box<str>>::try_from_term(&st).unwrap())),
        ("ResultTerm", convert_all(sophia_sparql::ResultTerm::from(at.clone()))),
    ];
    for (name, o) in &others {
        if *o != base {
            ctx.fail(
                format!("convert/representation-dependent/{name}"),
                format!("{}: conversions differ between SimpleTerm {:?} and {name} {:?}", m.show(), base, o),
            );
        }
    }
    let den = denoted(lex, dt);
    let mut any_ok = false;
    for (i, r) in base.iter().enumerate() {
        let target = TARGETS[i];
        match r {
            Conv::Panic(p) => ctx.fail(
                format!("convert/panic/{target}/{dtl}/{shape}"),
                format!("{target}::try_from_term({}) panics: {p}", m.show()),
            ),
            Conv::Err => {}
            ok => {
                any_ok = true;
                ctx.class(format!("ok:{target}<-{dtl}"));
                let bad = |ctx: &mut Ctx, why: String| {
                    ctx.fail(
                        format!("convert/value/{target}/{dtl}/{shape}"),
                        format!("{target}::try_from_term({}) = {} but {why}", m.show(), ok.show()),
                    )
                };
                match &den {
                    Denoted::NotNumeric => ctx.fail(
                        format!("convert/accepts-datatype/{target}/{dtl}"),
                        format!("{target}::try_from_term({}) = {} although the datatype is not numeric/boolean", m.show(), ok.show()),
                    ),
                    Denoted::Unknown => ctx.class("oracle-unknown"),
                    Denoted::IllTyped => {
                        // An ill-typed literal denotes nothing *in its own datatype*. The toolkit is
                        // deliberately lenient about facets ("300"^^xsd:byte) and about decimals written
                        // with an exponent: such acceptances are counted, not failed, but the value must
                        // still be the one the characters spell in the XSD numeric lexical space that
                        // contains them. A form that is in no XSD numeric lexical space at all ("+-5",
                        // "0x10", "5 ") spells nothing: accepting it is a failure.
                        ctx.class(format!("ill-typed-accepted:{target}<-{dtl}:{shape}"));
                        let general: Option<FpLex> = match parse_integer_lexical(lex) {
                            Some(d) => Some(FpLex::Num(d)),
                            None => match parse_decimal_lexical(lex, false) {
                                Some(d) => Some(FpLex::Num(d)),
                                None => parse_fp_lexical(lex),
                            },
                        };
                        match (general, ok) {
                            (None, _) => ctx.fail(
                                format!("convert/accepts-malformed/{target}/{shape}"),
                                format!("{target}::try_from_term({}) = {} although the lexical form is in no XSD numeric lexical space", m.show(), ok.show()),
                            ),
                            (Some(FpLex::Num(d)), Conv::I(v)) => {
                                if exact_integer(&d) != Some(*v) {
                                    bad(ctx, format!("the characters spell {}{}e{}", if d.neg { "-" } else { "" }, d.digits, d.exp));
                                }
                            }
                            (Some(FpLex::Num(d)), Conv::F(bits)) => {
                                let fp = if family(&dt) == Family::Float { Fp::F32 } else { Fp::F64 };
                                if let Some(e) = nearest(&d, fp) {
                                    let got = f64::from_bits(*bits);
                                    if !(got == e || (got.is_nan() && e.is_nan())) {
                                        bad(ctx, format!("the nearest value to the number the characters spell is {e:?}"));
                                    }
                                }
                            }
                            (Some(FpLex::Inf(neg)), Conv::F(bits)) => {
                                let e = if neg { f64::NEG_INFINITY } else { f64::INFINITY };
                                if f64::from_bits(*bits) != e {
                                    bad(ctx, format!("the characters spell {e:?}"));
                                }
                            }
                            (Some(FpLex::NaN), Conv::F(bits)) => {
                                if !f64::from_bits(*bits).is_nan() {
                                    bad(ctx, "the characters spell NaN".into());
                                }
                            }
                            (Some(_), _) => bad(ctx, "the characters spell a non-finite number".into()),
                        }
                    }
                    Denoted::Bool(b) => match ok {
                        Conv::B(v) if v == b => {}
                        _ => bad(ctx, format!("the literal denotes the boolean {b}")),
                    },
                    Denoted::Exact(d) => match ok {
                        Conv::I(v) => {
                            // integral? (decimal "5.0" denotes the integer 5)
                            let intval = exact_integer(d);
                            if intval != Some(*v) {
                                bad(ctx, format!("the literal denotes {}{}e{}", if d.neg { "-" } else { "" }, d.digits, d.exp));
                            }
                        }
                        Conv::F(bits) => match nearest(d, Fp::F64) {
                            None => ctx.class("oracle-unknown"),
                            Some(e) => {
                                let got = f64::from_bits(*bits);
                                // decimal/integer have no signed zero: compare numerically
                                if !(got == e || (got.is_nan() && e.is_nan())) {
                                    bad(ctx, format!("the nearest double to the denoted number is {e:?}"));
                                }
                            }
                        },
                        _ => bad(ctx, "the literal denotes a number".into()),
                    },
                    Denoted::Fp(e) => match ok {
                        Conv::F(bits) => {
                            let got = f64::from_bits(*bits);
                            if !same_f64(got, *e) {
                                bad(ctx, format!("the literal denotes {e:?} in the value space of {dtl}"));
                            }
                        }
                        Conv::I(v) => {
                            if !(e.is_finite() && e.fract() == 0.0 && (*v as f64) == *e && (*v as f64) as i128 == *v) {
                                bad(ctx, format!("the literal denotes {e:?}"));
                            }
                        }
                        _ => bad(ctx, format!("the literal denotes {e:?}")),
                    },
                }
            }
        }
    }
    let valid = !matches!(den, Denoted::IllTyped | Denoted::NotNumeric | Denoted::Unknown);
    ctx.class(if valid { "lit:valid-for-datatype" } else if fam == Family::Other { "lit:other-datatype" } else { "lit:ill-typed" });
    if fam != Family::Other && (valid || any_ok) {
        ctx.nontrivial();
    }
}

fn exact_integer(d: &Dec) -> Option<i128> {
    if d.is_zero() {
        return Some(0);
    }
    let mut digits = d.digits.clone();
    let mut exp = d.exp;
    while exp < 0 {
        if digits.ends_with('0') && digits.len() > 1 {
            digits.pop();
            exp += 1;
        } else {
            return None; // has a fractional part
        }
    }
    if exp > 40 {
        return None;
    }
    for _ in 0..exp {
        digits.push('0');
    }
    if digits.len() > 38 {
        return None;
    }
    let v: i128 = digits.parse().ok()?;
    Some(if d.neg { -v } else { v })
}

fn check_any_term(ctx: &mut Ctx, m: &MT) {
    ctx.class(format!("term:{:?}", m.kind()));
    match m {
        MT::Lit(l, d) => {
            check_literal(ctx, l, d);
            return;
        }
        _ => {}
    }
    let st = m.to_simple();
    let at: ArcTerm = (&st).into_term();
    for (name, r) in [("SimpleTerm", convert_all(&st)), ("ArcTerm", convert_all(&at))] {
        for (i, c) in r.iter().enumerate() {
            match c {
                Conv::Err => {}
                Conv::Panic(p) => ctx.fail(
                    format!("convert/panic/{}/{:?}", TARGETS[i], m.kind()),
                    format!("{}::try_from_term({name} {}) panics: {p}", TARGETS[i], m.show()),
                ),
                ok => ctx.fail(
                    format!("convert/accepts-kind/{}/{:?}{}", TARGETS[i], m.kind(), if m.tag().is_some() { "-lang" } else { "" }),
                    format!("{}::try_from_term({name} {}) = {} but the term denotes no such value", TARGETS[i], m.show(), ok.show()),
                ),
            }
        }
    }
}

// =====================================================================================
// generators
// =====================================================================================

fn f64_edges() -> Vec<u64> {
    let mut v: Vec<f64> = vec![
        0.0,
        -0.0,
        1.0,
        -1.0,
        f64::INFINITY,
        f64::NEG_INFINITY,
        f64::NAN,
        f64::MIN_POSITIVE,
        -f64::MIN_POSITIVE,
        f64::MAX,
        f64::MIN,
        f64::EPSILON,
        5e-324,
        -5e-324,
        2.225073858507201e-308, // largest subnormal
        0.1,
        0.2,
        0.30000000000000004,
        1.0 / 3.0,
        2.0 / 3.0,
        1e15,
        1e16,
        1e17,
        1e21,
        1e22,
        1e23,
        1e-5,
        1e-7,
        123456789012345680.0,
        9007199254740992.0,
        9007199254740994.0,
        4503599627370496.5,
        1.7976931348623157e308,
        2.2250738585072014e-308,
        1e300,
        1e-300,
        3.14,
        42.0,
        1.5,
        -2.5e-10,
        6.02214076e23,
        4.9406564584124654e-324,
        8.98846567431158e307,
        0.1 + 0.7,
        100.0,
        1e100,
    ];
    v.push(f64::from_bits(0x7FF8_0000_0000_0001)); // NaN with payload
    v.push(f64::from_bits(0xFFF8_0000_0000_0000)); // negative NaN
    v.push(f64::from_bits(0x7FF0_0000_0000_0001)); // signalling NaN
    v.push(f64::from_bits(0x000F_FFFF_FFFF_FFFF));
    v.push(f64::from_bits(0x0010_0000_0000_0001));
    v.push(f64::from_bits(0x7FEF_FFFF_FFFF_FFFE));
    v.into_iter().map(f64::to_bits).collect()
}

fn nasty_strings() -> Vec<String> {
    [
        "", " ", "  a  ", "\n", "\r", "\r\n", "a\rb", "\t", "a\u{0}b", "\u{1}", "\u{8}\u{b}\u{c}", "\u{1f}", "\u{7f}", "\u{85}", "\u{2028}",
        "\u{FFFE}", "\u{FFFF}", "\u{FFFD}", "\u{1F600}", "e\u{301}", "\"", "\\", "'", "'''", "\"\"\"", "<a>&amp;</a>", "]]>", "<!--", "&#13;",
        "42", "-0", "1.5", "1e5", "true", "false", "INF", "NaN", "inf", "http://x/a", "_:b", "@en", "^^", "a\"^^<http://x/dt>", "\u{10ffff}",
        "\u{d7ff}\u{e000}", "{\"@value\": 1}", "\\u0041", "\\n", "%20", "\u{a0}", "trailing\\",
    ]
    .iter()
    .map(|s| s.to_string())
    .collect()
}

fn numeric_lexicals_fixed() -> Vec<String> {
    [
        "0", "-0", "+0", "00", "007", "-007", "+5", "5", "-5", "1", "2147483647", "2147483648", "-2147483648", "-2147483649", "4294967295", "4294967296",
        "9223372036854775807", "9223372036854775808", "-9223372036854775808", "-9223372036854775809", "18446744073709551615", "18446744073709551616",
        "340282366920938463463374607431768211456", "99999999999999999999999999999999999999999", "127", "128", "-128", "-129", "255", "256", "32767", "32768",
        "65535", "65536", "", " ", " 5", "5 ", "\t5\n", "5\u{a0}", "+", "-", ".", "1.", ".5", "-.5", "+.5e-3", "1.0", "1.50", "-1.5", "0.1", "0.10000000000000001",
        "1e5", "1E5", "1e+5", "1e-5", "1e", "e5", "1e5.5", "1e400", "-1e400", "1e-400", "1e309", "1.7976931348623157e308", "1.7976931348623158e308",
        "1.7976931348623159e308", "179769313486231580793728971405303415079934132710037826936173778980444968292764750946649017977587207096330286416692887910946555547851940402630657488671505820681908902000708383676273854845817711531764475730270069855571366959622842914819860834936475292719074168444365510704342711559699508093042880177904174497792",
        "4.9e-324", "2.4703282292062327e-324", "2.4703282292062328e-324", "2.47032822920623272088284396434110686182529901307162382212792841250337753635104375932649918180817996189898282347722858865463328355177969898199387398005390939063150356595155702263922908583924491051844359318028499365361525003193704576782492193656236698636584807570015857692699037063119282795585513329278343384093519780155312465972635795746227664652728272200563740064854999770965994704540208281662262378573934507363390079677619305775067401763246736009689513405355374585166611342237666786041621596804619144672918403005300575308490487653917113865916462395249126236538818796362393732804238910186723484976682350898633885879256283027559956575244555072551893136908362547791869486679949683240497058210285131854513962138377228261454376934125320985913276672363281251",
        "9007199254740993", "9007199254740995", "9007199254740993.0000000000000000000000001", "9007199254740992.9999999999999999999999999", "16777217", "16777217.0000001",
        "16777219", "3.4028235e38", "3.4028236e38", "3.40282357e38", "1e39", "1e-46", "7e-46", "1.4e-45", "0.1", "0.3", "3.14",
        "INF", "-INF", "+INF", "NaN", "inf", "-inf", "+inf", "Inf", "infinity", "Infinity", "-Infinity", "nan", "NAN", "-NaN", "+NaN", "nAn", "INFINITY", "iNf",
        "true", "false", "1", "0", "TRUE", "True", "False", " true", "true ", "yes", "t", "0x10", "1_000", "1,000", "１２", "٣", "1e١", "1d5", "1f", "1.5f64", "0b1",
        "--5", "+-5", "5-", "1..2", "1.2.3", "\u{0}", "5\u{0}", "1/2", "NaN ", "-", "0.", "-0.0", "+0.0", "0e0", "-0e0", "0.000", "1.000000000000000000000000000000000000000000000000000001",
        "0.9999999999999999999999999999999999999999", "123456789012345678901234567890.123456789",
    ]
    .iter()
    .map(|s| s.to_string())
    .collect()
}

fn numeric_datatypes() -> Vec<String> {
    let mut v: Vec<String> = [
        "double", "float", "decimal", "integer", "long", "int", "short", "byte", "unsignedLong", "unsignedInt", "unsignedShort", "unsignedByte",
        "nonNegativeInteger", "nonPositiveInteger", "negativeInteger", "positiveInteger", "boolean",
    ]
    .iter()
    .map(|s| xsd_(s))
    .collect();
    v.extend(
        [
            "string", "dateTime", "anyURI", "Double", "INTEGER", "integer2", "doubl", "",
        ]
        .iter()
        .map(|s| xsd_(s)),
    );
    v.push("http://x/dt".into());
    v.push("http://www.w3.org/2001/XMLSchemadouble".into());
    v.push("http://www.w3.org/2001/XMLSchema".into());
    v.push("http://www.w3.org/2001/XMLSchema#double#".into());
    v.push("https://www.w3.org/2001/XMLSchema#double".into());
    v.push(rdf("langString"));
    v.push("integer".into());
    v
}

fn gen_numeric_lexical() -> BoxedStrategy<String> {
    let digits = |max: usize| proptest::collection::vec(0u8..10, 1..=max).prop_map(|v| v.into_iter().map(|d| (b'0' + d) as char).collect::<String>());
    let sign = pick_str(&["", "", "-", "+"]);
    let int = (sign.clone(), digits(22)).prop_map(|(s, d)| format!("{s}{d}"));
    let near_bound = (
        pick(vec![
            i32::MAX as i128,
            i32::MIN as i128,
            i64::MAX as i128,
            i64::MIN as i128,
            u64::MAX as i128,
            u32::MAX as i128,
            0,
            255,
            127,
            -128,
            65535,
            32767,
            -32768,
            1i128 << 53,
            1i128 << 24,
        ]),
        -2i128..=2,
    )
        .prop_map(|(b, d)| (b + d).to_string());
    let dec = (sign.clone(), digits(18), digits(18)).prop_map(|(s, a, b)| format!("{s}{a}.{b}"));
    let exp = (sign.clone(), digits(17), proptest::option::of(digits(17)), pick_str(&["e", "E"]), pick_str(&["", "-", "+"]), 0u32..420).prop_map(
        |(s, a, b, e, es, x)| match b {
            Some(b) => format!("{s}{a}.{b}{e}{es}{x}"),
            None => format!("{s}{a}{e}{es}{x}"),
        },
    );
    // decimal renderings of exact halfway points between adjacent doubles/floats, +- a tiny bit
    let ties = (any::<u64>(), 0u8..3, any::<bool>()).prop_map(|(bits, delta, single)| {
        if single {
            let k = (bits as u32) % 0x7F00_0000;
            let a = f32::from_bits(k) as f64;
            let b = f32::from_bits(k + 1) as f64;
            tie_string(a, b, delta)
        } else {
            // keep to a range where the exact expansion is short enough
            let ex = 1023 - 60 + (bits >> 52) % 120;
            let k = (ex << 52) | (bits & ((1 << 52) - 1));
            let a = f64::from_bits(k);
            let b = f64::from_bits(k + 1);
            tie_string(a, b, delta)
        }
    });
    prop_oneof![
        5 => pick(numeric_lexicals_fixed()),
        3 => int,
        2 => near_bound,
        2 => dec,
        3 => exp,
        2 => ties,
        1 => any::<f64>().prop_map(|f| format!("{f:e}")),
        1 => any::<f64>().prop_map(|f| format!("{f}")),
        1 => any::<f32>().prop_map(|f| format!("{f}")),
        1 => gen::lexical(6),
    ]
    .boxed()
}

/// exact decimal expansion of (a+b)/2 for adjacent binary floats, nudged down/none/up in the last place
fn tie_string(a: f64, b: f64, delta: u8) -> String {
    // a and b are dyadic rationals; (a+b)/2 = n / 2^k exactly. Use the Big type to print it.
    let (ma, ea) = decompose_f64(a);
    let (mb, eb) = decompose_f64(b);
    let e = ea.min(eb) - 1;
    // numerator = ma*2^(ea-e-1) + mb*2^(eb-e-1)   (both shifts >= 0)
    let num = (ma as u128) * (1u128 << (ea - e - 1)) + (mb as u128) * (1u128 << (eb - e - 1));
    // value = num * 2^e ; for e < 0: num * 5^(-e) / 10^(-e)
    let mut big = Big::from_u64(num as u64);
    if (num >> 64) != 0 {
        let mut hi = Big::from_u64((num >> 64) as u64);
        hi.shl(64);
        // add hi + lo
        let lo = Big::from_u64(num as u64);
        big = big_add(&hi, &lo);
    }
    let mut s;
    if e >= 0 {
        big.shl(e as u64);
        s = big_to_dec(&big);
    } else {
        for _ in 0..(-e) {
            big.mul_small(5);
        }
        let d = big_to_dec(&big);
        let k = (-e) as usize;
        s = if d.len() > k {
            format!("{}.{}", &d[..d.len() - k], &d[d.len() - k..])
        } else {
            format!("0.{}{}", "0".repeat(k - d.len()), d)
        };
    }
    match delta {
        0 => {}
        1 => {
            if !s.contains('.') {
                s.push('.');
            }
            s.push_str("0000000000000000000000000001");
        }
        _ => {
            // slightly below: drop one from the last non-zero digit, append 9s
            let mut bytes: Vec<u8> = s.into_bytes();
            let mut i = bytes.len();
            while i > 0 {
                i -= 1;
                if bytes[i] == b'.' {
                    continue;
                }
                if bytes[i] > b'0' {
                    bytes[i] -= 1;
                    break;
                }
                bytes[i] = b'9';
            }
            s = String::from_utf8(bytes).unwrap();
            if !s.contains('.') {
                s.push('.');
            }
            s.push_str("9999999999999999999999999999");
        }
    }
    s
}
fn decompose_f64(v: f64) -> (u64, i64) {
    Fp::F64.decompose(v.to_bits() & 0x7FFF_FFFF_FFFF_FFFF)
}
fn big_add(a: &Big, b: &Big) -> Big {
    let n = a.0.len().max(b.0.len());
    let mut out = Vec::with_capacity(n + 1);
    let mut carry = 0u64;
    for i in 0..n {
        let v = *a.0.get(i).unwrap_or(&0) as u64 + *b.0.get(i).unwrap_or(&0) as u64 + carry;
        out.push(v as u32);
        carry = v >> 32;
    }
    if carry > 0 {
        out.push(carry as u32);
    }
    let mut r = Big(out);
    r.trim();
    r
}
fn big_to_dec(b: &Big) -> String {
    if b.is_zero() {
        return "0".into();
    }
    let mut words = b.0.clone();
    let mut chunks: Vec<u32> = vec![];
    while !words.is_empty() {
        let mut rem = 0u64;
        for w in words.iter_mut().rev() {
            let cur = (rem << 32) | *w as u64;
            *w = (cur / 1_000_000_000) as u32;
            rem = cur % 1_000_000_000;
        }
        chunks.push(rem as u32);
        while words.last() == Some(&0) {
            words.pop();
        }
    }
    let mut s = format!("{}", chunks.pop().unwrap());
    while let Some(c) = chunks.pop() {
        s.push_str(&format!("{c:09}"));
    }
    s
}

impl Check for C20 {
    type Case = Case;
    const ID: &'static str = "C20";
    fn rule() -> String {
        "native cases (i32/isize/usize/bool/f64/str): the value as a term must be a literal with the documented datatype and a lexical form accepted by a hand-written recogniser of that datatype's XSD lexical space; the value must come back identical (bitwise for f64, NaN->NaN) from 17 term representations and from 10 serialiser/parser round trips (NT, NQ, Turtle, pretty Turtle, TriG, pretty TriG, RDF/XML, indented RDF/XML, JSON-LD, pretty JSON-LD). Literal cases: the 5 TryFromTerm conversions never panic, agree across 6 representations, and every success equals the value computed by an exact oracle (big-integer decimal->binary rounding, integer facets). Non-trivial = every native case (distinct by value) and every literal case with a numeric/boolean XSD datatype whose lexical form is valid or for which some conversion succeeds.".into()
    }
    fn assumptions() -> Vec<String> {
        vec![
            "xsd:string lexical space = XML 1.1 Char* (most permissive reading: only U+0000, U+FFFE, U+FFFF are excluded)".into(),
            "RDF/XML round trips are only demanded for strings made of XML 1.0 Chars (the format cannot carry the others); other outcomes are counted".into(),
            "ill-typed literals (lexical form outside the lexical space or facet range of the datatype) accepted by a conversion are counted, not failed: they denote no value".into(),
            "xsd:decimal/integer -> f64: the correctly rounded nearest double is accepted (the exact value is in general not representable); +INF accepted as xsd:double lexical (XSD 1.1)".into(),
            "JSON-LD serialiser run with default options (useNativeTypes=false); the native-types mode is lossy by specification".into(),
            "isize/usize are 64-bit on the test platform".into(),
        ]
    }
    fn cases(tier: Tier) -> u32 {
        tier.pick(600_000, 20_000_000)
    }
    fn fixed_cases(_tier: Tier, _seed: u64) -> Vec<Case> {
        let mut v = vec![];
        for b in f64_edges() {
            v.push(Case::F64(b));
        }
        for i in [0, 1, -1, i32::MAX, i32::MIN, 10, -10, 42, i32::MAX - 1, i32::MIN + 1] {
            v.push(Case::I32(i));
        }
        for i in [0, 1, -1, i64::MAX, i64::MIN, i32::MAX as i64 + 1, i32::MIN as i64 - 1, (1 << 53) + 1, -(1 << 53) - 1] {
            v.push(Case::Isize(i));
        }
        for i in [0, 1, u64::MAX, 1 << 63, (1 << 53) + 1, u32::MAX as u64 + 1, i64::MAX as u64] {
            v.push(Case::Usize(i));
        }
        v.push(Case::Bool(true));
        v.push(Case::Bool(false));
        for s in nasty_strings() {
            v.push(Case::Str(s));
        }
        let dts = numeric_datatypes();
        for (i, l) in numeric_lexicals_fixed().into_iter().enumerate() {
            for (j, d) in dts.iter().enumerate() {
                // every lexical form with every numeric/boolean datatype; a sample with the others
                if j < 17 || i % 8 == 0 {
                    v.push(Case::Lit(l.clone(), d.clone()));
                }
            }
        }
        v
    }
    fn strategy(_tier: Tier) -> BoxedStrategy<Case> {
        let f64s = prop_oneof![
            2 => pick(f64_edges()),
            4 => any::<u64>(),
            2 => (any::<i64>(), 0u32..25).prop_map(|(m, k)| (m as f64 / 10f64.powi(k as i32)).to_bits()),
            2 => (any::<i32>(), -330i32..310).prop_map(|(m, k)| (m as f64 * 10f64.powi(k)).to_bits()),
            1 => (0u64..2048, any::<bool>(), -2i64..=2).prop_map(|(e, neg, d)| {
                let base = (e << 52) as i64 + d;
                let b = (base.max(0) as u64) | if neg { 1 << 63 } else { 0 };
                b
            }),
            1 => any::<f32>().prop_map(|f| (f as f64).to_bits()),
            1 => (-400i32..400).prop_map(|k| 10f64.powi(k).to_bits()),
        ]
        .prop_map(Case::F64);
        let i32s = prop_oneof![
            1 => pick(vec![0, 1, -1, i32::MAX, i32::MIN, 9, 10, -10, 99, 100]),
            3 => any::<i32>(),
            1 => -1000i32..1000,
        ]
        .prop_map(Case::I32);
        let isizes = prop_oneof![
            1 => pick(vec![0i64, -1, i64::MAX, i64::MIN, i32::MAX as i64 + 1, i32::MIN as i64 - 1, 1 << 53, (1 << 53) + 1]),
            3 => any::<i64>(),
            1 => (0u32..63, any::<bool>(), -2i64..=2).prop_map(|(s, n, d)| { let v = (1i64 << s).wrapping_add(d); if n { v.wrapping_neg() } else { v } }),
        ]
        .prop_map(Case::Isize);
        let usizes = prop_oneof![
            1 => pick(vec![0u64, 1, u64::MAX, 1 << 63, (1 << 63) - 1, (1 << 53) + 1, u32::MAX as u64, u32::MAX as u64 + 1]),
            3 => any::<u64>(),
            1 => (0u32..64, -2i64..=2).prop_map(|(s, d)| (1u64 << s).wrapping_add(d as u64)),
        ]
        .prop_map(Case::Usize);
        let strs = prop_oneof![
            2 => pick(nasty_strings()),
            5 => gen::lexical(12),
            1 => pick(numeric_lexicals_fixed()),
            1 => "\\PC{0,12}",
        ]
        .prop_map(Case::Str);
        let boolish = pick_str(&["true", "false", "1", "0", "TRUE", "False", " true", "true ", "t", "yes", "", "01", "00", "+1", "-0", "1.0", "tru", "falsee"]);
        let lits = prop_oneof![
            12 => (gen_numeric_lexical(), pick(numeric_datatypes()[..16].to_vec())).prop_map(|(l, d)| Case::Lit(l, d)),
            1 => boolish.prop_map(|l| Case::Lit(l, xsd_("boolean"))),
            1 => (gen_numeric_lexical(), pick(numeric_datatypes())).prop_map(|(l, d)| Case::Lit(l, d)),
        ];
        let mut cfg = gen::TermCfg::full();
        cfg.allow_var = true;
        cfg.lex = prop_oneof![pick(numeric_lexicals_fixed()), gen::lexical(6)].boxed();
        let mut dts = numeric_datatypes()[..19].to_vec();
        dts.push("http://x/dt".into());
        cfg.dts = dts;
        let terms = cfg.term('o', true).prop_map(Case::Term);
        prop_oneof![
            5 => f64s,
            2 => i32s,
            2 => isizes,
            2 => usizes,
            1 => any::<bool>().prop_map(Case::Bool),
            4 => strs,
            10 => lits,
            2 => terms,
        ]
        .boxed()
    }
    fn run(case: &Case, ctx: &mut Ctx) {
        match case {
            Case::I32(v) => {
                ctx.nontrivial();
                check_native::<KI32, i32>(ctx, *v, *v);
                check_literal(ctx, &v.to_string(), &xsd_("integer"));
            }
            Case::Isize(v) => {
                ctx.nontrivial();
                let v = *v as isize;
                check_native::<KIsize, isize>(ctx, v, v);
                check_literal(ctx, &v.to_string(), &xsd_("integer"));
            }
            Case::Usize(v) => {
                ctx.nontrivial();
                let v = *v as usize;
                check_native::<KUsize, usize>(ctx, v, v);
                check_literal(ctx, &v.to_string(), &xsd_("integer"));
            }
            Case::Bool(v) => {
                ctx.nontrivial();
                check_native::<KBool, bool>(ctx, *v, *v);
            }
            Case::F64(b) => {
                ctx.nontrivial();
                let v = f64::from_bits(*b);
                check_native::<KF64, f64>(ctx, v, v);
            }
            Case::Str(s) => {
                ctx.nontrivial();
                check_native::<KStr, &str>(ctx, s.as_str(), s.clone());
                // a string is never a number, whatever it looks like
                check_any_term(ctx, &MT::string(s.clone()));
            }
            Case::Lit(l, d) => {
                if IriRef::new(d.as_str()).is_err() {
                    ctx.class("lit:invalid-datatype-iri(skipped)");
                    return;
                }
                check_literal(ctx, l, d)
            }
            Case::Term(m) => {
                if m.is_literal() {
                    ctx.nontrivial();
                }
                check_any_term(ctx, m)
            }
        }
    }
    fn show(case: &Case) -> serde_json::Value {
        match case {
            Case::F64(b) => serde_json::json!({"F64": format!("{:?} (bits {b:#x})", f64::from_bits(*b))}),
            Case::Term(m) => serde_json::json!({"Term": m.show()}),
            o => serde_json::to_value(o).unwrap_or_default(),
        }
    }
}

pub fn main(opts: &Opts) -> i32 {
    drive::<C20>(opts)
}
pub fn worker(_args: &[String]) -> i32 {
    2
}

