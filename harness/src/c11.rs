//! C11 — graph/dataset views stay coherent with the underlying store.
use crate::engine::*;
use crate::gen::*;
use crate::model::*;
use crate::pat::*;
use crate::stores::*;
use proptest::prelude::*;
use serde::{Deserialize, Serialize};
use sophia_api::dataset::{CollectibleDataset, Dataset, MutableDataset};
use sophia_api::graph::{CollectibleGraph, Graph, MutableGraph};
use sophia_api::term::matcher::{Any, GraphNameMatcher};

#[derive(Clone, Debug, Serialize, Deserialize)]
pub enum DOp {
    Insert(MQ),
    Remove(MQ),
    /// through `graph_mut(g)`
    ViewInsert(Option<MT>, MQ),
    ViewRemove(Option<MT>, MQ),
    ViewInsertAll(Option<MT>, Vec<MQ>),
    ViewRemoveAll(Option<MT>, Vec<MQ>),
    ViewRemoveMatching(Option<MT>, QPat),
    ViewRetainMatching(Option<MT>, QPat),
    ReadUnion(QPat),
    ReadIntoUnion(QPat),
    ReadPartial(GPat, QPat),
    ReadGraph(Option<MT>, QPat),
}
#[derive(Clone, Debug, Serialize, Deserialize)]
pub enum GOp {
    Insert(MQ),
    Remove(MQ),
    /// through `as_dataset_mut()`
    DsInsert(MQ),
    DsRemove(MQ),
    DsRemoveAll(Vec<MQ>),
    DsInsertAllDefault(Vec<MQ>),
    ReadDs(QPat),
    ReadIntoDs(QPat),
}
#[derive(Clone, Debug, Serialize, Deserialize)]
pub enum Case {
    Ds { store: u8, init: Vec<MQ>, ops: Vec<DOp> },
    Gr { store: u8, init: Vec<MQ>, ops: Vec<GOp> },
}

pub struct C11;

const DS_NAMES: &[&str] = &["FastDataset", "LightDataset", "BTreeSet<Spog>", "HashSet<Gspo>", "Vec<Spog>", "small::FastDataset", "HashSet<Spog>", "BTreeSet<Gspo>", "Vec<Gspo>"];
const GR_NAMES: &[&str] = &["FastGraph", "LightGraph", "BTreeSet<[T;3]>", "Vec<[T;3]>", "HashSet<[T;3]>", "small::LightGraph"];

fn cfg() -> TermCfg {
    let mut c = TermCfg::small();
    c.iris = vec!["http://x/a".into(), "http://x/b".into(), "http://x/g1".into(), "http://x/g2".into()];
    c.bnodes = vec!["b".into(), "c".into()];
    c.max_depth = 1;
    c
}
fn gpool() -> Vec<Option<MT>> {
    vec![
        None,
        Some(MT::iri("http://x/g1")),
        Some(MT::iri("http://x/g2")),
        Some(MT::bn("b")),
        Some(MT::iri("http://x/absent")),
    ]
}
fn tpool() -> Vec<MT> {
    vec![
        MT::iri("http://x/a"),
        MT::iri("http://x/b"),
        MT::iri("http://x/g1"),
        MT::bn("b"),
        MT::bn("c"),
        MT::string("a"),
        MT::lang("a", "en"),
        MT::lang("a", "EN"),
        MT::triple(MT::iri("http://x/a"), MT::iri("http://x/b"), MT::bn("b")),
    ]
}

fn model_insert(model: &mut Vec<MQ>, q: &MQ, is_set: bool) -> bool {
    if is_set && model.contains(q) {
        false
    } else {
        model.push(q.clone());
        true
    }
}
fn model_remove(model: &mut Vec<MQ>, q: &MQ) -> bool {
    let n = model.len();
    model.retain(|x| x != q);
    model.len() != n
}
fn proj(q: &MQ) -> MQ {
    MQ::new(q.s.clone(), q.p.clone(), q.o.clone(), None)
}

/// model side of the term enumerations of a graph view over `quads` (projected triples)
fn model_enums(quads: &[MQ]) -> Vec<(&'static str, std::collections::BTreeSet<MT>)> {
    use std::collections::BTreeSet;
    let (mut su, mut pr, mut ob, mut ir, mut bn, mut li, mut va, mut qt) =
        (BTreeSet::new(), BTreeSet::new(), BTreeSet::new(), BTreeSet::new(), BTreeSet::new(), BTreeSet::new(), BTreeSet::new(), BTreeSet::new());
    for q in quads {
        su.insert(q.s.clone());
        pr.insert(q.p.clone());
        ob.insert(q.o.clone());
        for t in [&q.s, &q.p, &q.o] {
            let mut atoms = vec![];
            t.atoms(&mut atoms);
            for a in atoms {
                match a {
                    MT::Iri(_) => ir.insert(a.clone()),
                    MT::Bnode(_) => bn.insert(a.clone()),
                    MT::Lit(..) | MT::Lang(..) => li.insert(a.clone()),
                    MT::Var(_) => va.insert(a.clone()),
                    MT::Triple(_) => false,
                };
            }
            let mut cs = vec![];
            t.constituents(&mut cs);
            for c in cs {
                if c.is_triple() {
                    qt.insert(c.clone());
                }
            }
        }
    }
    vec![("subjects", su), ("predicates", pr), ("objects", ob), ("iris", ir), ("blank_nodes", bn), ("literals", li), ("variables", va), ("quoted_triples", qt)]
}

/// term enumerations of a graph view, compared as sets (duplicates are explicitly allowed)
fn check_enums<G: Graph>(ctx: &mut Ctx, what: &str, store: &str, g: &G, selected: &[MQ], step: usize) {
    let got: Vec<(&'static str, Vec<MT>)> = vec![
        ("subjects", g_subjects(g)),
        ("predicates", g_predicates(g)),
        ("objects", g_objects(g)),
        ("iris", g_iris(g)),
        ("blank_nodes", g_blank_nodes(g)),
        ("literals", g_literals(g)),
        ("variables", g_variables(g)),
    ];
    for ((name, exp), (_, got)) in model_enums(selected).into_iter().zip(got) {
        let gs = as_set(&got);
        if gs != exp {
            ctx.fail(
                format!("view/{what}.{name}"),
                format!("step {step} store {store}: {what}.{name}() = {:?}, expected {:?}", gs.iter().map(MT::show).collect::<Vec<_>>(), exp.iter().map(MT::show).collect::<Vec<_>>()),
            );
        }
    }
    // contains() through the view
    for q in selected.iter().take(2) {
        if !g_contains(g, q) {
            ctx.fail(format!("view/{what}.contains"), format!("step {step} store {store}: {what}.contains({}) = false", q.show()));
        }
    }
    let absent = MQ::new(MT::iri("http://x/absent-s"), MT::iri("http://x/a"), MT::iri("http://x/a"), None);
    if g_contains(g, &absent) {
        ctx.fail(format!("view/{what}.contains"), format!("step {step} store {store}: {what}.contains(absent triple) = true"));
    }
}

fn cmp(ctx: &mut Ctx, what: &str, store: &str, got: Vec<MQ>, exp: Vec<MQ>, step: usize) {
    let (g, e) = (ms(got), ms(exp));
    let same = g.len() == e.len() && g.iter().zip(e.iter()).all(|(a, b)| a == b);
    if !same {
        ctx.fail(
            format!("view/{what}"),
            format!(
                "step {step} store {store}: {what}\n got: {}\n exp: {}",
                show_quads(&g).replace('\n', " ; "),
                show_quads(&e).replace('\n', " ; ")
            ),
        );
    }
}

macro_rules! make_run_ds {
    ($name:ident, $ty:ty) => {
        fn $name(name: &str, is_set: bool, init: &[MQ], ops: &[DOp], ctx: &mut Ctx) {
    let mut model: Vec<MQ> = vec![];
    for q in init {
        model_insert(&mut model, q, is_set);
    }
    let mut d: $ty = match d_from::<$ty>(init) {
        Ok(d) => d,
        Err(e) => {
            ctx.fail("view/collect", format!("cannot collect: {e}"));
            return;
        }
    };
    let mut view_mut = false;
    for (step, op) in ops.iter().enumerate() {
        if ctx.failed() {
            return;
        }
        match op {
            DOp::Insert(q) => {
                let r = d_insert(&mut d, q);
                let ch = model_insert(&mut model, q, is_set);
                if is_set && r != Ok(ch) {
                    ctx.fail("view/direct-insert-flag", format!("step {step} {name}: insert {} -> {r:?}, expected {ch}", q.show()));
                }
            }
            DOp::Remove(q) => {
                let r = d_remove(&mut d, q);
                let ch = model_remove(&mut model, q);
                if is_set && r != Ok(ch) {
                    ctx.fail("view/direct-remove-flag", format!("step {step} {name}: remove {} -> {r:?}, expected {ch}", q.show()));
                }
            }
            DOp::ViewInsert(g, t) => {
                view_mut = true;
                ctx.class("view-insert");
                let [s, p, o] = t.to_triple();
                let gn = g.as_ref().map(MT::to_simple);
                let r = {
                    let mut v = d.graph_mut(gn.clone());
                    v.insert(s, p, o).map_err(|e| format!("{e:?}"))
                };
                let q = MQ::new(t.s.clone(), t.p.clone(), t.o.clone(), g.clone());
                let ch = model_insert(&mut model, &q, is_set);
                if is_set && r != Ok(ch) {
                    ctx.fail("view/graph_mut-insert-flag", format!("step {step} {name}: graph_mut({:?}).insert {} -> {r:?}, expected {ch}", g.as_ref().map(MT::show), t.show()));
                }
                if r.is_err() {
                    ctx.fail("view/graph_mut-insert-error", format!("step {step} {name}: {r:?}"));
                }
            }
            DOp::ViewRemove(g, t) => {
                view_mut = true;
                ctx.class("view-remove");
                let [s, p, o] = t.to_triple();
                let gn = g.as_ref().map(MT::to_simple);
                let r = {
                    let mut v = d.graph_mut(gn.clone());
                    v.remove(&s, &p, &o).map_err(|e| format!("{e:?}"))
                };
                let q = MQ::new(t.s.clone(), t.p.clone(), t.o.clone(), g.clone());
                let ch = model_remove(&mut model, &q);
                if is_set && r != Ok(ch) {
                    ctx.fail("view/graph_mut-remove-flag", format!("step {step} {name}: graph_mut({:?}).remove {} -> {r:?}, expected {ch}", g.as_ref().map(MT::show), t.show()));
                }
                if r.is_err() {
                    ctx.fail("view/graph_mut-remove-error", format!("step {step} {name}: {r:?}"));
                }
            }
            DOp::ViewInsertAll(g, ts) => {
                view_mut = true;
                ctx.class("view-insert_all");
                let gn = g.as_ref().map(MT::to_simple);
                let r = {
                    let mut v = d.graph_mut(gn.clone());
                    g_insert_all(&mut v, ts)
                };
                let mut n = 0;
                for t in ts {
                    let q = MQ::new(t.s.clone(), t.p.clone(), t.o.clone(), g.clone());
                    if model_insert(&mut model, &q, is_set) {
                        n += 1;
                    }
                }
                if r.is_err() || (is_set && r != Ok(n)) {
                    ctx.fail("view/graph_mut-insert_all", format!("step {step} {name}: graph_mut({:?}).insert_all -> {r:?}, expected Ok({n})", g.as_ref().map(MT::show)));
                }
            }
            DOp::ViewRemoveAll(g, ts) => {
                view_mut = true;
                ctx.class("view-remove_all");
                let gn = g.as_ref().map(MT::to_simple);
                let r = {
                    let mut v = d.graph_mut(gn.clone());
                    g_remove_all(&mut v, ts)
                };
                let mut n = 0;
                for t in ts {
                    let q = MQ::new(t.s.clone(), t.p.clone(), t.o.clone(), g.clone());
                    if model_remove(&mut model, &q) {
                        n += 1;
                    }
                }
                if r.is_err() || (is_set && r != Ok(n)) {
                    ctx.fail("view/graph_mut-remove_all", format!("step {step} {name}: graph_mut({:?}).remove_all -> {r:?}, expected Ok({n})", g.as_ref().map(MT::show)));
                }
            }
            DOp::ViewRemoveMatching(g, pat) => {
                view_mut = true;
                ctx.class("view-remove_matching");
                let gn = g.as_ref().map(MT::to_simple);
                let r = {
                    let mut v = d.graph_mut(gn.clone());
                    g_remove_matching(&mut v, pat)
                };
                let before = model.len();
                model.retain(|q| !(q.g == *g && pat.matches_triple(q)));
                let n = before - model.len();
                if r.is_err() || (is_set && r != Ok(n)) {
                    ctx.fail("view/graph_mut-remove_matching", format!("step {step} {name}: graph_mut({:?}).remove_matching -> {r:?}, expected Ok({n})", g.as_ref().map(MT::show)));
                }
            }
            DOp::ViewRetainMatching(g, pat) => {
                view_mut = true;
                ctx.class("view-retain_matching");
                let gn = g.as_ref().map(MT::to_simple);
                let r = {
                    let mut v = d.graph_mut(gn.clone());
                    g_retain_matching(&mut v, pat)
                };
                model.retain(|q| q.g != *g || pat.matches_triple(q));
                if r.is_err() {
                    ctx.fail("view/graph_mut-retain_matching", format!("step {step} {name}: graph_mut({:?}).retain_matching -> {r:?}", g.as_ref().map(MT::show)));
                }
            }
            DOp::ReadUnion(pat) => {
                if view_mut {
                    ctx.nontrivial();
                }
                let u = d.union_graph();
                let got = g_matching(&u, pat);
                let exp: Vec<MQ> = model.iter().filter(|q| pat.matches_triple(q)).map(proj).collect();
                cmp(ctx, "union_graph.triples_matching", name, got, exp, step);
                let all = g_all(&u);
                cmp(ctx, "union_graph.triples", name, all, model.iter().map(proj).collect(), step);
                check_enums(ctx, "union_graph", name, &u, &model.iter().map(proj).collect::<Vec<_>>(), step);
            }
            DOp::ReadIntoUnion(pat) => {
                if view_mut {
                    ctx.nontrivial();
                }
                let u = (&d).into_union_graph();
                let got = g_matching(&u, pat);
                let exp: Vec<MQ> = model.iter().filter(|q| pat.matches_triple(q)).map(proj).collect();
                cmp(ctx, "into_union_graph.triples_matching", name, got, exp, step);
            }
            DOp::ReadPartial(gp, pat) => {
                if view_mut {
                    ctx.nontrivial();
                }
                ctx.class(format!("partial-{}", gp.label()));
                let sel: Vec<&MQ> = model.iter().filter(|q| gp.matches(q.g.as_ref())).collect();
                let exp: Vec<MQ> = sel.iter().filter(|q| pat.matches_triple(q)).map(|q| proj(q)).collect();
                let exp_all: Vec<MQ> = sel.iter().map(|q| proj(q)).collect();
                let (got, all) = match gp {
                    GPat::Any => {
                        let v = d.partial_union_graph(Any);
                        (g_matching(&v, pat), g_all(&v))
                    }
                    GPat::One(g) => {
                        let gs = g.as_ref().map(MT::to_simple);
                        let v = d.partial_union_graph([gs.as_ref()]);
                        (g_matching(&v, pat), g_all(&v))
                    }
                    _ => {
                        let real = gp.real();
                        let v = d.partial_union_graph(real.matcher_ref());
                        (g_matching(&v, pat), g_all(&v))
                    }
                };
                cmp(ctx, "partial_union_graph.triples_matching", name, got, exp, step);
                cmp(ctx, "partial_union_graph.triples", name, all, exp_all, step);
            }
            DOp::ReadGraph(g, pat) => {
                if view_mut {
                    ctx.nontrivial();
                }
                let gn = g.as_ref().map(MT::to_simple);
                let v = d.graph(gn.clone());
                let sel: Vec<&MQ> = model.iter().filter(|q| q.g == *g).collect();
                let exp: Vec<MQ> = sel.iter().filter(|q| pat.matches_triple(q)).map(|q| proj(q)).collect();
                cmp(ctx, "graph(g).triples_matching", name, g_matching(&v, pat), exp, step);
                cmp(ctx, "graph(g).triples", name, g_all(&v), sel.iter().map(|q| proj(q)).collect(), step);
                check_enums(ctx, "graph(g)", name, &v, &sel.iter().map(|q| proj(q)).collect::<Vec<_>>(), step);
                // the store itself agrees
                cmp(ctx, "store.quads", name, d_all(&d), model.clone(), step);
            }
        }
    }
    cmp(ctx, "store.quads(final)", name, d_all(&d), model, ops.len());
        }
    };
}
make_run_ds!(run_ds_fast, FastDataset);
make_run_ds!(run_ds_light, LightDataset);
make_run_ds!(run_ds_btspog, BTreeSpog);
make_run_ds!(run_ds_hgspo, HashGspo);
make_run_ds!(run_ds_vspog, VecSpog);
make_run_ds!(run_ds_sfast, SmallFastDataset);
make_run_ds!(run_ds_hspog, HashSpog);
make_run_ds!(run_ds_btgspo, BTreeGspo);
make_run_ds!(run_ds_vgspo, VecGspo);

fn run_gr<G: MutableGraph + CollectibleGraph + Graph>(name: &str, is_set: bool, init: &[MQ], ops: &[GOp], ctx: &mut Ctx) {
    let mut model: Vec<MQ> = vec![];
    for q in init {
        model_insert(&mut model, &proj(q), is_set);
    }
    let mut g: G = match g_from::<G>(init) {
        Ok(g) => g,
        Err(e) => {
            ctx.fail("view/collect", format!("cannot collect: {e}"));
            return;
        }
    };
    let mut view_mut = false;
    for (step, op) in ops.iter().enumerate() {
        if ctx.failed() {
            return;
        }
        match op {
            GOp::Insert(q) => {
                let q = proj(q);
                let r = g_insert(&mut g, &q);
                let ch = model_insert(&mut model, &q, is_set);
                if is_set && r != Ok(ch) {
                    ctx.fail("view/direct-insert-flag", format!("step {step} {name}: insert -> {r:?}, expected {ch}"));
                }
            }
            GOp::Remove(q) => {
                let q = proj(q);
                let r = g_remove(&mut g, &q);
                let ch = model_remove(&mut model, &q);
                if is_set && r != Ok(ch) {
                    ctx.fail("view/direct-remove-flag", format!("step {step} {name}: remove -> {r:?}, expected {ch}"));
                }
            }
            GOp::DsInsert(q) => {
                view_mut = true;
                ctx.class(if q.g.is_some() { "asds-insert-named" } else { "asds-insert-default" });
                let r = {
                    let mut v = g.as_dataset_mut();
                    d_insert(&mut v, q)
                };
                if q.g.is_some() {
                    match &r {
                        Err(e) if e.contains("OnlyDefaultGraph") => {}
                        other => ctx.fail(
                            "view/as_dataset_mut-insert-named",
                            format!("step {step} {name}: insert in named graph through as_dataset_mut -> {other:?}, expected OnlyDefaultGraph error"),
                        ),
                    }
                } else {
                    let ch = model_insert(&mut model, q, is_set);
                    if r.is_err() || (is_set && r != Ok(ch)) {
                        ctx.fail("view/as_dataset_mut-insert-flag", format!("step {step} {name}: as_dataset_mut().insert {} -> {r:?}, expected {ch}", q.show()));
                    }
                }
            }
            GOp::DsRemove(q) => {
                view_mut = true;
                ctx.class(if q.g.is_some() { "asds-remove-named" } else { "asds-remove-default" });
                let r = {
                    let mut v = g.as_dataset_mut();
                    d_remove(&mut v, q)
                };
                if q.g.is_some() {
                    if r != Ok(false) {
                        ctx.fail("view/as_dataset_mut-remove-named", format!("step {step} {name}: remove from named graph through as_dataset_mut -> {r:?}, expected Ok(false)"));
                    }
                } else {
                    let ch = model_remove(&mut model, q);
                    if r.is_err() || (is_set && r != Ok(ch)) {
                        ctx.fail("view/as_dataset_mut-remove-flag", format!("step {step} {name}: as_dataset_mut().remove {} -> {r:?}, expected {ch}", q.show()));
                    }
                }
            }
            GOp::DsRemoveAll(qs) => {
                view_mut = true;
                ctx.class("asds-remove_all");
                let r = {
                    let mut v = g.as_dataset_mut();
                    d_remove_all(&mut v, qs)
                };
                let mut n = 0;
                for q in qs {
                    if q.g.is_none() && model_remove(&mut model, q) {
                        n += 1;
                    }
                }
                if r.is_err() || (is_set && r != Ok(n)) {
                    ctx.fail("view/as_dataset_mut-remove_all", format!("step {step} {name}: as_dataset_mut().remove_all -> {r:?}, expected Ok({n})"));
                }
            }
            GOp::DsInsertAllDefault(qs) => {
                view_mut = true;
                ctx.class("asds-insert_all");
                let qs: Vec<MQ> = qs.iter().map(proj).collect();
                let r = {
                    let mut v = g.as_dataset_mut();
                    d_insert_all(&mut v, &qs)
                };
                let mut n = 0;
                for q in &qs {
                    if model_insert(&mut model, q, is_set) {
                        n += 1;
                    }
                }
                if r.is_err() || (is_set && r != Ok(n)) {
                    ctx.fail("view/as_dataset_mut-insert_all", format!("step {step} {name}: as_dataset_mut().insert_all -> {r:?}, expected Ok({n})"));
                }
            }
            GOp::ReadDs(pat) => {
                if view_mut {
                    ctx.nontrivial();
                }
                ctx.class(format!("asds-read-g-{}", pat.g.label()));
                let v = g.as_dataset();
                let exp: Vec<MQ> = model.iter().filter(|q| pat.matches(q)).cloned().collect();
                cmp(ctx, "as_dataset.quads_matching", name, d_matching(&v, pat), exp, step);
                cmp(ctx, "as_dataset.quads", name, d_all(&v), model.clone(), step);
                for q in model.iter().take(2) {
                    if !d_contains(&v, q) {
                        ctx.fail("view/as_dataset.contains", format!("step {step} {name}: as_dataset().contains({}) = false", q.show()));
                    }
                    let mut q2 = q.clone();
                    q2.g = Some(MT::iri("http://x/g1"));
                    if d_contains(&v, &q2) {
                        ctx.fail("view/as_dataset.contains", format!("step {step} {name}: as_dataset().contains({}) = true", q2.show()));
                    }
                }
                cmp(ctx, "graph.triples", name, g_all(&g), model.clone(), step);
            }
            GOp::ReadIntoDs(pat) => {
                if view_mut {
                    ctx.nontrivial();
                }
                let v = (&g).into_dataset();
                let exp: Vec<MQ> = model.iter().filter(|q| pat.matches(q)).cloned().collect();
                cmp(ctx, "into_dataset.quads_matching", name, d_matching(&v, pat), exp, step);
            }
        }
    }
    cmp(ctx, "graph.triples(final)", name, g_all(&g), model, ops.len());
}

impl Check for C11 {
    type Case = Case;
    const ID: &'static str = "C11";
    fn rule() -> String {
        "histories (<=24 ops) alternating direct mutations with mutations through graph_mut(g)/as_dataset_mut() and reads through union/partial-union/named-graph/graph-as-dataset views with random patterns, on 9 dataset and 6 graph store types; oracle = list/set model filtered by model-side matcher semantics. Non-trivial = history containing a mutation through a view followed by a read through a view; distinct by hash of the whole case.".into()
    }
    fn assumptions() -> Vec<String> {
        vec![
            "union views are compared as multisets of projections (a triple present in two graphs appears twice)".into(),
            "returned flags are only checked for set stores (documented as not significant otherwise)".into(),
            "Vec-backed stores: remove drops every equal entry (the contract of the repository's handle_duplicate test)".into(),
        ]
    }
    fn cases(tier: Tier) -> u32 {
        tier.pick(60_000, 3_000_000)
    }
    fn strategy(_tier: Tier) -> BoxedStrategy<Case> {
        let c = cfg();
        let wide = (c.term('s', false), c.term('p', false), c.term('o', false), pick(gpool()))
            .prop_map(|(s, p, o, g)| MQ::new(s, p, o, g));
        // dense universe (3*2*4*5 = 120 quads) so that duplicates and hits are frequent
        let dense = (
            pick(vec![MT::iri("http://x/a"), MT::bn("b"), MT::triple(MT::iri("http://x/a"), MT::iri("http://x/b"), MT::bn("b"))]),
            pick(vec![MT::iri("http://x/a"), MT::iri("http://x/b")]),
            pick(vec![MT::iri("http://x/a"), MT::string("a"), MT::lang("a", "en"), MT::lang("a", "EN")]),
            pick(gpool()),
        )
            .prop_map(|(s, p, o, g)| MQ::new(s, p, o, g));
        let quad = prop_oneof![4 => dense, 1 => wide].boxed();
        let tp = tpat(tpool(), vec![XSD_STRING.into(), RDF_LANGSTRING.into()], vec!["en".into(), "fr".into()]);
        let gp = gpat(gpool(), tp.clone());
        let qp = (tp.clone(), tp.clone(), tp.clone(), gp.clone())
            .prop_map(|(s, p, o, g)| QPat { s, p, o, g })
            .boxed();
        let dop = prop_oneof![
            3 => quad.clone().prop_map(DOp::Insert),
            2 => quad.clone().prop_map(DOp::Remove),
            3 => (pick(gpool()), quad.clone()).prop_map(|(g, q)| DOp::ViewInsert(g, q)),
            3 => (pick(gpool()), quad.clone()).prop_map(|(g, q)| DOp::ViewRemove(g, q)),
            1 => (pick(gpool()), prop::collection::vec(quad.clone(), 0..4)).prop_map(|(g, q)| DOp::ViewInsertAll(g, q)),
            1 => (pick(gpool()), prop::collection::vec(quad.clone(), 0..4)).prop_map(|(g, q)| DOp::ViewRemoveAll(g, q)),
            1 => (pick(gpool()), qp.clone()).prop_map(|(g, q)| DOp::ViewRemoveMatching(g, q)),
            1 => (pick(gpool()), qp.clone()).prop_map(|(g, q)| DOp::ViewRetainMatching(g, q)),
            2 => qp.clone().prop_map(DOp::ReadUnion),
            1 => qp.clone().prop_map(DOp::ReadIntoUnion),
            3 => (gp.clone(), qp.clone()).prop_map(|(g, q)| DOp::ReadPartial(g, q)),
            3 => (pick(gpool()), qp.clone()).prop_map(|(g, q)| DOp::ReadGraph(g, q)),
        ];
        let gop = prop_oneof![
            3 => quad.clone().prop_map(GOp::Insert),
            2 => quad.clone().prop_map(GOp::Remove),
            3 => quad.clone().prop_map(GOp::DsInsert),
            4 => quad.clone().prop_map(GOp::DsRemove),
            1 => prop::collection::vec(quad.clone(), 0..4).prop_map(GOp::DsRemoveAll),
            1 => prop::collection::vec(quad.clone(), 0..4).prop_map(GOp::DsInsertAllDefault),
            3 => qp.clone().prop_map(GOp::ReadDs),
            1 => qp.clone().prop_map(GOp::ReadIntoDs),
        ];
        let init = prop::collection::vec(quad.clone(), 0..8);
        prop_oneof![
            3 => (0..DS_NAMES.len() as u8, init.clone(), prop::collection::vec(dop, 1..24))
                .prop_map(|(store, init, ops)| Case::Ds { store, init, ops }),
            2 => (0..GR_NAMES.len() as u8, init, prop::collection::vec(gop, 1..24))
                .prop_map(|(store, init, ops)| Case::Gr { store, init, ops }),
        ]
        .boxed()
    }
    fn run(case: &Case, ctx: &mut Ctx) {
        match case {
            Case::Ds { store, init, ops } => {
                let i = *store as usize % DS_NAMES.len();
                let n = DS_NAMES[i];
                ctx.class(format!("store:{n}"));
                match i {
                    0 => run_ds_fast(n, true, init, ops, ctx),
                    1 => run_ds_light(n, true, init, ops, ctx),
                    2 => run_ds_btspog(n, true, init, ops, ctx),
                    3 => run_ds_hgspo(n, true, init, ops, ctx),
                    4 => run_ds_vspog(n, false, init, ops, ctx),
                    5 => run_ds_sfast(n, true, init, ops, ctx),
                    6 => run_ds_hspog(n, true, init, ops, ctx),
                    7 => run_ds_btgspo(n, true, init, ops, ctx),
                    _ => run_ds_vgspo(n, false, init, ops, ctx),
                }
            }
            Case::Gr { store, init, ops } => {
                let i = *store as usize % GR_NAMES.len();
                let n = GR_NAMES[i];
                ctx.class(format!("store:{n}"));
                match i {
                    0 => run_gr::<FastGraph>(n, true, init, ops, ctx),
                    1 => run_gr::<LightGraph>(n, true, init, ops, ctx),
                    2 => run_gr::<BTreeTriples>(n, true, init, ops, ctx),
                    3 => run_gr::<VecTriples>(n, false, init, ops, ctx),
                    4 => run_gr::<HashTriples>(n, true, init, ops, ctx),
                    _ => run_gr::<SmallLightGraph>(n, true, init, ops, ctx),
                }
            }
        }
    }
}

pub fn main(opts: &Opts) -> i32 {
    drive::<C11>(opts)
}
pub fn worker(_args: &[String]) -> i32 {
    2
}
