//! C07 — isomorphism test: no false negatives, no blindness to ground differences.
//!
//! Positive twin: bijective blank-node renaming everywhere (nested quoted triples, graph names)
//! + statement shuffle + other container => `true`, both ways. Negative twins (one ground term
//! changed, statement added/removed, two blank nodes merged, one split): the answer must be
//! symmetric, `true` if the exact search (`iso_exact`) finds an isomorphism, and `false`
//! whenever sizes, blank-node counts or the blanked-out statement multisets differ.
//! Nothing else is demanded (the documented contract allows false positives).
use crate::engine::*;
use crate::gen::*;
use crate::iso;
use crate::model::*;
use crate::stores::*;
use proptest::prelude::*;
use serde::{Deserialize, Serialize};
use sophia_api::dataset::Dataset as _;
use sophia_isomorphism::{isomorphic_datasets, isomorphic_graphs};

#[derive(Clone, Debug, Serialize, Deserialize)]
pub enum Neg {
    /// replace the first ground atom found in quad i (searching from position `pos`) by another term
    ChangeGround(usize, usize, MT),
    AddQuad(MQ),
    RemoveQuad(usize),
    /// rename blank node #b to blank node #a
    Merge(usize, usize),
    /// in quad i, give the first blank node occurrence a fresh label
    Split(usize),
    /// exchange the first blank node occurrence of quad i with that of quad j (keeps sizes,
    /// blank node count and blanked statements: only symmetry is demanded, unless still isomorphic)
    SwapBnodes(usize, usize),
    /// no mutation: a second, independently relabelled copy
    Copy,
    /// move statement i between the default graph and a named graph (or to another named graph):
    /// the statement itself is unchanged, only *where* it is asserted differs
    MoveGraph(usize, u8),
    /// change only the *nesting* of a quoted triple of statement i: same atoms in the same order under
    /// another bracketing (<< <<a b c>> p o >> <-> << a b <<c p o>> >>), or an inner quoted triple
    /// replaced by its first component (the atom sequence becomes a prefix of the old one)
    Nesting(usize, u8),
}

#[derive(Clone, Debug, Serialize, Deserialize)]
pub struct Case {
    pub quads: Vec<MQ>,
    pub as_graph: bool,
    pub salt: u64,
    pub swaps: Vec<usize>,
    pub cont_a: u8,
    pub cont_b: u8,
    pub neg: Neg,
    pub neg_salt: u64,
}

pub struct C07;

pub const DS_CONT: &[&str] = &["Vec<Spog>", "HashSet<Spog>", "FastDataset", "BTreeSet<Gspo>", "LightDataset"];
pub const GR_CONT: &[&str] = &["Vec<[T;3]>", "HashSet<[T;3]>", "FastGraph", "BTreeSet<[T;3]>", "LightGraph", "HashSet<Spog>.graph(g)", "FastDataset.union_graph()", "BTreeSet<Gspo>.partial_union_graph([None,g])"];

macro_rules! with_ds {
    ($idx:expr, $qs:expr, $d:ident, $body:expr) => {
        match ($idx as usize) % 5 {
            0 => {
                let $d: VecSpog = d_from($qs).expect("collect");
                $body
            }
            1 => {
                let $d: HashSpog = d_from($qs).expect("collect");
                $body
            }
            2 => {
                let $d: FastDataset = d_from($qs).expect("collect");
                $body
            }
            3 => {
                let $d: BTreeGspo = d_from($qs).expect("collect");
                $body
            }
            _ => {
                let $d: LightDataset = d_from($qs).expect("collect");
                $body
            }
        }
    };
}
macro_rules! with_gr {
    ($idx:expr, $qs:expr, $d:ident, $body:expr) => {
        match ($idx as usize) % 8 {
            0 => {
                let $d: VecTriples = g_from($qs).expect("collect");
                $body
            }
            1 => {
                let $d: HashTriples = g_from($qs).expect("collect");
                $body
            }
            2 => {
                let $d: FastGraph = g_from($qs).expect("collect");
                $body
            }
            3 => {
                let $d: BTreeTriples = g_from($qs).expect("collect");
                $body
            }
            4 => {
                let $d: LightGraph = g_from($qs).expect("collect");
                $body
            }
            5 => {
                // a named-graph view on a dataset that also holds statements in other graphs
                let ds: HashSpog = d_from(&view_quads($qs, 0)).expect("collect");
                let $d = ds.graph(Some(view_graph_name(0)));
                $body
            }
            6 => {
                // the union-graph view of a dataset holding each triple in one of two graphs
                let ds: FastDataset = d_from(&view_quads($qs, 1)).expect("collect");
                let $d = ds.union_graph();
                $body
            }
            _ => {
                // a partial union (default graph + one named graph) with extra statements elsewhere
                let ds: BTreeGspo = d_from(&view_quads($qs, 2)).expect("collect");
                let gname = view_graph_name(0);
                let sel = [None, Some(&gname)];
                let $d = ds.partial_union_graph(sel);
                $body
            }
        }
    };
}

fn view_graph_name(i: usize) -> ST {
    MT::iri(["http://view.example/g0", "http://view.example/g1", "http://view.example/other"][i % 3]).to_simple()
}
/// spread the triples of `qs` over the graphs selected by the view kind, and add statements that
/// the view must not show
fn view_quads(qs: &[MQ], kind: usize) -> Vec<MQ> {
    let g = |i: usize| Some(MT::from_term(view_graph_name(i)));
    let mut out: Vec<MQ> = vec![];
    for (i, q) in qs.iter().enumerate() {
        let mut q = q.clone();
        q.g = match kind {
            0 => g(0),
            1 => {
                if i % 2 == 0 {
                    None
                } else {
                    g(1)
                }
            }
            _ => {
                if i % 2 == 0 {
                    None
                } else {
                    g(0)
                }
            }
        };
        out.push(q);
    }
    if kind != 1 {
        // not selected by the view
        for k in 0..3 {
            out.push(MQ::new(MT::iri(format!("http://view.example/extra{k}")), MT::iri("http://view.example/p"), MT::bn(format!("extra{k}")), g(2)));
        }
    }
    out
}

/// the real answer; Err = panic or stream error
fn real_iso(as_graph: bool, ca: u8, a: &[MQ], cb: u8, b: &[MQ]) -> Result<bool, String> {
    let r = catch(|| {
        if as_graph {
            with_gr!(ca, a, g1, with_gr!(cb, b, g2, isomorphic_graphs(&g1, &g2).map_err(|e| format!("{e:?}"))))
        } else {
            with_ds!(ca, a, d1, with_ds!(cb, b, d2, isomorphic_datasets(&d1, &d2).map_err(|e| format!("{e:?}"))))
        }
    });
    match r {
        Ok(Ok(v)) => Ok(v),
        Ok(Err(e)) => Err(format!("error: {e}")),
        Err(p) => Err(format!("panic: {p}")),
    }
}

fn blank_out(t: &MT) -> MT {
    t.map_bnodes(&|_| "_".to_string())
}
fn blanked(qs: &[MQ]) -> Vec<MQ> {
    let mut v: Vec<MQ> = qs.iter().map(|q| MQ::new(blank_out(&q.s), blank_out(&q.p), blank_out(&q.o), q.g.as_ref().map(blank_out))).collect();
    v.sort();
    v
}

/// the three conditions under which the statement demands `false`
fn must_be_false(a: &[MQ], b: &[MQ]) -> Option<&'static str> {
    if a.len() != b.len() {
        return Some("different-size");
    }
    if all_bnodes(a).len() != all_bnodes(b).len() {
        return Some("different-bnode-count");
    }
    if blanked(a) != blanked(b) {
        return Some("different-blanked-statements");
    }
    None
}

fn trigger(a: &[MQ], b: &[MQ]) -> &'static str {
    let nested = |qs: &[MQ]| qs.iter().any(|q| q.terms().iter().any(|t| t.is_triple() && t.has_bnode()));
    let bgraph = |qs: &[MQ]| qs.iter().any(|q| q.g.as_ref().map(|g| g.is_bnode()).unwrap_or(false));
    if nested(a) || nested(b) {
        "bnode-in-quoted-triple"
    } else if bgraph(a) || bgraph(b) {
        "blank-graph-name"
    } else {
        "plain"
    }
}

fn prep(qs: &[MQ], as_graph: bool) -> Vec<MQ> {
    let v: Vec<MQ> = if as_graph { qs.iter().map(|q| MQ::new(q.s.clone(), q.p.clone(), q.o.clone(), None)).collect() } else { qs.to_vec() };
    // a copy "of itself" is a set of statements: no duplicates under term equality, and a single
    // spelling per language tag (the stores compare tags case-insensitively)
    crate::c06::normalise_dataset(v)
}

fn first_ground_atom_replace(t: &MT, new: &MT, done: &mut bool) -> MT {
    if *done {
        return t.clone();
    }
    match t {
        MT::Bnode(_) => t.clone(),
        MT::Triple(tr) => {
            let s = first_ground_atom_replace(&tr[0], new, done);
            let p = first_ground_atom_replace(&tr[1], new, done);
            let o = first_ground_atom_replace(&tr[2], new, done);
            MT::triple(s, p, o)
        }
        other => {
            if other.same_repr(new) {
                other.clone()
            } else {
                *done = true;
                new.clone()
            }
        }
    }
}
fn first_bnode_replace(t: &MT, fresh: &str, done: &mut bool) -> MT {
    if *done {
        return t.clone();
    }
    match t {
        MT::Bnode(_) => {
            *done = true;
            MT::bn(fresh)
        }
        MT::Triple(tr) => {
            let s = first_bnode_replace(&tr[0], fresh, done);
            let p = first_bnode_replace(&tr[1], fresh, done);
            let o = first_bnode_replace(&tr[2], fresh, done);
            MT::triple(s, p, o)
        }
        other => other.clone(),
    }
}

fn apply_neg(a: &[MQ], neg: &Neg) -> (Vec<MQ>, &'static str) {
    let mut out = a.to_vec();
    let n = out.len();
    let labels = all_bnodes(a);
    let kind = match neg {
        Neg::Copy => "copy",
        Neg::ChangeGround(i, pos, t) => {
            if n > 0 {
                let q = &mut out[i % n];
                let mut done = false;
                for k in 0..4 {
                    match (pos + k) % 4 {
                        0 => q.s = first_ground_atom_replace(&q.s, t, &mut done),
                        1 => q.p = first_ground_atom_replace(&q.p, t, &mut done),
                        2 => q.o = first_ground_atom_replace(&q.o, t, &mut done),
                        _ => {
                            if let Some(g) = &q.g {
                                q.g = Some(first_ground_atom_replace(g, t, &mut done))
                            }
                        }
                    }
                }
            }
            "change-ground-term"
        }
        Neg::AddQuad(q) => {
            out.push(q.clone());
            "add-statement"
        }
        Neg::Nesting(i, k) => {
            fn renest(t: &MT, k: u8) -> Option<MT> {
                if let MT::Triple(t3) = t {
                    match (&t3[0], &t3[2], k % 2) {
                        (MT::Triple(i), _, 0) => Some(MT::triple(i[0].clone(), i[1].clone(), MT::triple(i[2].clone(), t3[1].clone(), t3[2].clone()))),
                        (_, MT::Triple(i), 0) => Some(MT::triple(MT::triple(t3[0].clone(), t3[1].clone(), i[0].clone()), i[1].clone(), i[2].clone())),
                        (_, MT::Triple(i), _) => Some(MT::triple(t3[0].clone(), t3[1].clone(), i[0].clone())),
                        (MT::Triple(i), _, _) => Some(MT::triple(i[0].clone(), t3[1].clone(), t3[2].clone())),
                        // a flat quoted triple: nest its object
                        _ => Some(MT::triple(t3[0].clone(), t3[1].clone(), MT::triple(t3[2].clone(), t3[1].clone(), t3[2].clone()))),
                    }
                } else {
                    None
                }
            }
            if n > 0 {
                // the first statement from i on that holds a quoted triple
                for d in 0..n {
                    let q = &mut out[(i + d) % n];
                    if let Some(t) = renest(&q.s, *k) {
                        q.s = t;
                        break;
                    }
                    if let Some(t) = renest(&q.o, *k) {
                        q.o = t;
                        break;
                    }
                }
            }
            "change-nesting-of-quoted-triple"
        }
        Neg::MoveGraph(i, k) => {
            if n > 0 {
                let q = &mut out[i % n];
                q.g = match (&q.g, k % 3) {
                    (None, 0) => Some(MT::iri("http://x/g")),
                    (None, 1) => Some(MT::iri("http://x/zz")),
                    (None, _) => Some(q.s.clone()).filter(|s| s.is_iri()).or(Some(MT::iri("http://x/g"))),
                    (Some(_), 0) | (Some(_), 1) => None,
                    (Some(g), _) => Some(if *g == MT::iri("http://x/zz") { MT::iri("http://x/g") } else { MT::iri("http://x/zz") }),
                };
            }
            "move-to-other-graph"
        }
        Neg::RemoveQuad(i) => {
            if n > 0 {
                out.remove(i % n);
            }
            "remove-statement"
        }
        Neg::Merge(x, y) => {
            if labels.len() >= 2 {
                let (x, y) = (labels[x % labels.len()].clone(), labels[y % labels.len()].clone());
                out = out.iter().map(|q| q.map_bnodes(&|l| if l == y { x.clone() } else { l.to_string() })).collect();
            }
            "merge-bnodes"
        }
        Neg::SwapBnodes(i, j) => {
            let with_b: Vec<usize> = (0..n).filter(|&k| !out[k].bnodes().is_empty()).collect();
            if with_b.len() >= 2 {
                let (i, j) = (with_b[i % with_b.len()], with_b[j % with_b.len()]);
                let (li, lj) = (out[i].bnodes()[0].to_string(), out[j].bnodes()[0].to_string());
                let put = |q: &MQ, l: &str| {
                    let mut done = false;
                    let s = first_bnode_replace(&q.s, l, &mut done);
                    let p = first_bnode_replace(&q.p, l, &mut done);
                    let o = first_bnode_replace(&q.o, l, &mut done);
                    let g = q.g.as_ref().map(|g| first_bnode_replace(g, l, &mut done));
                    MQ::new(s, p, o, g)
                };
                out[i] = put(&out[i].clone(), &lj);
                out[j] = put(&out[j].clone(), &li);
            }
            "swap-bnodes"
        }
        Neg::Split(i) => {
            if n > 0 {
                let q = &mut out[i % n];
                let mut done = false;
                q.s = first_bnode_replace(&q.s, "fresh", &mut done);
                q.p = first_bnode_replace(&q.p, "fresh", &mut done);
                q.o = first_bnode_replace(&q.o, "fresh", &mut done);
                if let Some(g) = &q.g {
                    q.g = Some(first_bnode_replace(g, "fresh", &mut done));
                }
            }
            "split-bnode"
        }
    };
    (out, kind)
}

fn cfg() -> TermCfg {
    TermCfg {
        iris: vec!["http://x/a".into(), "http://x/b".into(), "http://x/ns#p".into(), rdf("type")],
        bnodes: vec!["a".into(), "b".into(), "c0".into(), "b1".into(), "a.b".into()],
        lex: pick(vec!["".to_string(), "a".to_string(), "42".to_string()]),
        tags: vec!["en".into(), "EN".into(), "fr-056".into()],
        dts: vec![xsd("string"), xsd("integer")],
        vars: vec!["v".into(), "w".into()],
        allow_bnode: true,
        allow_literal: true,
        allow_triple: true,
        allow_var: true,
        max_depth: 2,
    }
}

/// quads around a blank-node shape, some of them mentioning the nodes inside quoted triples
fn shaped() -> BoxedStrategy<Vec<MQ>> {
    (shape(6), 0..3u8, prop::collection::vec((0..8usize, 0..8usize, 0..4u8), 0..4)).prop_map(|(sh, g, nest)| {
        let gname = match g {
            0 => None,
            1 => Some(MT::iri("http://x/g")),
            _ => Some(MT::bn("n0")),
        };
        let mut qs = sh.quads("n", "http://x/ns#p", gname);
        let (n, _) = sh.arcs();
        for (i, j, k) in nest {
            let x = MT::bn(format!("n{}", i % n.max(1)));
            let y = MT::bn(format!("n{}", j % n.max(1)));
            let tr = MT::triple(x.clone(), MT::iri("http://x/a"), y.clone());
            qs.push(match k {
                0 => MQ::new(tr, MT::iri("http://x/b"), MT::iri("http://x/a"), None),
                1 => MQ::new(x, MT::iri("http://x/b"), tr, None),
                2 => MQ::new(MT::iri("http://x/a"), MT::iri("http://x/b"), MT::triple(MT::iri("http://x/a"), MT::iri("http://x/b"), tr), None),
                _ => MQ::new(y, MT::iri("http://x/b"), MT::iri("http://x/a"), Some(tr)),
            });
        }
        qs
    })
    .boxed()
}

impl Check for C07 {
    type Case = Case;
    const ID: &'static str = "C07";
    fn rule() -> String {
        "generalized datasets/graphs (<=20 statements; IRIs, literals, variables, blank nodes in every position incl. predicate and graph name, quoted triples to depth 2 containing blank nodes; random quads over small pools and/or a blank-node shape with nested mentions) compared with (1) a bijectively relabelled, shuffled copy in another container (5 dataset container types; 8 graph container types incl. named-graph, union and partial-union views on datasets holding other statements) and (2) a relabelled mutant (ground term changed, statement added/removed, blank nodes merged/split). Non-trivial = >=2 blank nodes, or a blank node inside a quoted triple or as graph name; distinct by hash of the case."
            .into()
    }
    fn assumptions() -> Vec<String> {
        vec![
            "statements are de-duplicated under term equality before being stored (a Vec container holding a statement twice is not 'a copy of itself' of a set container)".into(),
            "term equality is sophia's documented one (language tags ASCII-case-insensitive): a difference in tag case only is not a 'difference once blank nodes are blanked out'".into(),
            "`true` is demanded for mutants only when the exact search finds an isomorphism; `false` only under the three conditions of the statement".into(),
        ]
    }
    fn cases(tier: Tier) -> u32 {
        tier.pick(100_000, 3_000_000)
    }
    fn strategy(_tier: Tier) -> BoxedStrategy<Case> {
        let c = cfg();
        let rnd = c.quads(true, true, 10);
        // "profile family": blank nodes described only by subsets of three ground properties, so that
        // many nodes look alike; a split or merge then changes the *number* of nodes of each colour
        // without creating a new colour
        let profiles = prop::collection::vec(1u8..8, 3..=8).prop_map(|subsets| {
            let mut out = vec![];
            for (i, m) in subsets.iter().enumerate() {
                for k in 0..3 {
                    if m & (1 << k) != 0 {
                        out.push(MQ::new(MT::bn(format!("n{i}")), MT::iri(format!("http://x/prop{k}")), MT::string(format!("v{k}")), None));
                    }
                }
            }
            out
        });
        let quads = prop_oneof![
            3 => rnd.clone(),
            2 => profiles,
            2 => shaped(),
            3 => (shaped(), c.quads(true, true, 5)).prop_map(|(mut a, b)| {
                a.extend(b);
                a
            }),
        ];
        let neg = prop_oneof![
            3 => (0..32usize, 0..4usize, prop_oneof![Just(MT::iri("http://x/zz")), Just(MT::iri("http://x/a")), Just(MT::string("a")), Just(MT::lang("a", "en")), Just(MT::var("v"))]).prop_map(|(i, p, t)| Neg::ChangeGround(i, p, t)),
            2 => c.quad(true, true).prop_map(Neg::AddQuad),
            2 => (0..32usize).prop_map(Neg::RemoveQuad),
            2 => (0..16usize, 0..16usize).prop_map(|(a, b)| Neg::Merge(a, b)),
            2 => (0..32usize).prop_map(Neg::Split),
            3 => (0..32usize, 0..32usize).prop_map(|(a, b)| Neg::SwapBnodes(a, b)),
            1 => Just(Neg::Copy),
            2 => (0..32usize, 0..3u8).prop_map(|(i, k)| Neg::MoveGraph(i, k)),
            2 => (0..32usize, 0..4u8).prop_map(|(i, k)| Neg::Nesting(i, k)),
        ];
        (quads, prop::bool::weighted(0.3), any::<u64>(), prop::collection::vec(0..64usize, 0..24), 0..8u8, 0..8u8, neg, any::<u64>())
            .prop_map(|(quads, as_graph, salt, swaps, cont_a, cont_b, neg, neg_salt)| Case { quads, as_graph, salt, swaps, cont_a, cont_b, neg, neg_salt })
            .boxed()
    }
    fn show(case: &Case) -> serde_json::Value {
        let a = prep(&case.quads, case.as_graph);
        let (b, kind) = apply_neg(&a, &case.neg);
        serde_json::json!({
            "A": a.iter().map(MQ::show).collect::<Vec<_>>(),
            "api": if case.as_graph { "isomorphic_graphs" } else { "isomorphic_datasets" },
            "containers": [case.cont_a % 8, case.cont_b % 8],
            "mutant": kind,
            "B": prep(&b, case.as_graph).iter().map(MQ::show).collect::<Vec<_>>(),
        })
    }
    fn run(case: &Case, ctx: &mut Ctx) {
        let a = prep(&case.quads, case.as_graph);
        let names = if case.as_graph { GR_CONT } else { DS_CONT };
        ctx.class(if case.as_graph { "api:isomorphic_graphs" } else { "api:isomorphic_datasets" });
        ctx.class(format!("containers:{}+{}", names[case.cont_a as usize % names.len()], names[case.cont_b as usize % names.len()]));
        let nb = all_bnodes(&a).len();
        let nested = a.iter().any(|q| q.terms().iter().any(|t| t.is_triple() && t.has_bnode()));
        let bgraph = a.iter().any(|q| q.g.as_ref().map(|g| g.has_bnode()).unwrap_or(false));
        if nb >= 2 || nested || bgraph {
            ctx.nontrivial();
        }
        ctx.class(format!("bnodes:{}", match nb { 0 => "0", 1 => "1", 2..=3 => "2-3", 4..=6 => "4-6", _ => "7+" }));
        if nested {
            ctx.class("bnode-in-quoted-triple");
        }
        if bgraph {
            ctx.class("bnode-in-graph-name");
        }
        if a.iter().any(|q| q.p.has_bnode()) {
            ctx.class("bnode-in-predicate");
        }
        if a.iter().any(|q| q.terms().iter().any(|t| t.has_var())) {
            ctx.class("has-variable");
        }
        if a.iter().any(|q| q.terms().iter().any(|t| t.depth() >= 2)) {
            ctx.class("nesting-depth>=2");
        }

        // ---- positive twin
        let a2 = permute(relabel(&a, case.salt), &case.swaps);
        let trig = trigger(&a, &a2);
        let r1 = real_iso(case.as_graph, case.cont_a, &a, case.cont_b, &a2);
        let r2 = real_iso(case.as_graph, case.cont_b, &a2, case.cont_a, &a);
        for (dir, r) in [("A vs copy", &r1), ("copy vs A", &r2)] {
            match r {
                Ok(true) => {}
                Ok(false) => {
                    ctx.fail(
                        format!("iso/false-negative/{trig}"),
                        format!("{dir}: a bijectively relabelled, shuffled copy is reported NOT isomorphic\n A ({}):\n{}\n copy ({}):\n{}", names[case.cont_a as usize % names.len()], show_quads(&a), names[case.cont_b as usize % names.len()], show_quads(&a2)),
                    );
                    return;
                }
                Err(e) => {
                    ctx.fail(format!("iso/failure/{trig}"), format!("{dir}: {e}\n A:\n{}", show_quads(&a)));
                    return;
                }
            }
        }
        // self comparison in the same container value
        match real_iso(case.as_graph, case.cont_a, &a, case.cont_a, &a) {
            Ok(true) => {}
            other => {
                ctx.fail(format!("iso/not-reflexive/{trig}"), format!("A vs A -> {other:?}\n{}", show_quads(&a)));
                return;
            }
        }

        // ---- negative twin
        let (b0, kind) = apply_neg(&a, &case.neg);
        let b = permute(relabel(&prep(&b0, case.as_graph), case.neg_salt), &case.swaps);
        ctx.class(format!("mutant:{kind}"));
        let trig = trigger(&a, &b);
        let r_ab = real_iso(case.as_graph, case.cont_a, &a, case.cont_b, &b);
        let r_ba = real_iso(case.as_graph, case.cont_b, &b, case.cont_a, &a);
        let (r_ab, r_ba) = match (r_ab, r_ba) {
            (Ok(x), Ok(y)) => (x, y),
            (x, y) => {
                ctx.fail(format!("iso/failure/{trig}"), format!("A vs B -> {x:?}; B vs A -> {y:?}\n A:\n{}\n B:\n{}", show_quads(&a), show_quads(&b)));
                return;
            }
        };
        if r_ab != r_ba {
            ctx.fail(format!("iso/asymmetric/{kind}/{trig}"), format!("iso(A,B)={r_ab} but iso(B,A)={r_ba}\n A:\n{}\n B:\n{}", show_quads(&a), show_quads(&b)));
            return;
        }
        let demand_false = must_be_false(&a, &b);
        let truth = iso::iso_exact_budget(&a, &b, Some(2_000_000));
        match (demand_false, truth) {
            (Some(why), Some(true)) => panic!("harness inconsistency: {why} but iso_exact says isomorphic"),
            (Some(why), _) => {
                ctx.class(format!("mutant-must-be-false:{why}"));
                if r_ab {
                    ctx.fail(
                        format!("iso/blind-to-difference/{why}/{kind}/{trig}"),
                        format!("reported isomorphic although the two differ ({why})\n A:\n{}\n B:\n{}\n {}", show_quads(&a), show_quads(&b), iso::diff_summary(&a, &b)),
                    );
                }
            }
            (None, Some(true)) => {
                ctx.class("mutant-isomorphic");
                if !r_ab {
                    ctx.fail(format!("iso/false-negative/{trig}"), format!("the exact search finds an isomorphism but the answer is false\n A:\n{}\n B:\n{}", show_quads(&a), show_quads(&b)));
                }
            }
            (None, Some(false)) => {
                // same size, same blank-node count, same blanked statements, not isomorphic:
                // the contract allows either answer
                ctx.class(if r_ab { "mutant-undemanded:false-positive" } else { "mutant-undemanded:true-negative" });
            }
            (None, None) => ctx.class("iso-budget-exceeded"),
        }
    }
}

pub fn main(opts: &Opts) -> i32 {
    drive::<C07>(opts)
}
pub fn worker(_args: &[String]) -> i32 {
    2
}
