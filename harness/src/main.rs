//! vcheck <ID> [--tier quick|thorough] [--seed N] [--replay FILE] [--cases N]
mod engine;
mod gen;
mod model;
mod pat;
mod stores;
mod c11;

use engine::*;

fn main() {
    let args: Vec<String> = std::env::args().skip(1).collect();
    if args.is_empty() {
        eprintln!("usage: vcheck <ID> [--tier quick|thorough] [--seed N] [--replay FILE] [--cases N]");
        std::process::exit(2);
    }
    let id = args[0].clone();
    let mut tier = match std::env::var("VERIF_TIER").as_deref() {
        Ok("thorough") => Tier::Thorough,
        _ => Tier::Quick,
    };
    let mut seed: u64 = std::env::var("VERIF_SEED")
        .ok()
        .and_then(|s| s.trim().parse::<i128>().ok())
        .map(|v| v as u64)
        .unwrap_or(20261003);
    let mut replay = None;
    let mut cases_override = None;
    let mut rest: Vec<String> = vec![];
    let mut i = 1;
    while i < args.len() {
        match args[i].as_str() {
            "--tier" => {
                i += 1;
                tier = if args.get(i).map(|s| s == "thorough").unwrap_or(false) { Tier::Thorough } else { Tier::Quick };
            }
            "--seed" => {
                i += 1;
                seed = args.get(i).and_then(|s| s.parse::<i128>().ok()).map(|v| v as u64).unwrap_or(seed);
            }
            "--replay" => {
                i += 1;
                replay = args.get(i).map(std::path::PathBuf::from);
            }
            "--cases" => {
                i += 1;
                cases_override = args.get(i).and_then(|s| s.parse().ok());
            }
            other => rest.push(other.to_string()),
        }
        i += 1;
    }
    let opts = Opts { tier, seed, replay, cases_override };
    let code = match id.as_str() {
        "C11" => drive::<c11::C11>(&opts),
        other => {
            eprintln!("unknown property id {other}");
            2
        }
    };
    let _ = rest;
    std::process::exit(code);
}
