//! vcheck <ID> [--tier quick|thorough] [--seed N] [--replay FILE] [--cases N]
//! vcheck --worker <ID> args...   (child-process scenarios; exit status is the oracle)
#![allow(clippy::all)]
mod engine;
mod gen;
mod iso;
mod model;
mod nqread;
mod pat;
mod stores;
mod c01;
mod c02;
mod c03;
mod c04;
mod c05;
mod c06;
mod c07;
mod c08;
mod c09;
mod c10;
mod c11;
mod c12;
mod c13;
mod c14;
mod c15;
mod c16;
mod c17;
mod c18;
mod c19;
mod c20;

use engine::*;

fn main() {
    let args: Vec<String> = std::env::args().skip(1).collect();
    if args.is_empty() {
        eprintln!("usage: vcheck <ID> [--tier quick|thorough] [--seed N] [--replay FILE] [--cases N]");
        std::process::exit(2);
    }
    if args[0] == "--worker" {
        let id = args.get(1).cloned().unwrap_or_default();
        let code = match id.as_str() {
            "C01" => c01::worker(&args[2..]),
            "C02" => c02::worker(&args[2..]),
            "C03" => c03::worker(&args[2..]),
            "C04" => c04::worker(&args[2..]),
            "C05" => c05::worker(&args[2..]),
            "C06" => c06::worker(&args[2..]),
            "C07" => c07::worker(&args[2..]),
            "C08" => c08::worker(&args[2..]),
            "C09" => c09::worker(&args[2..]),
            "C10" => c10::worker(&args[2..]),
            "C11" => c11::worker(&args[2..]),
            "C12" => c12::worker(&args[2..]),
            "C13" => c13::worker(&args[2..]),
            "C14" => c14::worker(&args[2..]),
            "C15" => c15::worker(&args[2..]),
            "C16" => c16::worker(&args[2..]),
            "C17" => c17::worker(&args[2..]),
            "C18" => c18::worker(&args[2..]),
            "C19" => c19::worker(&args[2..]),
            "C20" => c20::worker(&args[2..]),
            _ => 2,
        };
        std::process::exit(code);
    }
    let id = args[0].clone();
    let mut tier = match std::env::var("VERIF_TIER").as_deref() {
        Ok("thorough") => Tier::Thorough,
        _ => Tier::Quick,
    };
    let mut seed: u64 = std::env::var("VERIF_SEED")
        .ok()
        .and_then(|s| s.trim().parse::<i128>().ok())
        .map(|v| v as u64)
        .unwrap_or(20261003);
    let mut replay = None;
    let mut cases_override = None;
    let mut i = 1;
    while i < args.len() {
        match args[i].as_str() {
            "--tier" => {
                i += 1;
                tier = if args.get(i).map(|s| s == "thorough").unwrap_or(false) { Tier::Thorough } else { Tier::Quick };
            }
            "--seed" => {
                i += 1;
                seed = args.get(i).and_then(|s| s.parse::<i128>().ok()).map(|v| v as u64).unwrap_or(seed);
            }
            "--replay" => {
                i += 1;
                replay = args.get(i).map(std::path::PathBuf::from);
            }
            "--cases" => {
                i += 1;
                cases_override = args.get(i).and_then(|s| s.parse().ok());
            }
            _ => {}
        }
        i += 1;
    }
    let opts = Opts { tier, seed, replay, cases_override };
    let code = match id.as_str() {
        "C01" => c01::main(&opts),
        "C02" => c02::main(&opts),
        "C03" => c03::main(&opts),
        "C04" => c04::main(&opts),
        "C05" => c05::main(&opts),
        "C06" => c06::main(&opts),
        "C07" => c07::main(&opts),
        "C08" => c08::main(&opts),
        "C09" => c09::main(&opts),
        "C10" => c10::main(&opts),
        "C11" => c11::main(&opts),
        "C12" => c12::main(&opts),
        "C13" => c13::main(&opts),
        "C14" => c14::main(&opts),
        "C15" => c15::main(&opts),
        "C16" => c16::main(&opts),
        "C17" => c17::main(&opts),
        "C18" => c18::main(&opts),
        "C19" => c19::main(&opts),
        "C20" => c20::main(&opts),
        other => {
            eprintln!("unknown property id {other}");
            2
        }
    };
    std::process::exit(code);
}
