//! Model terms / quads: an independent, plain-data representation of RDF terms,
//! with equality and order implemented from the *documentation* of `Term::eq/cmp`
//! (never by calling them), and conversions to/from sophia terms through the
//! public accessor methods only.
#![allow(dead_code)]

use serde::{Deserialize, Serialize};
use sophia_api::term::{BnodeId, IriRef, LanguageTag, SimpleTerm, Term, TermKind, VarName};
use std::cmp::Ordering;

pub const RDF: &str = "http://www.w3.org/1999/02/22-rdf-syntax-ns#";
pub const XSD: &str = "http://www.w3.org/2001/XMLSchema#";
pub const RDFS: &str = "http://www.w3.org/2000/01/rdf-schema#";
pub const XSD_STRING: &str = "http://www.w3.org/2001/XMLSchema#string";
pub const RDF_LANGSTRING: &str = "http://www.w3.org/1999/02/22-rdf-syntax-ns#langString";

pub fn rdf(s: &str) -> String {
    format!("{RDF}{s}")
}
pub fn xsd(s: &str) -> String {
    format!("{XSD}{s}")
}

#[derive(Clone, Debug, Serialize, Deserialize)]
pub enum MT {
    Iri(String),
    Bnode(String),
    /// lexical form, datatype IRI
    Lit(String, String),
    /// lexical form, language tag (case kept; compared ASCII-case-insensitively)
    Lang(String, String),
    Triple(Box<[MT; 3]>),
    Var(String),
}

impl MT {
    pub fn iri(s: impl Into<String>) -> MT {
        MT::Iri(s.into())
    }
    pub fn bn(s: impl Into<String>) -> MT {
        MT::Bnode(s.into())
    }
    pub fn lit(l: impl Into<String>, dt: impl Into<String>) -> MT {
        MT::Lit(l.into(), dt.into())
    }
    pub fn string(l: impl Into<String>) -> MT {
        MT::Lit(l.into(), XSD_STRING.into())
    }
    pub fn lang(l: impl Into<String>, t: impl Into<String>) -> MT {
        MT::Lang(l.into(), t.into())
    }
    pub fn triple(s: MT, p: MT, o: MT) -> MT {
        MT::Triple(Box::new([s, p, o]))
    }
    pub fn var(s: impl Into<String>) -> MT {
        MT::Var(s.into())
    }

    /// rank per the documentation: blank < IRI < literal < triple < variable
    pub fn rank(&self) -> u8 {
        match self {
            MT::Bnode(_) => 0,
            MT::Iri(_) => 1,
            MT::Lit(..) | MT::Lang(..) => 2,
            MT::Triple(_) => 3,
            MT::Var(_) => 4,
        }
    }
    pub fn kind(&self) -> TermKind {
        match self {
            MT::Bnode(_) => TermKind::BlankNode,
            MT::Iri(_) => TermKind::Iri,
            MT::Lit(..) | MT::Lang(..) => TermKind::Literal,
            MT::Triple(_) => TermKind::Triple,
            MT::Var(_) => TermKind::Variable,
        }
    }
    pub fn is_bnode(&self) -> bool {
        matches!(self, MT::Bnode(_))
    }
    pub fn is_iri(&self) -> bool {
        matches!(self, MT::Iri(_))
    }
    pub fn is_literal(&self) -> bool {
        matches!(self, MT::Lit(..) | MT::Lang(..))
    }
    pub fn is_triple(&self) -> bool {
        matches!(self, MT::Triple(_))
    }
    pub fn is_var(&self) -> bool {
        matches!(self, MT::Var(_))
    }
    pub fn datatype(&self) -> Option<&str> {
        match self {
            MT::Lit(_, d) => Some(d),
            MT::Lang(..) => Some(RDF_LANGSTRING),
            _ => None,
        }
    }
    pub fn lexical(&self) -> Option<&str> {
        match self {
            MT::Lit(l, _) | MT::Lang(l, _) => Some(l),
            _ => None,
        }
    }
    pub fn tag(&self) -> Option<&str> {
        match self {
            MT::Lang(_, t) => Some(t),
            _ => None,
        }
    }
    /// Does this term (recursively) contain a blank node?
    pub fn has_bnode(&self) -> bool {
        match self {
            MT::Bnode(_) => true,
            MT::Triple(t) => t.iter().any(MT::has_bnode),
            _ => false,
        }
    }
    pub fn has_var(&self) -> bool {
        match self {
            MT::Var(_) => true,
            MT::Triple(t) => t.iter().any(MT::has_var),
            _ => false,
        }
    }
    pub fn depth(&self) -> usize {
        match self {
            MT::Triple(t) => 1 + t.iter().map(MT::depth).max().unwrap_or(0),
            _ => 0,
        }
    }
    /// all atoms (non-triple constituents), in order
    pub fn atoms<'a>(&'a self, out: &mut Vec<&'a MT>) {
        match self {
            MT::Triple(t) => t.iter().for_each(|x| x.atoms(out)),
            _ => out.push(self),
        }
    }
    /// all constituents (self and nested), in order
    pub fn constituents<'a>(&'a self, out: &mut Vec<&'a MT>) {
        out.push(self);
        if let MT::Triple(t) = self {
            t.iter().for_each(|x| x.constituents(out))
        }
    }
    pub fn bnodes<'a>(&'a self, out: &mut Vec<&'a str>) {
        match self {
            MT::Bnode(b) => out.push(b),
            MT::Triple(t) => t.iter().for_each(|x| x.bnodes(out)),
            _ => {}
        }
    }
    /// Apply a renaming to blank node labels, everywhere.
    pub fn map_bnodes(&self, f: &dyn Fn(&str) -> String) -> MT {
        match self {
            MT::Bnode(b) => MT::Bnode(f(b)),
            MT::Triple(t) => MT::Triple(Box::new([
                t[0].map_bnodes(f),
                t[1].map_bnodes(f),
                t[2].map_bnodes(f),
            ])),
            x => x.clone(),
        }
    }
    /// Same term with the language tag lower-cased (canonical key form).
    pub fn folded(&self) -> MT {
        match self {
            MT::Lang(l, t) => MT::Lang(l.clone(), t.to_ascii_lowercase()),
            MT::Triple(t) => MT::Triple(Box::new([t[0].folded(), t[1].folded(), t[2].folded()])),
            x => x.clone(),
        }
    }
    /// Exact comparison including the case of language tags.
    pub fn same_repr(&self, other: &MT) -> bool {
        match (self, other) {
            (MT::Lang(l1, t1), MT::Lang(l2, t2)) => l1 == l2 && t1 == t2,
            (MT::Triple(a), MT::Triple(b)) => (0..3).all(|i| a[i].same_repr(&b[i])),
            _ => self == other,
        }
    }

    /// N-Triples-like rendering for human consumption (samples, messages).
    pub fn show(&self) -> String {
        match self {
            MT::Iri(i) => format!("<{i}>"),
            MT::Bnode(b) => format!("_:{b}"),
            MT::Lit(l, d) if d == XSD_STRING => format!("{l:?}"),
            MT::Lit(l, d) => format!("{l:?}^^<{d}>"),
            MT::Lang(l, t) => format!("{l:?}@{t}"),
            MT::Triple(t) => format!("<< {} {} {} >>", t[0].show(), t[1].show(), t[2].show()),
            MT::Var(v) => format!("?{v}"),
        }
    }

    /// Convert to an owned sophia `SimpleTerm`, with unchecked wrappers
    /// (the caller is responsible for only generating valid components).
    pub fn to_simple(&self) -> SimpleTerm<'static> {
        match self {
            MT::Iri(i) => SimpleTerm::Iri(IriRef::new_unchecked(i.clone().into())),
            MT::Bnode(b) => SimpleTerm::BlankNode(BnodeId::new_unchecked(b.clone().into())),
            MT::Lit(l, d) => SimpleTerm::LiteralDatatype(
                l.clone().into(),
                IriRef::new_unchecked(d.clone().into()),
            ),
            MT::Lang(l, t) => SimpleTerm::LiteralLanguage(
                l.clone().into(),
                LanguageTag::new_unchecked(t.clone().into()),
            ),
            MT::Triple(t) => SimpleTerm::Triple(Box::new([
                t[0].to_simple(),
                t[1].to_simple(),
                t[2].to_simple(),
            ])),
            MT::Var(v) => SimpleTerm::Variable(VarName::new_unchecked(v.clone().into())),
        }
    }

    /// Read any sophia term through its accessor methods only.
    pub fn from_term<T: Term>(t: T) -> MT {
        match t.kind() {
            TermKind::Iri => MT::Iri(t.iri().expect("iri() on Iri kind").as_str().to_string()),
            TermKind::BlankNode => MT::Bnode(
                t.bnode_id()
                    .expect("bnode_id() on BlankNode kind")
                    .as_str()
                    .to_string(),
            ),
            TermKind::Literal => {
                let lex = t.lexical_form().expect("lexical_form() on Literal").to_string();
                if let Some(tag) = t.language_tag() {
                    MT::Lang(lex, tag.as_str().to_string())
                } else {
                    MT::Lit(
                        lex,
                        t.datatype().expect("datatype() on Literal").as_str().to_string(),
                    )
                }
            }
            TermKind::Triple => {
                let [s, p, o] = t.triple().expect("triple() on Triple kind");
                MT::Triple(Box::new([MT::from_term(s), MT::from_term(p), MT::from_term(o)]))
            }
            TermKind::Variable => MT::Var(
                t.variable()
                    .expect("variable() on Variable kind")
                    .as_str()
                    .to_string(),
            ),
        }
    }
}

impl PartialEq for MT {
    fn eq(&self, other: &MT) -> bool {
        self.cmp(other) == Ordering::Equal
    }
}
impl Eq for MT {}
impl PartialOrd for MT {
    fn partial_cmp(&self, other: &MT) -> Option<Ordering> {
        Some(self.cmp(other))
    }
}
impl Ord for MT {
    /// Documented order of `Term::cmp`: kind rank; IRIs/bnodes/variables by value;
    /// literals by datatype, then language (case-insensitive), then lexical form;
    /// triples lexicographically.
    fn cmp(&self, other: &MT) -> Ordering {
        self.rank().cmp(&other.rank()).then_with(|| match (self, other) {
            (MT::Iri(a), MT::Iri(b)) | (MT::Bnode(a), MT::Bnode(b)) | (MT::Var(a), MT::Var(b)) => {
                Ord::cmp(a.as_str(), b.as_str())
            }
            (MT::Triple(a), MT::Triple(b)) => a[0]
                .cmp(&b[0])
                .then_with(|| a[1].cmp(&b[1]))
                .then_with(|| a[2].cmp(&b[2])),
            (a, b) => {
                let da = a.datatype().unwrap();
                let db = b.datatype().unwrap();
                Ord::cmp(da, db)
                    .then_with(|| {
                        let ta = a.tag().map(|t| t.to_ascii_lowercase());
                        let tb = b.tag().map(|t| t.to_ascii_lowercase());
                        ta.cmp(&tb)
                    })
                    .then_with(|| Ord::cmp(a.lexical().unwrap(), b.lexical().unwrap()))
            }
        })
    }
}
impl std::hash::Hash for MT {
    fn hash<H: std::hash::Hasher>(&self, state: &mut H) {
        self.rank().hash(state);
        match self {
            MT::Iri(a) | MT::Bnode(a) | MT::Var(a) => a.hash(state),
            MT::Lit(l, d) => {
                l.hash(state);
                d.hash(state)
            }
            MT::Lang(l, t) => {
                l.hash(state);
                t.to_ascii_lowercase().hash(state)
            }
            MT::Triple(t) => t.iter().for_each(|x| x.hash(state)),
        }
    }
}

/// A model quad: subject, predicate, object, graph name (None = default graph).
#[derive(Clone, Debug, PartialEq, Eq, PartialOrd, Ord, Hash, Serialize, Deserialize)]
pub struct MQ {
    pub s: MT,
    pub p: MT,
    pub o: MT,
    pub g: Option<MT>,
}

pub type STQuad = ([SimpleTerm<'static>; 3], Option<SimpleTerm<'static>>);

impl MQ {
    pub fn new(s: MT, p: MT, o: MT, g: Option<MT>) -> MQ {
        MQ { s, p, o, g }
    }
    pub fn show(&self) -> String {
        match &self.g {
            None => format!("{} {} {} .", self.s.show(), self.p.show(), self.o.show()),
            Some(g) => format!(
                "{} {} {} {} .",
                self.s.show(),
                self.p.show(),
                self.o.show(),
                g.show()
            ),
        }
    }
    pub fn to_spog(&self) -> STQuad {
        (
            [self.s.to_simple(), self.p.to_simple(), self.o.to_simple()],
            self.g.as_ref().map(MT::to_simple),
        )
    }
    pub fn to_triple(&self) -> [SimpleTerm<'static>; 3] {
        [self.s.to_simple(), self.p.to_simple(), self.o.to_simple()]
    }
    pub fn from_quad<Q: sophia_api::quad::Quad>(q: Q) -> MQ {
        MQ {
            s: MT::from_term(q.s()),
            p: MT::from_term(q.p()),
            o: MT::from_term(q.o()),
            g: q.g().map(MT::from_term),
        }
    }
    pub fn from_triple<T: sophia_api::triple::Triple>(t: T) -> MQ {
        MQ {
            s: MT::from_term(t.s()),
            p: MT::from_term(t.p()),
            o: MT::from_term(t.o()),
            g: None,
        }
    }
    pub fn terms(&self) -> Vec<&MT> {
        let mut v = vec![&self.s, &self.p, &self.o];
        if let Some(g) = &self.g {
            v.push(g)
        }
        v
    }
    pub fn bnodes(&self) -> Vec<&str> {
        let mut out = vec![];
        for t in self.terms() {
            t.bnodes(&mut out)
        }
        out
    }
    pub fn map_bnodes(&self, f: &dyn Fn(&str) -> String) -> MQ {
        MQ {
            s: self.s.map_bnodes(f),
            p: self.p.map_bnodes(f),
            o: self.o.map_bnodes(f),
            g: self.g.as_ref().map(|g| g.map_bnodes(f)),
        }
    }
    pub fn same_repr(&self, o: &MQ) -> bool {
        self.s.same_repr(&o.s)
            && self.p.same_repr(&o.p)
            && self.o.same_repr(&o.o)
            && match (&self.g, &o.g) {
                (None, None) => true,
                (Some(a), Some(b)) => a.same_repr(b),
                _ => false,
            }
    }
}

pub fn show_quads(qs: &[MQ]) -> String {
    qs.iter().map(MQ::show).collect::<Vec<_>>().join("\n")
}

/// Collect any sophia dataset's quads into model quads (panics on stream error).
pub fn collect_dataset<D: sophia_api::dataset::Dataset>(d: &D) -> Vec<MQ> {
    d.quads().map(|q| MQ::from_quad(q.expect("dataset error"))).collect()
}
pub fn collect_graph<G: sophia_api::graph::Graph>(g: &G) -> Vec<MQ> {
    g.triples()
        .map(|t| MQ::from_triple(t.expect("graph error")))
        .collect()
}

pub fn sorted(mut v: Vec<MQ>) -> Vec<MQ> {
    v.sort();
    v
}

/// All distinct blank node labels in a list of quads, sorted.
pub fn all_bnodes(qs: &[MQ]) -> Vec<String> {
    let mut s = std::collections::BTreeSet::new();
    for q in qs {
        for b in q.bnodes() {
            s.insert(b.to_string());
        }
    }
    s.into_iter().collect()
}
