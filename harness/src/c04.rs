//! C04 — Turtle/TriG output (streaming or pretty) parses back to an isomorphic dataset.
//!
//! generator: datasets composed of fragments (random quads over a dense pool, blank-node shapes incl.
//!            cycles with in/out tails, rdf lists well-formed and malformed, asserted-and-quoted triples,
//!            numeric/boolean literals with valid and invalid shorthand lexicals, IRIs with awkward local
//!            parts) x configuration {pretty on/off, prefix map, indentation, Turtle or TriG};
//! system:    TurtleSerializer / TrigSerializer -> sophia strict turtle / trig parser;
//! oracle:    output accepted by the parser, no statement twice, `iso::iso_exact(input, parsed)`.
use crate::engine::*;
use crate::gen::{dedup, Shape};
use crate::iso;
use crate::model::*;
use proptest::prelude::*;
use serde::{Deserialize, Serialize};
use sophia_api::prefix::{Prefix, PrefixMapPair};
use sophia_api::quad::Spog;
use sophia_api::serializer::{QuadSerializer, Stringifier, TripleSerializer};
use sophia_api::source::{QuadSource, TripleSource};
use sophia_api::term::SimpleTerm;
use sophia_iri::Iri;
use sophia_turtle::parser::{trig, turtle};
use sophia_turtle::serializer::trig::TrigSerializer;
use sophia_turtle::serializer::turtle::{TurtleConfig, TurtleSerializer};
use std::collections::{BTreeMap, BTreeSet};

#[derive(Clone, Debug, Serialize, Deserialize)]
pub struct Case {
    pub quads: Vec<MQ>,
    pub pretty: bool,
    /// None = the serializer's default prefix map
    pub prefixes: Option<Vec<(String, String)>>,
    pub indent: String,
    /// true: default-graph dataset through TurtleSerializer + turtle parser; false: TriG
    pub turtle: bool,
}

pub struct C04;

// ---------------------------------------------------------------- pools

const NS: &[&str] = &[
    "http://x/",
    "http://x/ns#",
    "http://x/ns/",
    "http://x/ns/sub/",
    "http://x/n",
    "urn:x:",
    "http://x/ns#a",
    "http://www.w3.org/1999/02/22-rdf-syntax-ns#",
    "http://www.w3.org/2001/XMLSchema#",
    "http://www.w3.org/2000/01/rdf-schema#",
    "http://\u{e9}.example/",
    "http://x",
    "http:",
];
const LOCALS: &[&str] = &[
    "a", "b", "c", "a/b", "a.", ".a", "a.b", "%41", "a~b", "", "1", "a:b", "-a", "a-", "\u{e9}", "a,b", "_a", "a\u{b7}",
    "\u{b7}a", "true", "s", "p", "type", "nil", "a%41b", "a..b", "1.5", "a'b", "a(b)", "a@b", "a?b", "a#", "\u{300}a", "a\u{300}",
    ":", "a;b", "a=b", "a+b", "a!b", "a*b", "a$b", "a&b", "\u{10000}", "A.-", "x/", "/a",
];
const PFX: &[&str] = &[
    "", "ex", "ns", "a", "b", "rdf", "xsd", "p.q", "\u{e9}", "x-1", "true", "false", "PREFIX", "graph", "GRAPH", "base", "A", "prefix",
    "rdfs", "a.b-c", "x\u{b7}",
];
const PFX_PLAIN: &[&str] = &["", "ex", "ns", "b", "rdf", "xsd", "p.q", "\u{e9}", "x-1", "A", "rdfs", "a.b-c", "x\u{b7}"];
const INDENTS: &[&str] = &["  ", "", " ", "\t", "    ", "\t ", "\n", "\r\n", " \r"];
/// ASCII whitespace that is not Turtle white space (kept rare)
const INDENTS_ODD: &[&str] = &["\u{c}", " \u{c}"];

fn dense_iris() -> Vec<String> {
    ["http://x/a", "http://x/b", "http://x/ns#a", "http://x/ns#b", "http://x/ns/sub/a", "http://x/ns#a.b", "urn:x:a", "http://x/ns/a/b"]
        .iter()
        .map(|s| s.to_string())
        .collect()
}
fn dense_preds() -> Vec<String> {
    vec!["http://x/p".into(), "http://x/ns#q".into(), rdf("type"), "http://x/ns/r".into()]
}
fn rdf_first() -> MT {
    MT::Iri(rdf("first"))
}
fn rdf_rest() -> MT {
    MT::Iri(rdf("rest"))
}
fn rdf_nil() -> MT {
    MT::Iri(rdf("nil"))
}

fn iri() -> BoxedStrategy<MT> {
    prop_oneof![
        6 => pick(dense_iris()).prop_map(MT::Iri),
        3 => (pick(NS.to_vec()), pick(LOCALS.to_vec())).prop_map(|(n, l)| MT::Iri(format!("{n}{l}"))),
        1 => pick(vec![rdf("nil"), rdf("first"), rdf("rest"), rdf("type"), rdf("List"), xsd("integer"), format!("{RDFS}label")]).prop_map(MT::Iri),
    ]
    .boxed()
}
fn pred() -> BoxedStrategy<MT> {
    prop_oneof![
        6 => pick(dense_preds()).prop_map(MT::Iri),
        2 => iri(),
        1 => pick(vec![rdf("first"), rdf("rest")]).prop_map(MT::Iri),
    ]
    .boxed()
}

const NUM_LEX: &[&str] = &[
    "15", "1.5", "1.", ".5", "1e", "+1", "01", "TRUE", "true", "false", "1e0", "1.5e-3", "1.e+3", ".1E0", "1x5", "x5e1", "1x5e0", "-0",
    "+.5", "-1.", "1e+", "", " 1", "1 ", "0x1F", "INF", "NaN", "1_000", "\u{661}\u{662}", "1,5", "15\n", "1.5.", "1..5", "-", "+", ".",
    "e1", "1E", "1.5E+05", "00.00", "--1", "1e1.5", "True", "0", "1", "a", "15 .", "1;", "tru", "false ",
    // a valid shorthand form embedded in a longer lexical form (a regex anchored on one side only,
    // or on one alternative only, would write these bare)
    "truest", "not false", "true , false", "true ; <tag:q> false", "15x", "x15", "1.5x", "x1.5", "1e0x", "x1e0", "untrue", "falsehood",
];
/// affixes for the generated "embedded shorthand" family
const AFFIXES: &[&str] = &["x", " ", "est", " , false", " ; <tag:q> 2", "\n", ".", "e", "-", "not ", "0", "+", "E", "true", "1"];
fn num_dts() -> Vec<String> {
    vec![xsd("integer"), xsd("decimal"), xsd("double"), xsd("boolean"), xsd("float"), xsd("int"), xsd("long"), xsd("nonNegativeInteger"), xsd("unsignedByte"), xsd("string"), "http://x/dt".into()]
}
const VALID_SHORT: &[(&str, &str)] = &[
    ("integer", "15"), ("integer", "+1"), ("integer", "01"), ("integer", "-0"), ("decimal", "1.5"), ("decimal", ".5"),
    ("decimal", "+.5"), ("decimal", "00.00"), ("decimal", "-1.25"), ("double", "1e0"), ("double", "1.5e-3"), ("double", "1.e+3"),
    ("double", ".1E0"), ("double", "1.5E+05"), ("double", "-1E9"), ("boolean", "true"), ("boolean", "false"),
];
fn literal() -> BoxedStrategy<MT> {
    prop_oneof![
        5 => pick(VALID_SHORT.to_vec()).prop_map(|(d, l)| MT::Lit(l.to_string(), xsd(d))),
        6 => (pick(NUM_LEX.to_vec()), pick(num_dts())).prop_map(|(l, d)| MT::Lit(l.to_string(), d)),
        2 => (pick(VALID_SHORT.to_vec()), pick(AFFIXES.to_vec()), any::<bool>(), pick(num_dts())).prop_map(|((_, v), a, pre, d)| {
            MT::Lit(if pre { format!("{a}{v}") } else { format!("{v}{a}") }, d)
        }),
        2 => crate::gen::lexical(6).prop_map(MT::string),
        1 => (crate::gen::lexical(4), pick(crate::gen::tags())).prop_map(|(l, t)| MT::Lang(l, t)),
        1 => (crate::gen::lexical(4), pick(vec![xsd("integer"), xsd("decimal"), xsd("double"), xsd("boolean"), "http://x/ns#a.b".to_string()])).prop_map(|(l, d)| MT::Lit(l, d)),
        1 => (prop_oneof![crate::gen::lexical(4), pick(NUM_LEX.to_vec()).prop_map(|s| s.to_string())], pick(crate::gen::near_miss_datatypes())).prop_map(|(l, d)| MT::Lit(l, d)),
    ]
    .boxed()
}
/// shared blank node reference, resolved when fragments are assembled
fn shared_bn() -> BoxedStrategy<MT> {
    (0..4u8).prop_map(|k| MT::Bnode(format!("?{k}"))).boxed()
}
fn gpool() -> BoxedStrategy<Option<MT>> {
    prop_oneof![
        4 => Just(None),
        2 => Just(Some(MT::iri("http://x/g1"))),
        1 => Just(Some(MT::iri("http://x/ns#g2"))),
        1 => Just(Some(MT::bn("?0"))),
        1 => Just(Some(MT::bn("G"))),
        1 => iri().prop_map(Some),
    ]
    .boxed()
}
fn subj_atom() -> BoxedStrategy<MT> {
    prop_oneof![3 => iri(), 3 => shared_bn()].boxed()
}
fn obj_atom() -> BoxedStrategy<MT> {
    prop_oneof![3 => iri(), 3 => shared_bn(), 4 => literal()].boxed()
}
fn quoted(depth: u32) -> BoxedStrategy<MT> {
    let (s, o) = if depth > 1 {
        (
            prop_oneof![3 => subj_atom(), 1 => quoted(depth - 1)].boxed(),
            prop_oneof![3 => obj_atom(), 1 => quoted(depth - 1)].boxed(),
        )
    } else {
        (subj_atom(), obj_atom())
    };
    (s, pred(), o).prop_map(|(s, p, o)| MT::triple(s, p, o)).boxed()
}
fn rand_quad() -> BoxedStrategy<MQ> {
    let s = prop_oneof![6 => subj_atom(), 1 => quoted(2)];
    let o = prop_oneof![6 => obj_atom(), 1 => quoted(2)];
    (s, pred(), o, gpool()).prop_map(|(s, p, o, g)| MQ::new(s, p, o, g)).boxed()
}

// ---------------------------------------------------------------- fragments

/// blank-node shape, optionally with all arcs reversed (a reversed Rho is a cycle with a tail *leaving* it)
fn frag_shape(tag: usize) -> BoxedStrategy<Vec<MQ>> {
    let sh = prop_oneof![
        3 => crate::gen::shape(5),
        3 => (1..=3usize, 1..=3usize).prop_map(|(c, t)| Shape::Rho(c, t)),
    ];
    (sh, any::<bool>(), pick(dense_preds()), gpool(), prop::bool::weighted(0.3))
        .prop_map(move |(sh, rev, p, g, deco)| {
            let (n, arcs) = sh.arcs();
            let node = |i: usize| MT::bn(format!("f{tag}_{i}"));
            let mut out: Vec<MQ> = arcs
                .into_iter()
                .map(|(a, b)| if rev { (b, a) } else { (a, b) })
                .map(|(a, b)| MQ::new(node(a), MT::iri(p.clone()), node(b), g.clone()))
                .collect();
            if deco {
                for i in 0..n {
                    out.push(MQ::new(node(i), MT::iri("http://x/ns#name"), MT::string(format!("n{i}")), g.clone()));
                }
            }
            out
        })
        .boxed()
}

#[derive(Clone, Debug)]
enum Item {
    T(MT),
    /// fresh blank node carrying one property
    Sub(MT),
    /// nested list of simple items
    List(Vec<MT>),
}
fn item() -> BoxedStrategy<Item> {
    prop_oneof![
        3 => iri().prop_map(Item::T),
        3 => literal().prop_map(Item::T),
        1 => Just(Item::T(rdf_nil())),
        1 => shared_bn().prop_map(Item::T),
        1 => quoted(1).prop_map(Item::T),
        2 => literal().prop_map(Item::Sub),
        2 => prop::collection::vec(prop_oneof![iri(), literal()], 0..3).prop_map(Item::List),
    ]
    .boxed()
}
fn frag_list(tag: usize) -> BoxedStrategy<Vec<MQ>> {
    (
        prop::collection::vec(item(), 0..4),
        prop_oneof![6 => Just(0u8), 12 => 1..=12u8],
        prop_oneof![4 => Just(1u8), 6 => 0..=9u8],
        gpool(),
        gpool(),
        0..4usize,
        any::<bool>(),
    )
        .prop_map(move |(items, defect, headref, g, g2, k, flag)| build_list(tag, items, defect, headref, g, g2, k, flag))
        .boxed()
}
fn build_list(tag: usize, items: Vec<Item>, defect: u8, headref: u8, g: Option<MT>, g2: Option<MT>, k: usize, flag: bool) -> Vec<MQ> {
    let mut out = vec![];
    let mut fresh = 0usize;
    let new_bn = |fresh: &mut usize| {
        *fresh += 1;
        MT::bn(format!("f{tag}_x{fresh}"))
    };
    let x = |l: &str| MT::iri(format!("http://x/{l}"));
    let n = items.len();
    let node = |i: usize| MT::bn(format!("f{tag}_{i}"));
    let head = if n == 0 { rdf_nil() } else { node(0) };
    let k = if n == 0 { 0 } else { k % n };
    for (i, it) in items.iter().enumerate() {
        let val = match it {
            Item::T(t) => t.clone(),
            Item::Sub(l) => {
                let b = new_bn(&mut fresh);
                out.push(MQ::new(b.clone(), x("p"), l.clone(), g.clone()));
                b
            }
            Item::List(sub) => {
                if sub.is_empty() {
                    rdf_nil()
                } else {
                    let nodes: Vec<MT> = sub.iter().map(|_| new_bn(&mut fresh)).collect();
                    for (j, v) in sub.iter().enumerate() {
                        out.push(MQ::new(nodes[j].clone(), rdf_first(), v.clone(), g.clone()));
                        let nx = if j + 1 < sub.len() { nodes[j + 1].clone() } else { rdf_nil() };
                        out.push(MQ::new(nodes[j].clone(), rdf_rest(), nx, g.clone()));
                    }
                    nodes[0].clone()
                }
            }
        };
        // rdf:first
        if !(defect == 10 && i == k) {
            let gg = if defect == 9 && i == k { g2.clone() } else { g.clone() };
            out.push(MQ::new(node(i), rdf_first(), val, gg));
        }
        // rdf:rest
        let last = i + 1 == n;
        let next = if !last {
            Some(node(i + 1))
        } else {
            match defect {
                6 => Some(node(k)),
                7 => None,
                8 => Some(x("end")),
                11 => Some(MT::string("end")),
                _ => Some(rdf_nil()),
            }
        };
        if let Some(nx) = next {
            out.push(MQ::new(node(i), rdf_rest(), nx, g.clone()));
        }
    }
    if n > 0 {
        match defect {
            1 => {
                let upto = if flag { n } else { 1 };
                for i in 0..upto {
                    out.push(MQ::new(node(i), MT::Iri(rdf("type")), MT::Iri(rdf("List")), g.clone()));
                }
            }
            2 => out.push(MQ::new(node(k), x("p"), MT::string("extra"), g.clone())),
            3 => out.push(MQ::new(node(k), rdf_first(), x("second"), g.clone())),
            4 => {
                // second rdf:rest: to a fresh sub-tree, to nil, or to an IRI
                let target = if flag {
                    let b = new_bn(&mut fresh);
                    out.push(MQ::new(b.clone(), x("p"), MT::string("only-via-second-rest"), g.clone()));
                    b
                } else if k + 1 < n {
                    rdf_nil()
                } else {
                    x("other-rest")
                };
                out.push(MQ::new(node(k), rdf_rest(), target, g.clone()));
            }
            5 => {
                let h2 = new_bn(&mut fresh);
                out.push(MQ::new(h2.clone(), rdf_first(), x("h2"), g.clone()));
                out.push(MQ::new(h2.clone(), rdf_rest(), node(k), g.clone()));
                if flag {
                    out.push(MQ::new(x("s2"), x("p"), h2, g.clone()));
                }
            }
            12 => {
                // a second, well-formed list sharing no node but the same referrer
                let h = new_bn(&mut fresh);
                out.push(MQ::new(h.clone(), rdf_first(), x("z"), g.clone()));
                out.push(MQ::new(h.clone(), rdf_rest(), rdf_nil(), g.clone()));
                out.push(MQ::new(x("s"), x("p"), h, g.clone()));
            }
            _ => {}
        }
    }
    match headref {
        0 => {}
        1 => out.push(MQ::new(x("s"), x("p"), head, g.clone())),
        2 => {
            out.push(MQ::new(x("s"), x("p"), head.clone(), g.clone()));
            out.push(MQ::new(x("s2"), x("p"), head, g.clone()));
        }
        3 => {
            out.push(MQ::new(x("s"), x("p"), head.clone(), g.clone()));
            out.push(MQ::new(x("s"), x("ns#q"), head, g.clone()));
        }
        4 => out.push(MQ::new(x("s"), x("p"), head, g2.clone())),
        5 => out.push(MQ::new(MT::bn("?1"), x("p"), head, g.clone())),
        6 => {
            if head.is_bnode() {
                out.push(MQ::new(x("s"), x("p"), x("o"), Some(head)));
            }
        }
        7 => out.push(MQ::new(MT::triple(head, x("p"), x("o")), x("ns#q"), x("r"), g.clone())),
        8 => out.push(MQ::new(x("s"), rdf_rest(), head, g.clone())),
        _ => {
            // the head is also a subject of something else and referenced once
            out.push(MQ::new(x("s"), x("p"), head.clone(), g.clone()));
            if head.is_bnode() {
                out.push(MQ::new(head, x("ns#q"), MT::lit("1", xsd("integer")), g2.clone()));
            }
        }
    }
    out
}

/// asserted-and-quoted triples (annotation syntax candidates)
fn frag_annot(tag: usize) -> BoxedStrategy<Vec<MQ>> {
    let s = prop_oneof![3 => iri(), 2 => Just(MT::bn(format!("f{tag}_s"))), 1 => shared_bn()];
    let p = prop_oneof![4 => pick(dense_preds()).prop_map(MT::Iri), 1 => Just(rdf_first()), 1 => Just(rdf_rest())];
    let o = prop_oneof![3 => iri(), 3 => literal(), 2 => Just(MT::bn(format!("f{tag}_o"))), 1 => Just(rdf_nil()), 1 => shared_bn()];
    (
        (s, p, o),
        prop::bool::weighted(0.8),
        gpool(),
        gpool(),
        prop::bool::weighted(0.75),
        prop::collection::vec((pred(), obj_atom()), 1..3),
        0..4u8,
    )
        .prop_map(|((s, p, o), asserted, g, g2, same_graph, props, extra)| {
            let mut out = vec![];
            let t = MT::triple(s.clone(), p.clone(), o.clone());
            if asserted {
                out.push(MQ::new(s, p, o, g.clone()));
            }
            let ga = if same_graph { g.clone() } else { g2 };
            for (q, v) in &props {
                out.push(MQ::new(t.clone(), q.clone(), v.clone(), ga.clone()));
            }
            match extra {
                1 => {
                    // nested annotation
                    let (q, v) = &props[0];
                    let t2 = MT::triple(t.clone(), q.clone(), v.clone());
                    out.push(MQ::new(t2, MT::iri("http://x/ns#q"), MT::iri("http://x/r"), ga));
                }
                2 => out.push(MQ::new(MT::iri("http://x/s"), MT::iri("http://x/p"), t, g)),
                _ => {}
            }
            out
        })
        .boxed()
}

fn frag_random() -> BoxedStrategy<Vec<MQ>> {
    prop::collection::vec(rand_quad(), 1..7).boxed()
}

/// one subject with several shorthand-candidate literals
fn frag_literals(tag: usize) -> BoxedStrategy<Vec<MQ>> {
    (
        prop_oneof![iri(), Just(MT::bn(format!("f{tag}_l")))],
        prop::collection::vec((pick(dense_preds()), literal()), 1..5),
        gpool(),
    )
        .prop_map(|(s, pos, g)| pos.into_iter().map(|(p, o)| MQ::new(s.clone(), MT::Iri(p), o, g.clone())).collect())
        .boxed()
}

fn fragment(tag: usize) -> BoxedStrategy<Vec<MQ>> {
    prop_oneof![
        3 => frag_shape(tag),
        4 => frag_list(tag),
        2 => frag_annot(tag),
        3 => frag_random(),
        2 => frag_literals(tag),
    ]
    .boxed()
}

const LABELS: &[&str] = &["a", "b", "c", "d", "e", "f", "g", "h", "b1", "b2", "x.y", "0z", "k-", "_u", "i", "j", "\u{e9}"];

/// resolve "?k" references, then rename all labels with a shuffled pool (label order matters to the
/// pretty-printer, which iterates blank nodes in term order)
fn assemble(frags: Vec<Vec<MQ>>, names: Vec<String>) -> Vec<MQ> {
    let quads: Vec<MQ> = frags.into_iter().flatten().collect();
    let own: Vec<String> = all_bnodes(&quads).into_iter().filter(|l| !l.starts_with('?')).collect();
    let resolve = |l: &str| -> String {
        if let Some(k) = l.strip_prefix('?') {
            let k: usize = k.parse().unwrap_or(0);
            if own.is_empty() {
                format!("s{k}")
            } else {
                own[(k * 7 + 3) % own.len()].clone()
            }
        } else {
            l.to_string()
        }
    };
    let quads: Vec<MQ> = quads.iter().map(|q| q.map_bnodes(&resolve)).collect();
    let labels = all_bnodes(&quads);
    let map: BTreeMap<String, String> = labels
        .iter()
        .enumerate()
        .map(|(i, l)| (l.clone(), names.get(i).cloned().unwrap_or_else(|| format!("m{i}"))))
        .collect();
    quads.iter().map(|q| q.map_bnodes(&|b| map[b].clone())).collect()
}

fn prefixes() -> BoxedStrategy<Option<Vec<(String, String)>>> {
    prop_oneof![
        1 => Just(None),
        1 => Just(Some(vec![])),
        8 => prop::collection::vec((prop_oneof![5 => pick(PFX_PLAIN.to_vec()), 1 => pick(PFX.to_vec())], pick(NS.to_vec())), 1..7).prop_map(|v| {
            let mut seen = BTreeSet::new();
            Some(
                v.into_iter()
                    .filter(|(p, _)| seen.insert(p.to_string()))
                    .map(|(p, n)| (p.to_string(), n.to_string()))
                    .collect(),
            )
        }),
    ]
    .boxed()
}

fn to_default_graph(quads: &[MQ]) -> Vec<MQ> {
    quads.iter().map(|q| MQ::new(q.s.clone(), q.p.clone(), q.o.clone(), None)).collect()
}

// ---------------------------------------------------------------- system under test

#[derive(Clone, Debug, PartialEq)]
enum Bad {
    Config(String),
    SerError(String),
    SerPanic(String),
    Syntax(String),
    ParsePanic(String),
    Duplicate(String),
    NotIso(String),
    /// the bytes written depend on how the writer accepts them
    Writer(String),
}
impl Bad {
    fn kind(&self) -> &'static str {
        match self {
            Bad::Config(_) => "config-rejected",
            Bad::SerError(_) => "serializer-error",
            Bad::SerPanic(_) => "serializer-panic",
            Bad::Syntax(_) => "invalid-syntax",
            Bad::ParsePanic(_) => "parser-panic",
            Bad::Duplicate(_) => "statement-twice",
            Bad::NotIso(_) => "not-isomorphic",
            Bad::Writer(_) => "output-depends-on-writer",
        }
    }
    fn detail(&self) -> &str {
        match self {
            Bad::Config(s) | Bad::SerError(s) | Bad::SerPanic(s) | Bad::Syntax(s) | Bad::ParsePanic(s) | Bad::Duplicate(s) | Bad::NotIso(s) | Bad::Writer(s) => s,
        }
    }
}

fn config(case: &Case) -> Result<TurtleConfig, String> {
    let mut c = TurtleConfig::new().with_pretty(case.pretty);
    if let Some(pm) = &case.prefixes {
        let mut v: Vec<PrefixMapPair> = vec![];
        for (p, n) in pm {
            let p = Prefix::new(Box::<str>::from(p.as_str())).map_err(|e| format!("prefix: {e}"))?;
            let n = Iri::new(Box::<str>::from(n.as_str())).map_err(|e| format!("namespace: {e}"))?;
            v.push((p, n));
        }
        c = c.with_own_prefix_map(v);
    }
    let ind = case.indent.clone();
    catch(move || c.with_indentation(ind)).map_err(|e| format!("indentation: {e}"))
}

/// Generated inputs have at most a few dozen statements; any output beyond this bound is runaway.
const OUTPUT_BOUND: usize = 512 * 1024;
struct Bounded<'a> {
    buf: &'a mut Vec<u8>,
    limit: usize,
    /// accept only what fits in the current block of 11 bytes (short writes at every offset of
    /// every token, as a pipe / ring buffer / block device may do)
    block: bool,
}
impl std::io::Write for Bounded<'_> {
    fn write(&mut self, b: &[u8]) -> std::io::Result<usize> {
        if self.buf.len() + b.len() > self.limit {
            return Err(std::io::Error::other("runaway output: more than 512 KiB written for a small input"));
        }
        let n = if self.block { b.len().min(11 - self.buf.len() % 11) } else { b.len() };
        self.buf.extend_from_slice(&b[..n]);
        Ok(n)
    }
    fn flush(&mut self) -> std::io::Result<()> {
        Ok(())
    }
}

fn serialize(case: &Case, quads: &[MQ]) -> Result<String, Bad> {
    let plain = serialize_to(case, quads, false)?;
    // the document must not depend on the writer
    match serialize_to(case, quads, true) {
        Ok(b) if b == plain => Ok(plain),
        Ok(b) => {
            let at = b.bytes().zip(plain.bytes()).position(|(x, y)| x != y).unwrap_or(b.len().min(plain.len()));
            Err(Bad::Writer(format!("a writer doing short writes received {} bytes, a Vec {}; first difference at byte {at}", b.len(), plain.len())))
        }
        Err(e) => Err(Bad::Writer(format!("serialising to a writer doing short writes fails although a Vec works: {}", e.detail()))),
    }
}
fn serialize_to(case: &Case, quads: &[MQ], block: bool) -> Result<String, Bad> {
    let cfg = config(case).map_err(Bad::Config)?;
    // The output is written through a bounded writer: a serializer that loops (e.g. a blank
    // node wrongly treated as its own sub-tree) must end in an I/O error, not exhaust memory.
    let mut buf: Vec<u8> = vec![];
    let r: Result<Result<(), String>, String> = if case.turtle {
        let g: Vec<[SimpleTerm<'static>; 3]> = quads.iter().map(MQ::to_triple).collect();
        let w = Bounded { buf: &mut buf, limit: OUTPUT_BOUND, block };
        catch(|| {
            let mut s = TurtleSerializer::new_with_config(w, cfg);
            s.serialize_graph(&g).map_err(|e| e.to_string())?;
            Ok(())
        })
    } else {
        let d: Vec<Spog<SimpleTerm<'static>>> = quads.iter().map(MQ::to_spog).collect();
        let w = Bounded { buf: &mut buf, limit: OUTPUT_BOUND, block };
        catch(|| {
            let mut s = TrigSerializer::new_with_config(w, cfg);
            s.serialize_dataset(&d).map_err(|e| e.to_string())?;
            Ok(())
        })
    };
    let r = r.map(|x| x.map(|()| buf));
    match r {
        Err(p) => Err(Bad::SerPanic(p)),
        Ok(Err(e)) => Err(Bad::SerError(e)),
        Ok(Ok(bytes)) => String::from_utf8(bytes).map_err(|e| Bad::SerError(format!("output is not UTF-8: {e}"))),
    }
}

fn parse(turtle_syntax: bool, txt: &str) -> Result<Vec<MQ>, Bad> {
    let mut out = vec![];
    let r = if turtle_syntax {
        catch(|| turtle::parse_str(txt).for_each_triple(|t| out.push(MQ::from_triple(t))).map_err(|e| e.to_string()))
    } else {
        catch(|| trig::parse_str(txt).for_each_quad(|q| out.push(MQ::from_quad(q))).map_err(|e| e.to_string()))
    };
    match r {
        Err(p) => Err(Bad::ParsePanic(p)),
        Ok(Err(e)) => Err(Bad::Syntax(e)),
        Ok(Ok(())) => Ok(out),
    }
}

/// the effective input of a case: projected to the default graph for Turtle, duplicates removed
fn effective(case: &Case) -> Vec<MQ> {
    let q = if case.turtle { to_default_graph(&case.quads) } else { case.quads.clone() };
    dedup(q)
}

struct Eval {
    verdict: Result<(), Bad>,
    output: Option<String>,
    undecided: bool,
}
fn evaluate(case: &Case) -> Eval {
    let input = effective(case);
    let txt = match serialize(case, &input) {
        Ok(t) => t,
        Err(b) => return Eval { verdict: Err(b), output: None, undecided: false },
    };
    let parsed = match parse(case.turtle, &txt) {
        Ok(p) => p,
        Err(b) => return Eval { verdict: Err(b), output: Some(txt), undecided: false },
    };
    let distinct = dedup(parsed.clone());
    if distinct.len() != parsed.len() {
        let mut seen = BTreeSet::new();
        let dup: Vec<String> = parsed.iter().filter(|q| !seen.insert((*q).clone())).map(MQ::show).collect();
        return Eval {
            verdict: Err(Bad::Duplicate(format!("statements present more than once in the parse: {dup:?}"))),
            output: Some(txt),
            undecided: false,
        };
    }
    match iso::iso_exact_budget(&input, &parsed, Some(400_000)) {
        Some(true) => Eval { verdict: Ok(()), output: Some(txt), undecided: false },
        Some(false) => Eval {
            verdict: Err(Bad::NotIso(iso::diff_summary(&input, &parsed))),
            output: Some(txt),
            undecided: false,
        },
        None => Eval { verdict: Ok(()), output: Some(txt), undecided: true },
    }
}

// ---------------------------------------------------------------- trigger analysis (signatures)

fn map_term(t: &MT, f: &dyn Fn(&MT) -> Option<MT>) -> MT {
    if let Some(r) = f(t) {
        return r;
    }
    match t {
        MT::Triple(tr) => MT::triple(map_term(&tr[0], f), map_term(&tr[1], f), map_term(&tr[2], f)),
        MT::Lit(l, d) => match f(&MT::Iri(d.clone())) {
            // datatypes are IRIs too
            Some(MT::Iri(d2)) => MT::Lit(l.clone(), d2),
            _ => t.clone(),
        },
        x => x.clone(),
    }
}
fn map_case(case: &Case, f: &dyn Fn(&MT) -> Option<MT>) -> Case {
    let mut c = case.clone();
    c.quads = case
        .quads
        .iter()
        .map(|q| MQ::new(map_term(&q.s, f), map_term(&q.p, f), map_term(&q.o, f), q.g.as_ref().map(|g| map_term(g, f))))
        .collect();
    c
}
fn passes(case: &Case) -> bool {
    evaluate(case).verdict.is_ok()
}

fn bnode_arcs(quads: &[MQ]) -> Vec<(String, String)> {
    quads
        .iter()
        .filter_map(|q| match (&q.s, &q.o) {
            (MT::Bnode(a), MT::Bnode(b)) => Some((a.clone(), b.clone())),
            _ => None,
        })
        .collect()
}
/// nodes lying on a directed cycle of blank-node arcs
fn cycle_nodes(arcs: &[(String, String)]) -> BTreeSet<String> {
    let nodes: BTreeSet<String> = arcs.iter().flat_map(|(a, b)| [a.clone(), b.clone()]).collect();
    let reach = |from: &str| -> BTreeSet<String> {
        let mut seen = BTreeSet::new();
        let mut todo = vec![from.to_string()];
        while let Some(x) = todo.pop() {
            for (a, b) in arcs {
                if *a == x && seen.insert(b.clone()) {
                    todo.push(b.clone());
                }
            }
        }
        seen
    };
    nodes.into_iter().filter(|n| reach(n).contains(n)).collect()
}
fn bnode_feature(quads: &[MQ]) -> &'static str {
    let arcs = bnode_arcs(quads);
    let cyc = cycle_nodes(&arcs);
    if cyc.is_empty() {
        return "no-cycle";
    }
    if arcs.iter().any(|(a, b)| cyc.contains(a) && !cyc.contains(b)) {
        "cycle-with-out-tail"
    } else {
        "cycle"
    }
}
fn list_feature(quads: &[MQ]) -> &'static str {
    let count = |p: &MT| -> BTreeMap<(Option<MT>, MT), usize> {
        let mut m = BTreeMap::new();
        for q in quads {
            if q.p == *p {
                *m.entry((q.g.clone(), q.s.clone())).or_default() += 1;
            }
        }
        m
    };
    if count(&rdf_rest()).values().any(|&n| n > 1) {
        "node-with-two-rest"
    } else if count(&rdf_first()).values().any(|&n| n > 1) {
        "node-with-two-first"
    } else {
        "other"
    }
}
fn nil_feature(quads: &[MQ]) -> &'static str {
    let nil = rdf_nil();
    let in_quoted = |t: &MT| {
        let mut v = vec![];
        t.constituents(&mut v);
        t.is_triple() && v.iter().any(|x| **x == nil)
    };
    if quads.iter().any(|q| q.p == nil) {
        "as-predicate"
    } else if quads.iter().any(|q| q.g.as_ref() == Some(&nil)) {
        "as-graph-name"
    } else if quads.iter().any(|q| q.terms().iter().any(|t| in_quoted(t))) {
        "in-quoted-triple"
    } else if quads.iter().any(|q| q.terms().iter().any(|t| t.datatype() == Some(nil_str()))) {
        "as-datatype"
    } else {
        "as-subject-or-object"
    }
}
fn nil_str() -> &'static str {
    "http://www.w3.org/1999/02/22-rdf-syntax-ns#nil"
}
const KEYWORDS: &[&str] = &["a", "true", "false", "prefix", "base", "graph"];

/// Attribute a failing case to a trigger in the input by neutralising one feature at a time:
/// the first neutralisation under which the case passes names the trigger.
fn trigger(case: &Case) -> String {
    // configuration
    if case.indent != "  " {
        let mut c = case.clone();
        c.indent = "  ".into();
        if passes(&c) {
            let cls: String = case
                .indent
                .chars()
                .map(|ch| match ch {
                    ' ' => "sp".to_string(),
                    '\t' => "tab".to_string(),
                    '\n' => "lf".to_string(),
                    '\r' => "cr".to_string(),
                    other => format!("u{:04x}", other as u32),
                })
                .collect::<Vec<_>>()
                .join("-");
            return format!("indentation/{}", if cls.is_empty() { "empty".into() } else { cls });
        }
    }
    if case.prefixes.as_ref().map(|p| !p.is_empty()).unwrap_or(true) {
        let mut c = case.clone();
        c.prefixes = Some(vec![]);
        if passes(&c) {
            // one prefix alone?
            if let Some(pm) = &case.prefixes {
                for pair in pm {
                    let mut c1 = case.clone();
                    c1.prefixes = Some(vec![pair.clone()]);
                    if !passes(&c1) {
                        let kw = KEYWORDS.contains(&pair.0.to_ascii_lowercase().as_str());
                        return format!("prefix-map/{}", if kw { "keyword-like-prefix" } else { "single-prefix" });
                    }
                }
                return "prefix-map/combination".into();
            }
            return "prefix-map/default".into();
        }
    }
    // literals written bare
    for dt in ["integer", "decimal", "double", "boolean"] {
        let target = xsd(dt);
        let c = map_case(case, &|t: &MT| match t {
            MT::Lit(l, d) if *d == target => Some(MT::Lit(l.clone(), format!("http://x/dt-{dt}"))),
            _ => None,
        });
        if passes(&c) {
            return format!("bare-literal/{dt}");
        }
    }
    // literals whose lexical form looks like a shorthand of another datatype
    {
        let c = map_case(case, &|t: &MT| match t {
            MT::Lit(l, d) if ["integer", "decimal", "double", "boolean"].iter().any(|k| shorthand_ok(k, l)) => {
                Some(MT::Lit(format!("x{l}"), d.clone()))
            }
            _ => None,
        });
        if passes(&c) {
            return "bare-literal/lexical-of-other-datatype".into();
        }
    }
    // language-tagged literals
    {
        let c = map_case(case, &|t: &MT| match t {
            MT::Lang(l, tag) => Some(MT::string(format!("{l}@{tag}"))),
            _ => None,
        });
        if passes(&c) {
            return "language-tagged-literal".into();
        }
    }
    // rdf:type written 'a'
    {
        let ty = MT::Iri(rdf("type"));
        let c = map_case(case, &|t: &MT| if *t == ty { Some(MT::iri("http://x/type")) } else { None });
        if passes(&c) {
            return "rdf-type".into();
        }
    }
    // collections
    {
        let (f, r) = (rdf_first(), rdf_rest());
        let c = map_case(case, &|t: &MT| {
            if *t == f {
                Some(MT::iri("http://x/first"))
            } else if *t == r {
                Some(MT::iri("http://x/rest"))
            } else {
                None
            }
        });
        if passes(&c) {
            return format!("list/{}", list_feature(&effective(case)));
        }
    }
    // rdf:nil written "()"
    {
        let nil = rdf_nil();
        let c = map_case(case, &|t: &MT| if *t == nil { Some(MT::iri("http://x/nil")) } else { None });
        if passes(&c) {
            return format!("rdf-nil/{}", nil_feature(&effective(case)));
        }
    }
    // quoted triples
    {
        let c = map_case(case, &|t: &MT| match t {
            MT::Triple(_) => {
                let mut h = 0u64;
                for b in t.show().bytes() {
                    h = h.wrapping_mul(1099511628211).wrapping_add(b as u64);
                }
                Some(MT::iri(format!("http://x/qt/{h:x}")))
            }
            _ => None,
        });
        if passes(&c) {
            let eff = effective(case);
            let annotated = eff.iter().any(|q| match &q.s {
                MT::Triple(tr) => eff.iter().any(|a| a.g == q.g && a.s == tr[0] && a.p == tr[1] && a.o == tr[2]),
                _ => false,
            });
            return format!("quoted-triple/{}", if annotated { "asserted-and-quoted" } else { "plain" });
        }
    }
    // blank nodes
    {
        let labels = all_bnodes(&case.quads);
        let c = map_case(case, &|t: &MT| match t {
            MT::Bnode(b) => Some(MT::iri(format!("http://x/bn/{}", labels.iter().position(|l| l == b).unwrap_or(0)))),
            _ => None,
        });
        if passes(&c) {
            return format!("bnode/{}", bnode_feature(&effective(case)));
        }
    }
    // graph names
    if !case.turtle {
        let mut c = case.clone();
        c.quads = to_default_graph(&case.quads);
        if passes(&c) {
            let blank = case.quads.iter().any(|q| matches!(q.g, Some(MT::Bnode(_))));
            return format!("named-graph/{}", if blank { "blank" } else { "iri" });
        }
    }
    "unattributed".into()
}

// ---------------------------------------------------------------- abbreviation scanner (non-trivial rule)

#[derive(Default, Debug)]
struct Abbrev {
    collection: u32,
    nil_shorthand: u32,
    property_list: u32,
    anon: u32,
    annotation: u32,
    graph_kw: u32,
    graph_block: u32,
    pname: u32,
    bare_number: u32,
    bare_boolean: u32,
    a_kw: u32,
    semicolon: u32,
    comma: u32,
    quoted: u32,
    label: u32,
    unknown: u32,
}
impl Abbrev {
    /// abbreviations named in the property statement
    fn any_named(&self) -> bool {
        self.collection + self.nil_shorthand + self.property_list + self.anon + self.annotation + self.graph_kw + self.pname
            + self.bare_number + self.bare_boolean + self.a_kw
            > 0
    }
}
fn scan(txt: &str) -> Abbrev {
    let cs: Vec<char> = txt.chars().collect();
    let mut a = Abbrev::default();
    let mut i = 0;
    let n = cs.len();
    let mut skip_decl = 0u8; // after PREFIX: skip the "p:" word
    while i < n {
        let c = cs[i];
        match c {
            '"' => {
                let long = i + 2 < n && cs[i + 1] == '"' && cs[i + 2] == '"';
                i += if long { 3 } else { 1 };
                while i < n {
                    if cs[i] == '\\' {
                        i += 2;
                        continue;
                    }
                    if cs[i] == '"' {
                        if !long {
                            i += 1;
                            break;
                        }
                        if i + 2 < n && cs[i + 1] == '"' && cs[i + 2] == '"' {
                            i += 3;
                            break;
                        }
                    }
                    i += 1;
                }
            }
            '<' => {
                if i + 1 < n && cs[i + 1] == '<' {
                    a.quoted += 1;
                    i += 2;
                } else {
                    while i < n && cs[i] != '>' {
                        i += 1;
                    }
                    i += 1;
                }
            }
            '[' => {
                let mut j = i + 1;
                while j < n && cs[j].is_whitespace() {
                    j += 1;
                }
                if j < n && cs[j] == ']' {
                    a.anon += 1;
                    i = j + 1;
                } else {
                    a.property_list += 1;
                    i += 1;
                }
            }
            '(' => {
                let mut j = i + 1;
                while j < n && cs[j].is_whitespace() {
                    j += 1;
                }
                if j < n && cs[j] == ')' {
                    a.nil_shorthand += 1;
                    i = j + 1;
                } else {
                    a.collection += 1;
                    i += 1;
                }
            }
            '{' => {
                if i + 1 < n && cs[i + 1] == '|' {
                    a.annotation += 1;
                    i += 2;
                } else {
                    a.graph_block += 1;
                    i += 1;
                }
            }
            ';' => {
                a.semicolon += 1;
                i += 1;
            }
            ',' => {
                a.comma += 1;
                i += 1;
            }
            '@' => {
                i += 1;
                while i < n && (cs[i].is_ascii_alphanumeric() || cs[i] == '-') {
                    i += 1;
                }
            }
            '>' | ']' | ')' | '}' | '|' | '^' | '.' => i += 1,
            c if c.is_whitespace() => i += 1,
            _ => {
                let st = i;
                while i < n && !cs[i].is_whitespace() && !matches!(cs[i], ';' | ',' | '(' | ')' | '[' | ']' | '{' | '}' | '<' | '>' | '"' | '|' | '^') {
                    i += 1;
                }
                let mut w: String = cs[st..i].iter().collect();
                while w.ends_with('.') {
                    w.pop();
                }
                if skip_decl > 0 {
                    skip_decl -= 1;
                    continue;
                }
                let first = w.chars().next().unwrap_or(' ');
                let second = w.chars().nth(1).unwrap_or(' ');
                if w == "a" {
                    a.a_kw += 1;
                } else if w.eq_ignore_ascii_case("PREFIX") && st > 0 && (cs[st - 1] == '\n') || (st == 0 && w.eq_ignore_ascii_case("PREFIX")) {
                    skip_decl = 1;
                } else if w == "GRAPH" {
                    a.graph_kw += 1;
                } else if w.starts_with("_:") {
                    a.label += 1;
                } else if w == "true" || w == "false" {
                    a.bare_boolean += 1;
                } else if first.is_ascii_digit() || (matches!(first, '+' | '-' | '.') && (second.is_ascii_digit() || second == '.')) {
                    a.bare_number += 1;
                } else if w.contains(':') {
                    a.pname += 1;
                } else if w.is_empty() {
                } else {
                    a.unknown += 1;
                }
            }
        }
    }
    a
}

// ---------------------------------------------------------------- input classification

fn classify(case: &Case, input: &[MQ], ctx: &mut Ctx) {
    ctx.class(if case.pretty { "mode:pretty" } else { "mode:stream" });
    ctx.class(if case.turtle { "syntax:turtle" } else { "syntax:trig" });
    match &case.prefixes {
        None => ctx.class("prefixes:default"),
        Some(p) if p.is_empty() => ctx.class("prefixes:none"),
        Some(p) => {
            ctx.class("prefixes:custom");
            if p.iter().any(|(x, _)| x.is_empty()) {
                ctx.class("prefixes:has-empty-prefix");
            }
            if p.iter().any(|(_, n)| p.iter().any(|(_, m)| m != n && m.starts_with(n.as_str()))) {
                ctx.class("prefixes:overlapping-namespaces");
            }
            if p.iter().any(|(x, _)| KEYWORDS.contains(&x.to_ascii_lowercase().as_str())) {
                ctx.class("prefixes:keyword-like");
            }
        }
    }
    ctx.class(format!("indent:{:?}", case.indent));
    let n = input.len();
    ctx.class(format!("size:{}", match n { 0 => "0", 1..=5 => "1-5", 6..=15 => "6-15", 16..=30 => "16-30", _ => "31+" }));
    let nb = all_bnodes(input).len();
    ctx.class(format!("bnodes:{}", match nb { 0 => "0", 1..=3 => "1-3", 4..=8 => "4-8", _ => "9+" }));
    match bnode_feature(input) {
        "no-cycle" => {}
        f => ctx.class(format!("bnode:{f}")),
    }
    // blank nodes spanning graphs / as graph names
    let mut graphs_of: BTreeMap<String, BTreeSet<Option<MT>>> = BTreeMap::new();
    for q in input {
        for b in q.s.atoms_vec().into_iter().chain(q.o.atoms_vec()) {
            if let MT::Bnode(l) = b {
                graphs_of.entry(l.clone()).or_default().insert(q.g.clone());
            }
        }
    }
    if graphs_of.values().any(|s| s.len() > 1) {
        ctx.class("bnode:spans-graphs");
    }
    if input.iter().any(|q| matches!(q.g, Some(MT::Bnode(_)))) {
        ctx.class("graph-name:blank");
    }
    if input.iter().any(|q| matches!(q.g, Some(MT::Iri(_)))) {
        ctx.class("graph-name:iri");
    }
    // lists
    let has_first = input.iter().any(|q| q.p == rdf_first());
    let has_rest = input.iter().any(|q| q.p == rdf_rest());
    if has_first || has_rest {
        ctx.class("list:first/rest-present");
        match list_feature(input) {
            "other" => {}
            f => ctx.class(format!("list:{f}")),
        }
        let nodes: BTreeSet<&MT> = input.iter().filter(|q| q.p == rdf_rest() && q.s.is_bnode()).map(|q| &q.s).collect();
        if nodes.iter().any(|b| !input.iter().any(|q| q.o == **b)) {
            ctx.class("list:unreferenced-head");
        }
        if input.iter().any(|q| q.p == rdf_rest() && q.o.is_bnode() && cycle_nodes(&bnode_arcs(input)).contains(match &q.o { MT::Bnode(l) => l, _ => unreachable!() })) {
            ctx.class("list:cyclic");
        }
    }
    // quoted
    let mut asserted_and_quoted = false;
    let mut any_quoted = false;
    for q in input {
        for t in q.terms() {
            if t.is_triple() {
                any_quoted = true;
            }
        }
        if let MT::Triple(tr) = &q.s {
            if input.iter().any(|a| a.g == q.g && a.s == tr[0] && a.p == tr[1] && a.o == tr[2]) {
                asserted_and_quoted = true;
            }
        }
    }
    if any_quoted {
        ctx.class("quoted:present");
    }
    if asserted_and_quoted {
        ctx.class("quoted:asserted-and-quoted");
    }
    // literals
    for q in input {
        let mut v = vec![];
        q.s.atoms(&mut v);
        q.o.atoms(&mut v);
        for t in v {
            if let MT::Lit(l, d) = t {
                for dt in ["integer", "decimal", "double", "boolean"] {
                    if *d == xsd(dt) {
                        let ok = shorthand_ok(dt, l);
                        ctx.class(format!("literal:{dt}:{}", if ok { "valid-shorthand" } else { "invalid-shorthand" }));
                    }
                }
            }
        }
    }
}
/// Turtle grammar: INTEGER, DECIMAL, DOUBLE, BooleanLiteral (independent of the serializer's regexes)
fn shorthand_ok(dt: &str, l: &str) -> bool {
    let b = l.as_bytes();
    let mut i = 0;
    let digits = |i: &mut usize| {
        let s = *i;
        while *i < b.len() && b[*i].is_ascii_digit() {
            *i += 1;
        }
        *i - s
    };
    match dt {
        "boolean" => l == "true" || l == "false",
        "integer" => {
            if i < b.len() && (b[i] == b'+' || b[i] == b'-') {
                i += 1;
            }
            digits(&mut i) > 0 && i == b.len()
        }
        "decimal" => {
            if i < b.len() && (b[i] == b'+' || b[i] == b'-') {
                i += 1;
            }
            digits(&mut i);
            if i < b.len() && b[i] == b'.' {
                i += 1;
            } else {
                return false;
            }
            digits(&mut i) > 0 && i == b.len()
        }
        "double" => {
            if i < b.len() && (b[i] == b'+' || b[i] == b'-') {
                i += 1;
            }
            let int = digits(&mut i);
            let mut frac = 0;
            let mut dot = false;
            if i < b.len() && b[i] == b'.' {
                dot = true;
                i += 1;
                frac = digits(&mut i);
            }
            // [0-9]+ '.' [0-9]* EXP | '.' [0-9]+ EXP | [0-9]+ EXP
            if int == 0 && !(dot && frac > 0) {
                return false;
            }
            if i < b.len() && (b[i] == b'e' || b[i] == b'E') {
                i += 1;
            } else {
                return false;
            }
            if i < b.len() && (b[i] == b'+' || b[i] == b'-') {
                i += 1;
            }
            digits(&mut i) > 0 && i == b.len()
        }
        _ => false,
    }
}

trait AtomsVec {
    fn atoms_vec(&self) -> Vec<&MT>;
}
impl AtomsVec for MT {
    fn atoms_vec(&self) -> Vec<&MT> {
        let mut v = vec![];
        self.atoms(&mut v);
        v
    }
}

/// is the case inside the domain of the property?
fn domain(case: &Case) -> Result<(), String> {
    fn term(t: &MT, pos: char) -> Result<(), String> {
        match t {
            MT::Iri(i) => {
                Iri::new(i.as_str()).map(|_| ()).map_err(|_| if crate::c09::rfc::is_iri(i) { format!("REJECTED-iri {i:?}") } else { "iri".to_string() })?;
                // sophia_iri is itself under test (C09) and accepts some invalid IRIs: also ask an independent validator
                oxiri::Iri::parse(i.as_str()).map(|_| ()).map_err(|_| "iri-disputed".to_string())
            }
            MT::Bnode(b) => {
                if pos == 'p' {
                    return Err("generalized".into());
                }
                sophia_api::term::BnodeId::new(b.as_str()).map(|_| ()).map_err(|_| "label".to_string())
            }
            MT::Lit(_, d) => {
                if pos != 'o' {
                    return Err("generalized".into());
                }
                if d == RDF_LANGSTRING {
                    return Err("langString-without-tag".into());
                }
                Iri::new(d.as_str()).map(|_| ()).map_err(|_| "datatype".to_string())?;
                oxiri::Iri::parse(d.as_str()).map(|_| ()).map_err(|_| "iri-disputed".to_string())
            }
            MT::Lang(_, tag) => {
                if pos != 'o' {
                    return Err("generalized".into());
                }
                sophia_api::term::LanguageTag::new(tag.as_str()).map(|_| ()).map_err(|_| if crate::gen::bcp47_well_formed(tag) { format!("REJECTED-tag {tag:?}") } else { "tag".to_string() })
            }
            MT::Triple(tr) => {
                if pos != 's' && pos != 'o' {
                    return Err("generalized".into());
                }
                term(&tr[0], 's')?;
                term(&tr[1], 'p')?;
                term(&tr[2], 'o')
            }
            MT::Var(_) => Err("variable".into()),
        }
    }
    for q in &case.quads {
        term(&q.s, 's')?;
        if !q.p.is_iri() {
            return Err("generalized".into());
        }
        term(&q.p, 'p')?;
        term(&q.o, 'o')?;
        if let Some(g) = &q.g {
            term(g, 'g')?;
        }
    }
    if !case.indent.chars().all(|c| c.is_ascii_whitespace()) {
        return Err("indentation-not-ascii-whitespace".into());
    }
    if let Some(pm) = &case.prefixes {
        let mut seen = BTreeSet::new();
        for (p, n) in pm {
            if !seen.insert(p) {
                return Err("duplicate-prefix".into());
            }
            if Prefix::new(p.as_str()).is_err() {
                return Err("invalid-prefix".into());
            }
            if Iri::new(n.as_str()).is_err() {
                return Err("invalid-namespace".into());
            }
        }
    }
    Ok(())
}

impl Check for C04 {
    type Case = Case;
    const ID: &'static str = "C04";
    fn rule() -> String {
        "datasets assembled from 1..4 fragments (random quads over a dense IRI/literal pool, blank-node shapes incl. cycles with in- and out-tails, rdf:first/rest structures with 12 kinds of malformation and 10 kinds of head reference, asserted-and-quoted triples, shorthand-candidate literals) with shuffled blank labels and statement order, x {pretty, streaming} x prefix map (default / empty / 1..6 pairs over overlapping namespaces, empty and keyword-like prefixes) x 9 indentation strings x {Turtle, TriG}; oracle = strict sophia parser accepts the output, no statement twice, iso_exact(input, parse). Non-trivial = pretty mode: a tokenizer over the output finds at least one abbreviation named in the statement (prefixed name, 'a', bare number/boolean, [ ] property list or anonymous node, ( ) collection, {| |} annotation, GRAPH block); streaming mode: the output factorises at least one subject or predicate (';' or ','), or contains a graph block or a quoted triple. Distinct by hash of the whole case.".into()
    }
    fn assumptions() -> Vec<String> {
        vec![
            "input duplicates are removed before serialising (the statement speaks of each statement being present exactly once)".into(),
            "Turtle path: the dataset is projected to the default graph".into(),
            "syntactic validity is judged by sophia's strict turtle/trig parsers (Rio), not by a second independent grammar".into(),
            "indentation strings range over ASCII whitespace, the documented precondition of TurtleConfig::with_indentation (space, TAB, LF, CR, FF); a configuration refused by the API (panic) is counted as excluded/config-rejected".into(),
            "isomorphism search is bounded to 400000 nodes; undecided cases are counted (class iso:undecided), never failed".into(),
        ]
    }
    fn cases(tier: Tier) -> u32 {
        tier.pick(250_000, 8_000_000)
    }
    fn strategy(_tier: Tier) -> BoxedStrategy<Case> {
        let names = Just(LABELS.iter().map(|s| s.to_string()).collect::<Vec<_>>()).prop_shuffle();
        let frags = (fragment(0), prop::option::weighted(0.6, fragment(1)), prop::option::weighted(0.35, fragment(2)), prop::option::weighted(0.15, fragment(3)))
            .prop_map(|(a, b, c, d)| {
                let mut v = vec![a];
                v.extend(b);
                v.extend(c);
                v.extend(d);
                v
            });
        let quads = (frags, names)
            .prop_map(|(f, names)| dedup(assemble(f, names)))
            .prop_shuffle()
            .prop_flat_map(|q| {
                let n = q.len();
                (Just(q), prop::collection::vec(prop::bool::weighted(0.97), n..=n))
            })
            .prop_map(|(q, keep)| q.into_iter().zip(keep).filter(|(_, k)| *k).map(|(q, _)| q).collect::<Vec<MQ>>());
        (quads, prop::bool::weighted(0.75), prefixes(), prop_oneof![40 => pick(INDENTS.to_vec()), 1 => pick(INDENTS_ODD.to_vec())], prop::bool::weighted(0.4))
            .prop_map(|(quads, pretty, prefixes, indent, turtle)| Case {
                quads,
                pretty,
                prefixes,
                indent: indent.to_string(),
                turtle,
            })
            .boxed()
    }
    fn fixed_cases(_tier: Tier, _seed: u64) -> Vec<Case> {
        let mut out = vec![];
        // large outputs (tens of KiB): buffering / batching must not lose or merge statements
        for (n, salt) in [(120usize, 1u64), (400, 2), (900, 3)] {
            for (pretty, turtle) in [(false, true), (false, false), (true, true), (true, false)] {
                if pretty && n > 400 {
                    continue; // the pretty printer is quadratic
                }
                out.push(Case { quads: crate::gen::bulk_quads(n, salt, !turtle), pretty, prefixes: None, indent: "  ".into(), turtle });
            }
        }
        let s = MT::iri("http://x/s");
        let p = MT::iri("http://x/p");
        let mk = |quads: Vec<MQ>, pretty: bool, prefixes: Option<Vec<(String, String)>>, turtle: bool| Case {
            quads,
            pretty,
            prefixes,
            indent: "  ".into(),
            turtle,
        };
        // every shorthand-candidate lexical x datatype
        for l in NUM_LEX {
            for d in num_dts() {
                out.push(mk(vec![MQ::new(s.clone(), p.clone(), MT::Lit(l.to_string(), d.clone()), None)], true, None, true));
            }
        }
        // every namespace x local part, with a prefix map over all namespaces
        let all: Vec<(String, String)> = NS.iter().enumerate().map(|(i, n)| (if i == 0 { String::new() } else { format!("p{i}") }, n.to_string())).collect();
        for n in NS {
            for l in LOCALS {
                let i = MT::iri(format!("{n}{l}"));
                out.push(mk(
                    vec![MQ::new(i.clone(), i.clone(), i.clone(), Some(i.clone())), MQ::new(s.clone(), p.clone(), MT::Lit("x".into(), format!("{n}{l}")), None)],
                    true,
                    Some(all.clone()),
                    false,
                ));
            }
        }
        // every small shape, both directions, every labelling order of up to 4 nodes
        let shapes = [
            Shape::Cycle(1),
            Shape::Cycle(2),
            Shape::Cycle(3),
            Shape::Rho(1, 1),
            Shape::Rho(2, 1),
            Shape::Rho(1, 2),
            Shape::Rho(2, 2),
            Shape::Rho(3, 1),
            Shape::Path(3),
            Shape::Tree(4),
            Shape::Star(3),
            Shape::TwoCycles(2),
            Shape::Clique(3),
        ];
        for sh in shapes {
            let (n, arcs) = sh.arcs();
            if n > 4 {
                continue;
            }
            let mut perms: Vec<Vec<usize>> = vec![];
            permutations(n, &mut vec![], &mut perms);
            for perm in perms {
                for rev in [false, true] {
                    let quads: Vec<MQ> = arcs
                        .iter()
                        .map(|&(a, b)| if rev { (b, a) } else { (a, b) })
                        .map(|(a, b)| MQ::new(MT::bn(LABELS[perm[a]]), p.clone(), MT::bn(LABELS[perm[b]]), None))
                        .collect();
                    out.push(mk(quads, true, None, true));
                }
            }
        }
        out
    }
    fn run(case: &Case, ctx: &mut Ctx) {
        if let Err(why) = domain(case) {
            if let Some(what) = why.strip_prefix("REJECTED-") {
                // valid per the independent recognisers (RFC 3987 / RFC 5646) but refused by the toolkit's validator:
                // the property quantifies over all IRIs and tags, so this is not an exclusion
                let kind = what.split(' ').next().unwrap_or("term");
                ctx.fail(format!("domain/valid-{kind}-rejected"), format!("{what} is valid but rejected by the toolkit's own validator"));
                return;
            }
            ctx.class(format!("excluded/{why}"));
            return;
        }
        let input = effective(case);
        classify(case, &input, ctx);
        let ev = evaluate(case);
        if let Err(Bad::Config(why)) = &ev.verdict {
            // the API refused the configuration (documented panic of with_indentation, checked constructors)
            ctx.class(format!("excluded/config-rejected:{}", why.split(':').next().unwrap_or("")));
            return;
        }
        if ev.undecided {
            ctx.class("iso:undecided");
        }
        if let Some(txt) = &ev.output {
            let ab = scan(txt);
            let mut named = |n: u32, name: &str, ctx: &mut Ctx| {
                if n > 0 {
                    ctx.class(format!("out:{}:{name}", if case.pretty { "pretty" } else { "stream" }));
                }
            };
            named(ab.collection, "collection", ctx);
            named(ab.nil_shorthand, "()", ctx);
            named(ab.property_list, "[..]", ctx);
            named(ab.anon, "[]", ctx);
            named(ab.annotation, "{|..|}", ctx);
            named(ab.graph_kw, "GRAPH", ctx);
            named(ab.graph_block, "graph-block", ctx);
            named(ab.pname, "prefixed-name", ctx);
            named(ab.bare_number, "bare-number", ctx);
            named(ab.bare_boolean, "bare-boolean", ctx);
            named(ab.a_kw, "a", ctx);
            named(ab.semicolon, ";", ctx);
            named(ab.comma, ",", ctx);
            named(ab.quoted, "<<..>>", ctx);
            named(ab.label, "_:label", ctx);
            named(ab.unknown, "UNKNOWN-TOKEN", ctx);
            let nt = if case.pretty {
                ab.any_named()
            } else {
                ab.semicolon + ab.comma + ab.graph_block + ab.quoted > 0
            };
            if nt && ev.verdict.is_ok() {
                ctx.nontrivial();
            }
        }
        if let Err(bad) = &ev.verdict {
            let trig = trigger(case);
            ctx.fail(
                format!("{}/{}", if case.pretty { "pretty" } else { "stream" }, trig),
                format!(
                    "{}: {}\nconfig: pretty={} syntax={} indent={:?} prefixes={:?}\ninput:\n{}\noutput:\n{}",
                    bad.kind(),
                    bad.detail(),
                    case.pretty,
                    if case.turtle { "turtle" } else { "trig" },
                    case.indent,
                    case.prefixes,
                    show_quads(&input),
                    ev.output.as_deref().unwrap_or("(none)")
                ),
            );
        }
    }
    fn show(case: &Case) -> serde_json::Value {
        serde_json::json!({
            "quads": case.quads.iter().map(MQ::show).collect::<Vec<_>>(),
            "pretty": case.pretty, "prefixes": case.prefixes, "indent": case.indent, "turtle": case.turtle,
        })
    }
    fn extra_evidence(_tier: Tier) -> serde_json::Value {
        serde_json::json!({
            "namespaces": NS, "prefix_names": PFX, "indentations": INDENTS, "indentations_rare": INDENTS_ODD,
            "local_parts": LOCALS.len(), "shorthand_candidate_lexicals": NUM_LEX.len(),
        })
    }
}

fn permutations(n: usize, cur: &mut Vec<usize>, out: &mut Vec<Vec<usize>>) {
    if cur.len() == n {
        out.push(cur.clone());
        return;
    }
    for i in 0..n {
        if !cur.contains(&i) {
            cur.push(i);
            permutations(n, cur, out);
            cur.pop();
        }
    }
}

pub fn main(opts: &Opts) -> i32 {
    drive::<C04>(opts)
}
pub fn worker(_args: &[String]) -> i32 {
    2
}
