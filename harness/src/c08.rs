//! C08 — parsers are total: any byte string yields an error or well-formed terms, never a panic,
//! stack overflow or abort, in debug (profile `verif`: assertions on) and release builds.
//!
//! Oracle (in-target, see `fuzz/target_oracle.rs`): drive `try_for_each_triple/quad` under
//! catch_unwind, call every accessor of every (nested) yielded term and re-validate the value with
//! the toolkit's own validators. The same generated inputs are re-run in the `release` binary
//! through `--worker C08 gen ...`; deep-nesting documents run in child processes on a 2 MiB stack.
use crate::engine::*;
use proptest::prelude::*;
use proptest::strategy::ValueTree;
use proptest::test_runner::{Config, RngAlgorithm, TestRng, TestRunner};
use serde::{Deserialize, Serialize};
use serde_json::{json, Value};
use std::io::{Read, Write};
use std::process::{Command, Stdio};
use std::time::{Duration, Instant};

#[path = "../../fuzz/target_oracle.rs"]
pub mod target;
use target::SYNTAXES;

#[derive(Clone, Debug, Serialize, Deserialize)]
pub struct Case {
    pub syntax: String,
    #[serde(default)]
    pub base: Option<String>,
    /// the document when it is valid UTF-8 ...
    #[serde(default)]
    pub text: Option<String>,
    /// ... otherwise its bytes in hexadecimal
    #[serde(default)]
    pub hex: Option<String>,
}
impl Case {
    pub fn new(syntax: &str, base: Option<String>, data: Vec<u8>) -> Case {
        match String::from_utf8(data) {
            Ok(t) => Case { syntax: syntax.into(), base, text: Some(t), hex: None },
            Err(e) => Case {
                syntax: syntax.into(),
                base,
                text: None,
                hex: Some(e.into_bytes().iter().map(|b| format!("{b:02x}")).collect()),
            },
        }
    }
    pub fn data(&self) -> Vec<u8> {
        if let Some(t) = &self.text {
            t.clone().into_bytes()
        } else if let Some(h) = &self.hex {
            (0..h.len() / 2).filter_map(|i| u8::from_str_radix(&h[2 * i..2 * i + 2], 16).ok()).collect()
        } else {
            vec![]
        }
    }
}

pub struct C08;

fn engine_catcher(f: &mut dyn FnMut()) -> Result<(), String> {
    catch(|| f())
}

// ------------------------------------------------------------------------------------------
// document generators (driven by a tape of random choices, so that cases shrink with the tape)

struct G<'a> {
    t: &'a [u32],
    i: usize,
    budget: i32,
    /// near-miss mode: every choice may (1 in 4) leave the valid part of its pool
    wild: bool,
    /// N-Triples family: only absolute IRIs are valid
    abs_only: bool,
}
impl<'a> G<'a> {
    fn n(&mut self, k: usize) -> usize {
        let v = self.t.get(self.i).copied().unwrap_or(0);
        self.i += 1;
        (v as usize) % k.max(1)
    }
    fn chance(&mut self, num: usize, den: usize) -> bool {
        self.n(den) < num
    }
    fn pick<'b>(&mut self, xs: &[&'b str]) -> &'b str {
        xs[self.n(xs.len())]
    }
    /// pick among the first `valid` items (the valid ones), or among all in near-miss mode
    fn pk<'b>(&mut self, valid: usize, xs: &[&'b str]) -> &'b str {
        if self.wild && self.n(4) == 0 {
            xs[self.n(xs.len())]
        } else {
            xs[self.n(valid.min(xs.len()).max(1))]
        }
    }
    fn iri(&mut self) -> &'static str {
        let v = if self.abs_only { 15 } else { 23 };
        self.pk(v, IRIS)
    }
    /// A name (blank node label / variable name) built from the code points at both ends of every
    /// range of the PN_CHARS_BASE / PN_CHARS_U / PN_CHARS productions; in near-miss mode a code point
    /// just outside a range may be used. Parser and validator must agree on every one of them.
    fn name(&mut self) -> String {
        const FIRST: &[char] = &[
            'A', 'Z', 'a', 'z', '_', '0', '9', '\u{C0}', '\u{D6}', '\u{D8}', '\u{F6}', '\u{F8}', '\u{2FF}', '\u{370}', '\u{37D}', '\u{37F}', '\u{1FFF}', '\u{200C}', '\u{200D}', '\u{2070}',
            '\u{218F}', '\u{2C00}', '\u{2FEF}', '\u{3001}', '\u{D7FF}', '\u{F900}', '\u{FDCF}', '\u{FDF0}', '\u{FFFD}', '\u{10000}', '\u{EFFFF}',
        ];
        const REST_ONLY: &[char] = &['\u{B7}', '\u{300}', '\u{36F}', '\u{203F}', '\u{2040}'];
        const OUTSIDE: &[char] = &[
            '\u{D7}', '\u{F7}', '\u{37E}', '\u{2000}', '\u{200B}', '\u{200E}', '\u{206F}', '\u{2190}', '\u{2BFF}', '\u{2FF0}', '\u{3000}', '\u{E000}', '\u{F8FF}', '\u{FDD0}', '\u{FDEF}', '\u{FFFE}',
            '\u{F0000}', '\u{B6}', '\u{B8}', '\u{2FF}', '\u{203E}', '\u{2041}', '@', '~', '!',
        ];
        let len = 1 + self.n(4);
        let mut out = String::new();
        for k in 0..len {
            let c = if self.wild && self.n(6) == 0 {
                OUTSIDE[self.n(OUTSIDE.len())]
            } else if k > 0 && self.n(3) == 0 {
                REST_ONLY[self.n(REST_ONLY.len())]
            } else {
                FIRST[self.n(FIRST.len())]
            };
            out.push(c);
        }
        out
    }
    fn spend(&mut self) -> bool {
        self.budget -= 1;
        self.budget > 0 && self.i < self.t.len() + 8
    }
}

const IRIS: &[&str] = &[
    "http://example.org/a",
    "http://example.org/ns#b",
    "http://example.org/",
    "urn:x:y",
    "tag:x",
    "a:",
    "http://[::1]/p",
    "http://[1:2::3]:80/",
    "http://[V1.a]/",
    "http://192.168.0.1:8080/x",
    "http://a//b/./../c",
    "http://a/?q#f",
    "http://\u{e9}.org/\u{fc}",
    "http://a/%41%2f",
    "http://u:p@h/",
    // relative
    "",
    "#frag",
    "rel",
    "../rel",
    "./a:b",
    "//auth/p",
    "/abs",
    "?q",
    // invalid or suspicious
    "http://a b/",
    "http://a/%zz",
    "http://a/%4",
    "http://a/\u{e000}",
    "http://a:80x/",
    "a://@@",
    "http://[:1::]/",
    "http://[1::2::3]/",
    "http://a/<",
    "http://a/{b}",
    "http://a/\\u0020x",
    "http://a/\\u00e9",
    "http://a/\\U0001F600",
    "http://a/\\u003E",
    "http://a/\\uD800",
    "x:y:z",
    ":a",
    "1:a",
    "http://a/\u{fffe}",
    "http://a/|",
    "http://a/^",
    "http://a/`",
    "http://a/\"",
];
const BNODES: &[&str] = &[
    // valid (16)
    "b", "b1", "1", "a.b", "a..b", "a-b", "a\u{b7}b", "\u{e9}", "_", "a.1", "0.0", "x\u{203f}", "a...b", "\u{10000}", "riog0", "a.-",
    // invalid
    "a.", "-a", "\u{b7}a", "a:b", "\u{300}a", "", ".", "a b", "a%20",
];
const TAGS: &[&str] = &["en", "en-US", "EN", "x-priv", "de-1996", "a-b-c-d-e-f-g-h", "a", "i-klingon", "en-a-bbb-x-a", /* invalid from here (9 valid) */ "toolongsubtagxx-y", "en-", "-en", "1a", "a1", "en--us", "\u{e9}", "en_US", ""];
const LEX: &[&str] = &[
    "a", "", "hello world", "a\\\"b", "\\n\\t\\\\", "\\u00e9", "\\U0001F600", "\u{e9}\u{1F600}", "'", "1", "true", "\\'", "<tag>&amp;", /* 13 valid */ "\\uD800", "\\x", "\\u0000", "a\\", "\\u12", "\\U0001",
];
const NUMS: &[&str] = &["1", "-1", "+1.0", ".5", "1e3", "1E-3", "-.5e-2", "1.e1", "123456789012345678901234567890", "00", /* 10 valid */ "1.", "1e", "1.0e+", "+", "0x10"];
const PNAMES: &[&str] = &[
    ":a", "ex:b", "ex:a.b", "ex:%41", "ex:\\~a", "ex:a:b", "ex:", ":", "ex:\u{e9}", "ex:1a", "ex:a\\.", "ex:a..b", "rdf:type", "xsd:integer", /* 14 valid */ "ex:a.", "undefined:a", "ex:-a", "ex:%4", "ex:\\u0041", "e.x:a",
    "ex.:a", "ex:a%", "ex:\\", "ex:a\\#b",
];
const VARS: &[&str] = &["?x", "?1", "?\u{e9}", "?x\u{b7}", "?_", /* 5 valid */ "?a.b", "?", "$x", "?a-b", "?\u{b7}", "?a:b"];
const BASES: &[&str] = &["http://example.org/base/doc", "http://[1::]/", "a:", "urn:x:y", "http://a/b/../c?q#f", "file:///x", "http://\u{e9}/", "http://[v1.a]/x", "http://[V1.a]/x", "tag:x"];

fn ws(g: &mut G, out: &mut String) {
    if g.abs_only {
        // N-Triples family: statements are line-based
        out.push_str(g.pk(5, &[" ", " ", " ", "  ", "\t", "", "\n", " # c\n", "\r\n"]));
    } else {
        out.push_str(g.pick(&[" ", " ", " ", "  ", "\t", "", "\n", " # c\n", "\r\n"]));
    }
}

/// an N-Triples-family term (also used by Turtle for the generic parts)
fn nt_term(g: &mut G, out: &mut String, pos: char, generalized: bool, depth: u32) {
    let k = g.n(if generalized { 12 } else { 10 });
    match k {
        0..=3 => {
            out.push('<');
            out.push_str(g.iri());
            out.push('>');
        }
        4 | 5 if pos != 'p' || generalized || (g.wild && g.chance(1, 3)) => {
            out.push_str("_:");
            if g.chance(1, 4) {
                let n = g.name();
                out.push_str(&n);
            } else {
                out.push_str(g.pk(16, BNODES));
            }
        }
        6 | 7 if pos == 'o' || generalized || (g.wild && g.chance(1, 3)) => {
            out.push('"');
            out.push_str(g.pk(13, LEX));
            out.push('"');
            match g.n(4) {
                0 => {
                    out.push('@');
                    out.push_str(g.pk(9, TAGS));
                }
                1 => {
                    out.push_str("^^<");
                    // the datatypes with a special status (implicit, tagged, own syntax) now and then
                    if g.chance(1, 5) {
                        out.push_str(g.pick(&[
                            "http://www.w3.org/1999/02/22-rdf-syntax-ns#langString",
                            "http://www.w3.org/2001/XMLSchema#string",
                            "http://www.w3.org/1999/02/22-rdf-syntax-ns#dirLangString",
                            "http://www.w3.org/1999/02/22-rdf-syntax-ns#XMLLiteral",
                            "http://www.w3.org/1999/02/22-rdf-syntax-ns#JSON",
                            "http://www.w3.org/2001/XMLSchema#integer",
                        ]));
                    } else {
                        out.push_str(g.iri());
                    }
                    out.push('>');
                }
                2 if g.wild => out.push_str(g.pick(&["^^", "@", "^^_:b", "^^\"x\"", "@@en", "^<http://x/>"])),
                _ => {}
            }
        }
        8 if depth < 4 && (matches!(pos, 's' | 'o') || generalized || (g.wild && g.chance(1, 3))) => {
            out.push_str("<<");
            ws(g, out);
            nt_term(g, out, 's', generalized, depth + 1);
            ws(g, out);
            nt_term(g, out, 'p', generalized, depth + 1);
            ws(g, out);
            nt_term(g, out, 'o', generalized, depth + 1);
            ws(g, out);
            out.push_str(">>");
        }
        10 | 11 => {
            if g.chance(1, 3) {
                let n = g.name();
                out.push('?');
                out.push_str(&n);
            } else {
                out.push_str(g.pk(5, VARS))
            }
        }
        _ => {
            out.push('<');
            out.push_str(g.pick(&IRIS[..5]));
            out.push('>');
        }
    }
}

fn gen_nt(g: &mut G, quads: bool, generalized: bool) -> String {
    let mut out = String::new();
    let lines = 1 + g.n(5);
    for _ in 0..lines {
        if g.chance(1, 10) {
            out.push_str(g.pick(&["# comment\n", "\n", "   \n", "\r\n", "#\n"]));
        }
        nt_term(g, &mut out, 's', generalized, 0);
        ws(g, &mut out);
        nt_term(g, &mut out, 'p', generalized, 0);
        ws(g, &mut out);
        nt_term(g, &mut out, 'o', generalized, 0);
        if quads && g.chance(1, 2) {
            ws(g, &mut out);
            nt_term(g, &mut out, 'g', generalized, 0);
        }
        ws(g, &mut out);
        out.push_str(g.pk(5, &[".", ".", ".", ".", " .", "", ";", ". ."]));
        out.push_str(g.pk(5, &["\n", "\n", "\n", "\r\n", " # c\n", "", " "]));
    }
    out
}

fn ttl_term(g: &mut G, out: &mut String, pos: char, generalized: bool, depth: u32) {
    if !g.spend() {
        out.push_str(":a");
        return;
    }
    let k = g.n(16);
    match k {
        0 | 1 => out.push_str(g.pk(14, PNAMES)),
        2 if pos == 'p' => out.push('a'),
        3 if pos == 'o' => out.push_str(g.pk(10, NUMS)),
        4 if pos == 'o' => out.push_str(g.pk(2, &["true", "false", "TRUE", "tru", "falsey"])),
        5 if pos == 'o' => {
            let q = g.pick(&["\"\"\"", "'''", "'", "\""]);
            out.push_str(q);
            out.push_str(g.pk(13, LEX));
            if q.len() == 3 && g.chance(1, 2) {
                out.push_str(g.pk(1, &["\n", "'", "\"", "\"\"", "''", "\\\n"]));
            }
            out.push_str(q);
            match g.n(4) {
                0 => {
                    out.push('@');
                    out.push_str(g.pk(9, TAGS));
                }
                1 => {
                    out.push_str("^^");
                    out.push_str(g.pk(14, PNAMES));
                }
                _ => {}
            }
        }
        6 | 7 if pos != 'p' && depth < 5 => {
            // blank node property list
            out.push('[');
            let n = g.n(3);
            for i in 0..n {
                if i > 0 {
                    out.push_str(g.pk(4, &[";", ";", " ; ", ";;", ","]));
                }
                ws(g, out);
                ttl_term(g, out, 'p', generalized, depth + 1);
                ws(g, out);
                ttl_term(g, out, 'o', generalized, depth + 1);
            }
            ws(g, out);
            out.push(']');
        }
        8 | 9 if pos != 'p' && depth < 5 => {
            out.push('(');
            let n = g.n(4);
            for _ in 0..n {
                ws(g, out);
                ttl_term(g, out, 'o', generalized, depth + 1);
            }
            ws(g, out);
            out.push(')');
        }
        10 if depth < 4 => {
            out.push_str("<<");
            ws(g, out);
            ttl_term(g, out, 's', generalized, depth + 1);
            ws(g, out);
            ttl_term(g, out, 'p', generalized, depth + 1);
            ws(g, out);
            ttl_term(g, out, 'o', generalized, depth + 1);
            ws(g, out);
            out.push_str(">>");
        }
        _ => nt_term(g, out, pos, generalized, depth),
    }
}

fn ttl_statement(g: &mut G, out: &mut String, generalized: bool) {
    ttl_term(g, out, 's', generalized, 0);
    let np = 1 + g.n(3);
    for i in 0..np {
        if i > 0 {
            out.push_str(g.pk(4, &[" ;", ";", " ;\n  ", ";;"]));
        }
        ws(g, out);
        ttl_term(g, out, 'p', generalized, 0);
        let no = 1 + g.n(2);
        for j in 0..no {
            if j > 0 {
                out.push_str(g.pk(2, &[",", " , ", ",,"]));
            }
            ws(g, out);
            ttl_term(g, out, 'o', generalized, 0);
            if g.chance(1, 8) {
                // annotation
                out.push_str(" {| ");
                ttl_term(g, out, 'p', generalized, 1);
                out.push(' ');
                ttl_term(g, out, 'o', generalized, 1);
                out.push_str(g.pk(3, &[" |}", " |}", "|}", " }", " |"]));
            }
        }
    }
    ws(g, out);
    out.push_str(g.pk(4, &[".", ".", ".", ".", "", ";", " . ."]));
    out.push('\n');
}

fn gen_turtle(g: &mut G, trig: bool, generalized: bool) -> String {
    let mut out = String::new();
    g.budget = 60;
    if g.chance(5, 6) {
        out.push_str(g.pk(2, &[
            "@prefix ex: <http://example.org/> .\n@prefix : <http://example.org/d#> .\n",
            "PREFIX ex: <http://example.org/ns/>\nPREFIX : <http://example.org/>\n",
            "PREFIX ex: <http://example.org/>\nPREFIX : <rel/>\n",
            "@prefix ex: <> .\n@prefix : <#> .\n",
            "@prefix ex: <http://a b/> .\n@prefix : <http://a/%zz> .\n",
            "@prefix ex: <http://example.org/>\n",
            "@prefix ex: <http://[1::]/> . @prefix : <a:> .\n",
            "prefix ex: <http://example.org/> prefix : <x:>\n",
        ]));
        out.push_str("@prefix rdf: <http://www.w3.org/1999/02/22-rdf-syntax-ns#> . @prefix xsd: <http://www.w3.org/2001/XMLSchema#> .\n");
    }
    if g.chance(1, 3) {
        out.push_str(g.pk(2, &["@base <http://b/c/d> .\n", "@base <x:y> .\n", "BASE <rel/>\n", "@base <> .\n", "@base <http://a b/> .\n", "BASE <//h/>\n", "@base <#f> .\n", "@base <..> .\n"]));
    }
    let n = 1 + g.n(4);
    for _ in 0..n {
        if trig && g.chance(1, 2) {
            out.push_str(g.pk(4, &["GRAPH ", "", "graph ", ""]));
            match g.n(5) {
                0 => {}
                1 => out.push_str("_:g "),
                2 => out.push_str("[] "),
                3 => out.push_str(g.pk(14, PNAMES)),
                _ => {
                    out.push('<');
                    out.push_str(g.iri());
                    out.push_str("> ");
                }
            }
            out.push_str(" {\n");
            let m = g.n(3);
            for _ in 0..m {
                ttl_statement(g, &mut out, generalized);
            }
            out.push_str(g.pk(3, &["}\n", "}\n", "}\n", "} .\n", "\n", "}}\n"]));
        } else {
            ttl_statement(g, &mut out, generalized);
        }
        if g.chance(1, 6) {
            out.push_str(g.pick(&["@base <http://c/> .\n", "@prefix ex: <http://other/> .\n", "# comment\n", "BASE <../>\n"]));
        }
    }
    out
}

const XML_IRIS: &[&str] = &[
    "http://example.org/a", "http://example.org/ns#b", "#frag", "rel", "../rel", "", "//auth/p", "http://[::1]/p", "urn:x:y", "x:y:z", "http://\u{e9}/", "?q", "./a:b", /* 13 valid */ "http://a b/", "http://a/%zz", "http://[:1::]/",
    "a://@@", "http://a:80x/", "&e;x", "http://a/&#x20;b", "http://a/&lt;", "http://a/\u{e000}", ":a", "http://a/{b}",
];
const XML_BASES: &[&str] = &["http://example.org/a", "http://b/c/", "urn:x:y", "http://[::1]/x?q#f", /* 4 valid */ "#frag", "rel", "", "//h/", "http://a b/", "a://@@", "../.."];
const XML_NODEIDS: &[&str] = &["b", "b1", "a.b", "_x", "\u{e9}", "a\u{b7}", "a..b", /* 7 valid */ "1", "a.", "-a", "a b", "", "a:b"];
const XML_TEXT: &[&str] = &["text", "", " ", "a &amp; b", "&lt;", "<![CDATA[x <y>]]>", "&#233;", "\u{e9}\u{1F600}", "a\nb", "<!-- c -->x", /* 10 valid */ "&#x0;", "&e;", "&undefined;"];

fn xml_attr(out: &mut String, name: &str, val: &str) {
    out.push(' ');
    out.push_str(name);
    out.push_str("=\"");
    out.push_str(&val.replace('"', "&quot;").replace('<', "&lt;"));
    out.push('"');
}

fn xml_props(g: &mut G, out: &mut String, depth: u32) {
    let n = g.n(4);
    for _ in 0..n {
        if !g.spend() {
            return;
        }
        let name = g.pk(9, &["ex:p", "ex:q", "rdf:li", "rdf:_1", "rdf:type", "rdf:value", "ex:p.q", "ex:\u{e9}", "rdf:first", "p", "rdf:Description", "rdf:about", "rdf:_0", "xml:p"]);
        out.push('<');
        out.push_str(name);
        if g.chance(1, 8) {
            xml_attr(out, "rdf:ID", g.pk(7, XML_NODEIDS));
        }
        if g.chance(1, 8) {
            xml_attr(out, "xml:lang", g.pk(9, TAGS));
        }
        if g.chance(1, 12) {
            xml_attr(out, "xml:base", g.pk(4, XML_BASES));
        }
        match g.n(10) {
            0 => {
                xml_attr(out, "rdf:resource", g.pk(13, XML_IRIS));
                out.push_str(g.pk(3, &["/>", "/>", "></", ">x</"]));
                if out.ends_with("</") {
                    out.push_str(name);
                    out.push('>');
                }
            }
            1 => {
                xml_attr(out, "rdf:nodeID", g.pk(7, XML_NODEIDS));
                out.push_str("/>");
            }
            2 => {
                xml_attr(out, "rdf:datatype", g.pk(13, XML_IRIS));
                out.push('>');
                out.push_str(g.pk(10, XML_TEXT));
                out.push_str("</");
                out.push_str(name);
                out.push('>');
            }
            3 => {
                xml_attr(out, "rdf:parseType", g.pk(2, &["Literal", "Literal", "literal", "Other"]));
                out.push('>');
                out.push_str(g.pk(6, &["<b>x</b>", "<ex:a ex:b=\"c\"/>text", "<a xmlns=\"http://n/\"><b/></a>", "", "x &amp; y", "<rdf:Description/>", "<a><b></a></b>"]));
                out.push_str("</");
                out.push_str(name);
                out.push('>');
            }
            4 if depth < 5 => {
                xml_attr(out, "rdf:parseType", "Resource");
                out.push('>');
                xml_props(g, out, depth + 1);
                out.push_str("</");
                out.push_str(name);
                out.push('>');
            }
            5 if depth < 5 => {
                xml_attr(out, "rdf:parseType", "Collection");
                out.push('>');
                let m = g.n(3);
                for _ in 0..m {
                    xml_node(g, out, depth + 1);
                }
                out.push_str("</");
                out.push_str(name);
                out.push('>');
            }
            6 if depth < 5 => {
                out.push('>');
                xml_node(g, out, depth + 1);
                if g.chance(1, 8) {
                    xml_node(g, out, depth + 1);
                }
                out.push_str("</");
                out.push_str(name);
                out.push('>');
            }
            7 => {
                // property attributes on an empty property element
                xml_attr(out, "ex:r", g.pk(10, XML_TEXT));
                if g.chance(1, 2) {
                    xml_attr(out, "rdf:type", g.pk(13, XML_IRIS));
                }
                out.push_str("/>");
            }
            _ => {
                out.push('>');
                out.push_str(g.pk(10, XML_TEXT));
                out.push_str("</");
                out.push_str(g.pk(3, &[name, name, name, "ex:z"]));
                out.push('>');
            }
        }
        out.push('\n');
    }
}

fn xml_node(g: &mut G, out: &mut String, depth: u32) {
    if !g.spend() {
        out.push_str("<rdf:Description/>");
        return;
    }
    let name = g.pk(5, &["rdf:Description", "rdf:Description", "ex:T", "rdf:Bag", "ex:t.u", "rdf:li", "T", "rdf:RDF", "rdf:ID"]);
    out.push('<');
    out.push_str(name);
    match g.n(6) {
        0 | 1 => xml_attr(out, "rdf:about", g.pk(13, XML_IRIS)),
        2 => xml_attr(out, "rdf:ID", g.pk(7, XML_NODEIDS)),
        3 => xml_attr(out, "rdf:nodeID", g.pk(7, XML_NODEIDS)),
        4 => {
            xml_attr(out, "rdf:about", g.pk(13, XML_IRIS));
            xml_attr(out, "rdf:nodeID", g.pk(7, XML_NODEIDS));
        }
        _ => {}
    }
    if g.chance(1, 5) {
        xml_attr(out, "ex:attr", g.pk(10, XML_TEXT));
    }
    if g.chance(1, 8) {
        xml_attr(out, "rdf:type", g.pk(13, XML_IRIS));
    }
    if g.chance(1, 8) {
        xml_attr(out, "xml:lang", g.pk(9, TAGS));
    }
    if g.chance(1, 10) {
        xml_attr(out, "xml:base", g.pk(4, XML_BASES));
    }
    if g.wild && g.chance(1, 12) {
        xml_attr(out, g.pick(&["rdf:li", "rdf:aboutEach", "rdf:bagID", "rdf:resource", "rdf:datatype", "xmlns:ex", "xmlns"]), g.pk(13, XML_IRIS));
    }
    if g.chance(1, 6) {
        out.push_str("/>\n");
        return;
    }
    out.push_str(">\n");
    xml_props(g, out, depth);
    out.push_str("</");
    out.push_str(name);
    out.push_str(">\n");
}

fn gen_xml(g: &mut G) -> String {
    g.budget = 40;
    let mut out = String::new();
    out.push_str(g.pk(3, &["<?xml version=\"1.0\" encoding=\"utf-8\"?>\n", "<?xml version=\"1.0\"?>\n", "", "<?xml version=\"1.1\"?>", "\u{feff}<?xml version=\"1.0\"?>", "<?xml version=\"1.0\" encoding=\"utf-16\"?>"]));
    if g.chance(1, 4) {
        out.push_str(g.pk(1, &[
            "<!DOCTYPE rdf:RDF [<!ENTITY e \"http://e/\">]>\n",
            "<!DOCTYPE rdf:RDF [<!ENTITY e \"&e;\">]>\n",
            "<!DOCTYPE rdf:RDF [<!ENTITY e \"a b\"><!ENTITY f \"&e;&e;\">]>\n",
            "<!DOCTYPE rdf:RDF SYSTEM \"http://x/dtd\">\n",
            "<!DOCTYPE x [<!ELEMENT x ANY>",
        ]));
    }
    let wrap = !g.wild || g.chance(5, 6);
    if wrap {
        out.push_str("<rdf:RDF xmlns:rdf=\"http://www.w3.org/1999/02/22-rdf-syntax-ns#\"");
        out.push_str(g.pk(2, &[" xmlns:ex=\"http://example.org/\"", " xmlns:ex=\"http://example.org/\" xmlns=\"http://d/\"", " xmlns:ex=\"rel/\"", " xmlns:ex=\"\"", " xmlns:ex=\"http://a b/\"", ""]));
        if g.chance(1, 4) {
            xml_attr(&mut out, "xml:base", g.pk(4, XML_BASES));
        }
        if g.chance(1, 6) {
            xml_attr(&mut out, "xml:lang", g.pk(9, TAGS));
        }
        out.push_str(">\n");
    }
    let n = 1 + g.n(3);
    for _ in 0..n {
        xml_node(g, &mut out, 0);
    }
    if wrap {
        out.push_str(g.pk(3, &["</rdf:RDF>\n", "</rdf:RDF>\n", "</rdf:RDF>\n", "", "</rdf:rdf>"]));
    }
    out
}

const J_IRIS: &[&str] = &[
    "http://example.org/a", "http://example.org/ns#b", "ex:a", "a", "rel/b", "../c", "#f", "", "_:b", "_:1", "http://[::1]/", "urn:x:y", "//h/p", "?q", "http://\u{e9}/", "x:y:z", /* 16 valid */ "ex:", "_:a..b", "_:", "_:a b",
    "_:\u{e9}", "@foo", "@type", "http://a b/", "http://a:80x/", "a://@@", "http://[:1::]/", ":a", "http://a/%zz", "http://a/\u{e000}", "_:b.", "_:-a", "_:a:b", "http://a/{b}", "ex:a b", "1:a", "http://a/\\u0041",
];
const J_KEYS: &[&str] = &["http://example.org/p", "ex:p", "p", "q", "http://[::1]/p", "x:y", /* 6 valid */ "_:bp", "rel/p", "", "@unknown", "http://a b/", "ex:", "@type", "a://@@", "@id", "p q", "http://a/%zz", "@nest", "@index", "@language"];
const J_TAGS: &[&str] = &["en", "en-US", "EN-us", "x-priv", "a", "i-klingon", "de-1996-x-a", /* 7 valid */ "en-", "1a", "", "\u{e9}", "a b", "en--us", "toolongsubtagxx", "en_US", "-en"];

fn jstr(out: &mut String, s: &str) {
    out.push('"');
    for c in s.chars() {
        match c {
            '"' => out.push_str("\\\""),
            '\\' => out.push_str("\\\\"),
            '\n' => out.push_str("\\n"),
            c => out.push(c),
        }
    }
    out.push('"');
}

fn j_value(g: &mut G, out: &mut String, depth: u32) {
    if !g.spend() || depth > 6 {
        out.push_str("\"x\"");
        return;
    }
    match g.n(14) {
        0 | 1 => jstr(out, g.pick(&["a", "", "http://example.org/v", "ex:v", "_:b", "hello", "\u{e9}", "@value"])),
        2 => out.push_str(g.pk(9, &["1", "-1", "1.5", "1e3", "1E400", "-0", "0.1e-7", "12345678901234567890", "1.0", "01", "NaN", "1.", ".5"])),
        3 => out.push_str(g.pk(3, &["true", "false", "null", "tru"])),
        4 | 5 => j_node(g, out, depth + 1),
        6 => {
            // value object
            out.push_str("{\"@value\":");
            match g.n(5) {
                0 => out.push_str(g.pk(4, &["1", "true", "null", "1.5", "[1]", "{\"a\":1}"])),
                _ => jstr(out, g.pick(&["v", "", "1", "\u{e9}", "<b>x</b>"])),
            }
            if g.chance(1, 2) {
                out.push_str(",\"@language\":");
                if g.wild && g.chance(1, 10) {
                    out.push_str(g.pick(&["null", "1", "[\"en\"]"]));
                } else {
                    jstr(out, g.pk(7, J_TAGS));
                }
            }
            if g.chance(1, 3) {
                out.push_str(",\"@type\":");
                jstr(out, g.pk(4, &["http://www.w3.org/2001/XMLSchema#integer", "ex:dt", "@json", "rel", "_:dt", "http://a b/", "", "@id", "@vocab", "http://[:1::]/", "a://@@", "@none"]));
            }
            if g.chance(1, 6) {
                out.push_str(",\"@direction\":");
                jstr(out, g.pk(2, &["ltr", "rtl", "x", ""]));
            }
            if g.chance(1, 10) {
                out.push_str(",\"@index\":\"i\"");
            }
            out.push('}');
        }
        7 => {
            out.push_str(g.pk(4, &["{\"@list\":[", "{\"@set\":[", "{\"@list\":[[", "{\"@graph\":["]));
            let two = out.ends_with("[[");
            let n = g.n(4);
            for i in 0..n {
                if i > 0 {
                    out.push(',');
                }
                j_value(g, out, depth + 1);
            }
            out.push_str(if two { "]]}" } else { "]}" });
        }
        8 | 9 => {
            out.push('[');
            let n = g.n(4);
            for i in 0..n {
                if i > 0 {
                    out.push(',');
                }
                j_value(g, out, depth + 1);
            }
            out.push(']');
        }
        10 => {
            out.push_str("{\"@id\":");
            jstr(out, g.pk(16, J_IRIS));
            out.push('}');
        }
        11 => {
            // language / index / id maps depend on the context; harmless otherwise
            out.push('{');
            let n = g.n(3);
            for i in 0..n {
                if i > 0 {
                    out.push(',');
                }
                jstr(out, g.pk(4, &["en", "k", "http://example.org/k", "@none", "fr-", "1a", "_:k"]));
                out.push(':');
                j_value(g, out, depth + 1);
            }
            out.push('}');
        }
        _ => jstr(out, g.pk(13, LEX)),
    }
}

fn j_context(g: &mut G, out: &mut String, depth: u32) {
    match g.n(12) {
        0 => out.push_str("null"),
        1 if g.wild => jstr(out, g.pick(&["http://remote.example/ctx", "rel/ctx", "", "http://a b/"])),
        2 if depth < 2 => {
            out.push('[');
            j_context(g, out, depth + 1);
            out.push(',');
            j_context(g, out, depth + 1);
            out.push(']');
        }
        3 if g.wild => out.push_str(g.pick(&["1", "true", "[[]]", "{\"@context\":{}}"])),
        _ => {
            out.push('{');
            let mut first = true;
            let mut sep = |out: &mut String| {
                if !first {
                    out.push(',');
                }
                first = false;
            };
            if g.chance(1, 2) {
                sep(out);
                out.push_str("\"ex\":");
                jstr(out, g.pk(3, &["http://example.org/", "http://example.org/ns#", "http://[::1]/", "rel/", "", "_:", "http://a b/", "ex:", "@type"]));
            }
            if g.chance(1, 2) {
                sep(out);
                out.push_str("\"@vocab\":");
                if g.chance(1, 8) {
                    out.push_str("null");
                } else {
                    jstr(out, g.pk(3, &["http://example.org/v#", "", "rel/", "_:", "ex:", "http://a b/", "@id", "../"]));
                }
            }
            if g.chance(1, 3) {
                sep(out);
                out.push_str("\"@base\":");
                if g.chance(1, 6) {
                    out.push_str("null");
                } else {
                    jstr(out, g.pk(6, &["http://b/c/", "rel/", "", "a:", "http://[1::]/", "//h", "../..", "http://a b/", "#f", "a://@@", "a:b/c"]));
                }
            }
            if g.chance(1, 4) {
                sep(out);
                out.push_str("\"@language\":");
                jstr(out, g.pk(7, J_TAGS));
            }
            if g.chance(1, 6) {
                sep(out);
                out.push_str(g.pk(4, &["\"@version\":1.1", "\"@direction\":\"rtl\"", "\"@propagate\":false", "\"@protected\":true", "\"@version\":1.0", "\"@version\":\"1.1\"", "\"@import\":\"http://remote.example/c\""]));
            }
            let n = g.n(3);
            for _ in 0..n {
                sep(out);
                jstr(out, g.pk(6, &["p", "q", "ex:p", "http://example.org/p", "type", "id", "@type", "", "p q", "_:t", "a:b"]));
                out.push(':');
                match g.n(6) {
                    0 => jstr(out, g.pk(4, &["http://example.org/p", "ex:p", "@id", "@type", "_:p", "rel", "", "@reverse", "http://a b/", "@graph", "@nest", "a://@@"])),
                    1 => out.push_str("null"),
                    _ => {
                        out.push_str("{\"@id\":");
                        jstr(out, g.pk(2, &["http://example.org/p", "ex:q", "_:p", "rel", "@type", "", "http://a b/", "@nest"]));
                        if g.chance(1, 2) {
                            out.push_str(",\"@type\":");
                            jstr(out, g.pk(6, &["@id", "@vocab", "@json", "@none", "http://www.w3.org/2001/XMLSchema#date", "ex:dt", "_:dt", "rel", "@foo"]));
                        }
                        if g.chance(1, 2) {
                            out.push_str(",\"@container\":");
                            out.push_str(g.pk(9, &[
                                "\"@list\"", "\"@set\"", "\"@language\"", "\"@index\"", "\"@id\"", "\"@graph\"", "\"@type\"", "[\"@graph\",\"@id\"]", "[\"@index\",\"@set\"]", "\"@foo\"", "[\"@list\",\"@set\"]", "null",
                            ]));
                        }
                        if g.chance(1, 6) {
                            out.push_str(",\"@language\":");
                            jstr(out, g.pk(7, J_TAGS));
                        }
                        if g.chance(1, 8) {
                            out.push_str(g.pick(&[",\"@reverse\":\"http://example.org/r\"", ",\"@prefix\":true", ",\"@index\":\"http://example.org/i\"", ",\"@context\":{\"@vocab\":\"http://n/\"}", ",\"@nest\":\"@nest\"", ",\"@direction\":\"ltr\""]));
                        }
                        out.push('}');
                    }
                }
            }
            out.push('}');
        }
    }
}

fn j_node(g: &mut G, out: &mut String, depth: u32) {
    out.push('{');
    let mut first = true;
    let mut sep = |out: &mut String| {
        if !first {
            out.push(',');
        }
        first = false;
    };
    if (depth == 0 && g.chance(3, 4)) || g.chance(1, 10) {
        sep(out);
        out.push_str("\"@context\":");
        j_context(g, out, 0);
    }
    if g.chance(2, 3) {
        sep(out);
        out.push_str(g.pick(&["\"@id\":", "\"@id\":", "\"id\":"]));
        if g.wild && g.chance(1, 12) {
            out.push_str(g.pick(&["null", "1", "[\"a\"]", "{}"]));
        } else {
            jstr(out, g.pk(16, J_IRIS));
        }
    }
    if g.chance(1, 3) {
        sep(out);
        out.push_str(g.pick(&["\"@type\":", "\"@type\":", "\"type\":"]));
        if g.chance(1, 2) {
            jstr(out, g.pk(16, J_IRIS));
        } else {
            out.push('[');
            jstr(out, g.pk(16, J_IRIS));
            out.push(',');
            jstr(out, g.pk(16, J_IRIS));
            out.push(']');
        }
    }
    let n = g.n(4);
    for _ in 0..n {
        if !g.spend() {
            break;
        }
        sep(out);
        jstr(out, g.pk(6, J_KEYS));
        out.push(':');
        j_value(g, out, depth + 1);
    }
    if g.chance(1, 6) && depth < 4 {
        sep(out);
        out.push_str(g.pk(2, &["\"@graph\":[", "\"@included\":[", "\"@graph\":[["]));
        let two = out.ends_with("[[");
        let m = g.n(3);
        for i in 0..m {
            if i > 0 {
                out.push(',');
            }
            j_node(g, out, depth + 1);
        }
        out.push_str(if two { "]]" } else { "]" });
    }
    if g.chance(1, 8) && depth < 4 {
        sep(out);
        out.push_str("\"@reverse\":{");
        jstr(out, g.pk(6, J_KEYS));
        out.push(':');
        j_value(g, out, depth + 1);
        out.push('}');
    }
    if g.chance(1, 12) && depth < 4 {
        sep(out);
        out.push_str("\"@nest\":");
        j_node(g, out, depth + 1);
    }
    out.push('}');
}

fn gen_jsonld(g: &mut G) -> String {
    g.budget = 40;
    let mut out = String::new();
    if g.chance(1, 5) {
        out.push('[');
        let n = g.n(3);
        for i in 0..n {
            if i > 0 {
                out.push(',');
            }
            j_node(g, &mut out, 0);
        }
        out.push(']');
    } else {
        j_node(g, &mut out, 0);
    }
    if g.chance(1, 20) {
        out.push_str(g.pk(2, &[" ", "\n", "x", ",", "}", "\u{feff}"]));
    }
    out
}

pub fn gen_doc(syntax: &str, tape: &[u32]) -> String {
    let wild = tape.first().map(|v| v % 3 == 0).unwrap_or(false);
    let mut g = G { t: tape.get(1..).unwrap_or(&[]), i: 0, budget: 60, wild, abs_only: matches!(syntax, "nt" | "nq" | "gnq") };
    match syntax {
        "nt" => gen_nt(&mut g, false, false),
        "nq" => gen_nt(&mut g, true, false),
        "gnq" => gen_nt(&mut g, true, true),
        "turtle" => gen_turtle(&mut g, false, false),
        "trig" => gen_turtle(&mut g, true, false),
        "gtrig" => gen_turtle(&mut g, true, true),
        "xml" => gen_xml(&mut g),
        _ => gen_jsonld(&mut g),
    }
}

const EDIT_TOKENS: &[&[u8]] = &[
    b"<", b">", b"\"", b"\\", b"_:", b"@", b"^^", b"<<", b">>", b"(", b")", b"[", b"]", b"{", b"}", b".", b";", b",", b"#", b"\n", b"\\u", b"\\U0001", b"\xff", b"\xc3", b"\x00", b"%", b":", b"..", b"'", b"\"\"\"",
    b"&", b"&#", b"<!--", b"]]>", b"<?", b"/>", b"</", b"=", b" ", b"\xef\xbb\xbf", b"\xed\xa0\x80", b"\xf4\x90\x80\x80", b"e", b"-", b"+", b"0", b"a", b"|}", b"{|", b"?", b"$", b"null", b"\r", b"\t", b"\x7f", b"\xc2\xa0", b"\xe2\x80\xa8",
];

pub fn apply_edit(data: &mut Vec<u8>, kind: u8, pos: u32, len: u8, tok: u8) {
    let n = data.len();
    match kind % 6 {
        0 => {
            // delete a span
            if n > 0 {
                let p = pos as usize % n;
                let l = (1 + len as usize % 8).min(n - p);
                data.drain(p..p + l);
            }
        }
        1 => {
            let p = pos as usize % (n + 1);
            let t = EDIT_TOKENS[tok as usize % EDIT_TOKENS.len()];
            data.splice(p..p, t.iter().copied());
        }
        2 => {
            // flip a bit / replace a byte
            if n > 0 {
                let p = pos as usize % n;
                if len % 2 == 0 {
                    data[p] ^= 1 << (tok % 8);
                } else {
                    data[p] = EDIT_TOKENS[tok as usize % EDIT_TOKENS.len()][0];
                }
            }
        }
        3 => {
            // truncate
            if n > 0 {
                data.truncate(pos as usize % n);
            }
        }
        4 => {
            // duplicate a span
            if n > 0 {
                let p = pos as usize % n;
                let l = (1 + len as usize % 16).min(n - p);
                let span: Vec<u8> = data[p..p + l].to_vec();
                data.splice(p..p, span);
            }
        }
        _ => {
            // replace a span by a token
            if n > 0 {
                let p = pos as usize % n;
                let l = (len as usize % 4).min(n - p);
                let t = EDIT_TOKENS[tok as usize % EDIT_TOKENS.len()];
                data.splice(p..p + l, t.iter().copied());
            }
        }
    }
}

fn case_strategy() -> BoxedStrategy<Case> {
    (
        0..SYNTAXES.len(),
        prop::collection::vec(any::<u32>(), 8..160),
        prop::option::weighted(0.4, 0..BASES.len()),
        prop::collection::vec((0..6u8, any::<u32>(), any::<u8>(), any::<u8>()), 0..4),
        0..20u8,
    )
        .prop_map(|(s, tape, base, edits, long)| {
            let syntax = SYNTAXES[s];
            let mut doc = gen_doc(syntax, &tape);
            if long == 19 {
                // a very long token (64 KiB) somewhere in a statement
                let filler = "a".repeat(65536);
                doc = doc.replacen("example", &filler, 1);
            }
            let mut data = doc.into_bytes();
            for (k, p, l, t) in edits {
                apply_edit(&mut data, k, p, l, t);
            }
            Case::new(syntax, base.filter(|_| target::takes_base(syntax)).map(|b| BASES[b].to_string()), data)
        })
        .boxed()
}

fn signature(syntax: &str, key: &str) -> String {
    format!("{key}/{syntax}")
}

/// run one case in this process; returns (report, failures)
fn run_here(case: &Case) -> (target::Report, Vec<Failure>) {
    let data = case.data();
    let rep = target::run_target(&case.syntax, case.base.as_deref(), &data, engine_catcher);
    let fails = rep
        .problems
        .iter()
        .map(|(k, d)| Failure { signature: signature(&case.syntax, k), detail: format!("[{}] {d}", profile_name()) })
        .collect();
    (rep, fails)
}

fn profile_name() -> &'static str {
    if cfg!(debug_assertions) {
        "debug-assertions on"
    } else {
        "release"
    }
}

impl Check for C08 {
    fn stall_secs(_tier: Tier) -> Option<u64> {
        None
    }
    type Case = Case;
    const ID: &'static str = "C08";
    fn rule() -> String {
        "a (syntax, optional base IRI, byte string) case is non-trivial when the parser yielded at least one statement, or reported an error on an input of at least 16 bytes; distinct by hash of the case. The extra stage re-runs the same generated inputs in the release binary (assertions off) and runs deep-nesting documents in child processes on a 2 MiB stack.".into()
    }
    fn assumptions() -> Vec<String> {
        vec![
            "strict parsers (nt, nq, turtle, trig, xml, jsonld) must yield IRIs and datatypes accepted by Iri::new; generalized ones (gnq, gtrig) by IriRef::new".into(),
            "base IRIs are drawn from values accepted by Iri::new".into(),
            "a watchdog timeout of a child process is inconclusive, never a violation".into(),
        ]
    }
    fn cases(tier: Tier) -> u32 {
        tier.pick(320_000, 9_600_000)
    }
    fn strategy(_tier: Tier) -> BoxedStrategy<Case> {
        case_strategy()
    }
    fn run(case: &Case, ctx: &mut Ctx) {
        if case.syntax == "nesting" {
            // text = "<syntax> <kind> <depth>": replay of a deep-nesting scenario in child processes
            let parts: Vec<String> = case.text.clone().unwrap_or_default().split_whitespace().map(str::to_string).collect();
            if parts.len() != 3 {
                ctx.class("skipped:bad-nesting-case");
                return;
            }
            ctx.class("nesting-replay");
            ctx.nontrivial();
            let mut bins: Vec<(&str, String)> = vec![];
            if let Ok(p) = std::env::current_exe() {
                bins.push(("this", p.display().to_string()));
            }
            if let Some(b) = std::env::var("VCHECK_RELEASE").ok().filter(|p| std::path::Path::new(p).exists()) {
                bins.push(("release", b));
            }
            for (pname, bin) in bins {
                let args = vec!["--worker".to_string(), "C08".into(), "nest".into(), parts[0].clone(), parts[1].clone(), parts[2].clone()];
                match run_child(&bin, &args, Duration::from_secs(120)) {
                    Ok(o) if !o.timed_out => {
                        if let Some(st) = o.status {
                            if !st.success() && st.code() != Some(3) {
                                ctx.fail(
                                    format!("stack/{}/{}", parts[0], parts[1]),
                                    format!("{} document with {} nested '{}' on a 2 MiB thread stack, {pname} binary: child {} ; stderr: {}", parts[0], parts[2], parts[1], describe_status(&st), o.stderr_tail),
                                );
                                return;
                            }
                        }
                    }
                    _ => ctx.class("nesting-replay-inconclusive"),
                }
            }
            return;
        }
        if !SYNTAXES.contains(&case.syntax.as_str()) {
            ctx.class("skipped:unknown-syntax");
            return;
        }
        let (rep, fails) = run_here(case);
        ctx.class(format!("syntax:{}", case.syntax));
        ctx.class(format!(
            "{}:{}",
            case.syntax,
            match (rep.statements > 0, rep.source_error.is_some()) {
                (true, false) => "ok-with-statements",
                (true, true) => "statements-then-error",
                (false, true) => "error",
                (false, false) => "ok-empty",
            }
        ));
        if case.hex.is_some() {
            ctx.class("invalid-utf8");
        }
        if case.base.is_some() {
            ctx.class("with-base");
        }
        ctx.count("statements", rep.statements);
        ctx.count("terms", rep.terms);
        let len = case.text.as_ref().map(|t| t.len()).or(case.hex.as_ref().map(|h| h.len() / 2)).unwrap_or(0);
        if len > 60_000 {
            ctx.class("long-token");
        }
        if rep.statements > 0 || (rep.source_error.is_some() && len >= 16) {
            ctx.nontrivial();
        }
        for f in fails {
            ctx.fail(f.signature, f.detail);
        }
    }
    fn show(case: &Case) -> Value {
        json!({"syntax": case.syntax, "base": case.base, "text": case.text, "hex": case.hex})
    }
    fn extra_stage(tier: Tier, seed: u64, known: &Known) -> ExtraResult {
        extra(tier, seed, known)
    }
}

// ------------------------------------------------------------------------------------------
// child processes

fn shard_rng(seed: u64, shard: u32) -> TestRng {
    let mut seed_bytes = [0u8; 32];
    seed_bytes[..8].copy_from_slice(&seed.to_le_bytes());
    seed_bytes[8..12].copy_from_slice(&shard.to_le_bytes());
    seed_bytes[12..16].copy_from_slice(b"vrf1");
    TestRng::from_seed(RngAlgorithm::ChaCha, &seed_bytes)
}

/// `gen <seed> <shard> <count>`: regenerate the shard's inputs (same strategy, same seeding as the
/// engine) and run them in *this* binary; one line per failure: FAIL \t signature \t case-json \t detail
fn worker_gen(args: &[String]) -> i32 {
    let seed: u64 = args.first().and_then(|s| s.parse().ok()).unwrap_or(0);
    let shard: u32 = args.get(1).and_then(|s| s.parse().ok()).unwrap_or(0);
    let count: u32 = args.get(2).and_then(|s| s.parse().ok()).unwrap_or(0);
    install_quiet_panic_hook();
    let mut runner = TestRunner::new_with_rng(Config { failure_persistence: None, ..Config::default() }, shard_rng(seed, shard));
    let strat = case_strategy();
    let out = std::io::stdout();
    let mut evals = 0u64;
    let mut nontrivial = 0u64;
    let mut reported = std::collections::BTreeSet::new();
    for _ in 0..count {
        let case = match strat.new_tree(&mut runner) {
            Ok(t) => t.current(),
            Err(_) => continue,
        };
        let (rep, fails) = run_here(&case);
        evals += 1;
        if rep.statements > 0 || rep.source_error.is_some() {
            nontrivial += 1;
        }
        for f in fails {
            if reported.insert(f.signature.clone()) {
                let mut o = out.lock();
                let _ = writeln!(o, "FAIL\t{}\t{}\t{}", f.signature, serde_json::to_string(&case).unwrap_or_default(), f.detail.replace(['\n', '\t'], " "));
            }
        }
    }
    println!("DONE\t{evals}\t{nontrivial}");
    0
}

/// `corpus`: run every corpus/C08/*.json case in this binary
fn worker_corpus(_args: &[String]) -> i32 {
    install_quiet_panic_hook();
    let dir = verif_root().join("corpus").join("C08");
    let mut files: Vec<_> = std::fs::read_dir(&dir).map(|rd| rd.filter_map(|e| e.ok()).map(|e| e.path()).collect()).unwrap_or_default();
    files.sort();
    let mut evals = 0;
    for f in files {
        if f.extension().map(|e| e != "json").unwrap_or(true) {
            continue;
        }
        let Ok(txt) = std::fs::read_to_string(&f) else { continue };
        let Ok(v) = serde_json::from_str::<Value>(&txt) else { continue };
        let cv = v.get("case").cloned().unwrap_or(v);
        let Ok(case) = serde_json::from_value::<Case>(cv) else { continue };
        if case.syntax == "nesting" {
            continue;
        }
        evals += 1;
        let (_, fails) = run_here(&case);
        for fl in fails {
            println!("FAIL\t{}\t{}\t{}", fl.signature, serde_json::to_string(&case).unwrap_or_default(), fl.detail.replace(['\n', '\t'], " "));
        }
    }
    println!("DONE\t{evals}\t{evals}");
    0
}

pub const NEST_KINDS: &[(&str, &str)] = &[
    ("nt", "quoted"),
    ("nq", "quoted"),
    ("gnq", "quoted"),
    ("turtle", "collection"),
    ("turtle", "bnode-list"),
    ("turtle", "quoted"),
    ("turtle", "annotation"),
    ("trig", "collection"),
    ("trig", "bnode-list"),
    ("trig", "quoted"),
    ("trig", "annotation"),
    ("gtrig", "collection"),
    ("gtrig", "bnode-list"),
    ("gtrig", "quoted"),
    ("gtrig", "annotation"),
    ("xml", "elements"),
    ("xml", "parsetype-resource"),
    ("xml", "parsetype-literal"),
    ("xml", "parsetype-collection"),
    ("jsonld", "array"),
    ("jsonld", "object"),
    ("jsonld", "list"),
    ("jsonld", "graph"),
    ("jsonld", "context-array"),
    ("jsonld", "unclosed-array"),
];

pub fn nest_doc(syntax: &str, kind: &str, depth: usize) -> String {
    let mut s = String::new();
    match (syntax, kind) {
        (_, "quoted") if matches!(syntax, "nt" | "nq" | "gnq") => {
            // <<...<< <a> <b> <c> >> <b> <c> >> ... <b> <c> .
            s.push_str(&"<< ".repeat(depth));
            s.push_str("<http://x/a> <http://x/b> <http://x/c>");
            s.push_str(&" >> <http://x/b> <http://x/c>".repeat(depth));
            s.push_str(" .\n");
        }
        (_, "quoted") => {
            s.push_str("@prefix : <http://x/> .\n");
            s.push_str(&"<< ".repeat(depth));
            s.push_str(":a :b :c");
            s.push_str(&" >> :b :c".repeat(depth));
            s.push_str(" .\n");
        }
        (_, "collection") => {
            s.push_str("@prefix : <http://x/> .\n:a :b ");
            s.push_str(&"( ".repeat(depth));
            s.push_str(&") ".repeat(depth));
            s.push_str(".\n");
        }
        (_, "bnode-list") => {
            s.push_str("@prefix : <http://x/> .\n:a :b ");
            s.push_str(&"[ :b ".repeat(depth));
            s.push_str(":c ");
            s.push_str(&"] ".repeat(depth));
            s.push_str(".\n");
        }
        (_, "annotation") => {
            s.push_str("@prefix : <http://x/> .\n:a :b :c ");
            s.push_str(&"{| :b :c ".repeat(depth));
            s.push_str(&"|} ".repeat(depth));
            s.push_str(".\n");
        }
        ("xml", "elements") => {
            s.push_str("<rdf:RDF xmlns:rdf=\"http://www.w3.org/1999/02/22-rdf-syntax-ns#\" xmlns:ex=\"http://x/\">");
            s.push_str(&"<rdf:Description><ex:p>".repeat(depth));
            s.push_str("<rdf:Description/>");
            s.push_str(&"</ex:p></rdf:Description>".repeat(depth));
            s.push_str("</rdf:RDF>");
        }
        ("xml", "parsetype-resource") => {
            s.push_str("<rdf:RDF xmlns:rdf=\"http://www.w3.org/1999/02/22-rdf-syntax-ns#\" xmlns:ex=\"http://x/\"><rdf:Description>");
            s.push_str(&"<ex:p rdf:parseType=\"Resource\">".repeat(depth));
            s.push_str(&"</ex:p>".repeat(depth));
            s.push_str("</rdf:Description></rdf:RDF>");
        }
        ("xml", "parsetype-literal") => {
            s.push_str("<rdf:RDF xmlns:rdf=\"http://www.w3.org/1999/02/22-rdf-syntax-ns#\" xmlns:ex=\"http://x/\"><rdf:Description><ex:p rdf:parseType=\"Literal\">");
            s.push_str(&"<b>".repeat(depth));
            s.push_str(&"</b>".repeat(depth));
            s.push_str("</ex:p></rdf:Description></rdf:RDF>");
        }
        ("xml", "parsetype-collection") => {
            s.push_str("<rdf:RDF xmlns:rdf=\"http://www.w3.org/1999/02/22-rdf-syntax-ns#\" xmlns:ex=\"http://x/\"><rdf:Description>");
            s.push_str(&"<ex:p rdf:parseType=\"Collection\"><rdf:Description>".repeat(depth));
            s.push_str(&"</rdf:Description></ex:p>".repeat(depth));
            s.push_str("</rdf:Description></rdf:RDF>");
        }
        ("jsonld", "array") => {
            s.push_str("{\"http://x/p\":");
            s.push_str(&"[".repeat(depth));
            s.push_str(&"]".repeat(depth));
            s.push('}');
        }
        ("jsonld", "unclosed-array") => {
            s.push_str(&"[".repeat(depth));
        }
        ("jsonld", "object") => {
            s.push_str(&"{\"http://x/p\":".repeat(depth));
            s.push_str("1");
            s.push_str(&"}".repeat(depth));
        }
        ("jsonld", "list") => {
            s.push_str("{\"http://x/p\":");
            s.push_str(&"{\"@list\":[".repeat(depth));
            s.push_str(&"]}".repeat(depth));
            s.push('}');
        }
        ("jsonld", "graph") => {
            s.push_str(&"{\"@graph\":[".repeat(depth));
            s.push_str("{\"@id\":\"http://x/a\",\"http://x/p\":1}");
            s.push_str(&"]}".repeat(depth));
        }
        ("jsonld", "context-array") => {
            s.push_str("{\"@context\":");
            s.push_str(&"[".repeat(depth));
            s.push_str(&"]".repeat(depth));
            s.push_str(",\"http://x/p\":1}");
        }
        _ => {}
    }
    s
}

/// `nest <syntax> <kind> <depth>`: parse the nested document on a thread with a 2 MiB stack
fn worker_nest(args: &[String]) -> i32 {
    let syntax = args.first().cloned().unwrap_or_default();
    let kind = args.get(1).cloned().unwrap_or_default();
    let depth: usize = args.get(2).and_then(|s| s.parse().ok()).unwrap_or(0);
    // optional 4th argument: stack size in KiB (default 2048), to measure margins
    let stack_kib: usize = args.get(3).and_then(|s| s.parse().ok()).unwrap_or(2048);
    install_quiet_panic_hook();
    let doc = nest_doc(&syntax, &kind, depth);
    if doc.is_empty() {
        return 2;
    }
    let h = std::thread::Builder::new()
        .stack_size(stack_kib << 10)
        .spawn(move || {
            let rep = target::run_target(&syntax, None, doc.as_bytes(), engine_catcher);
            (rep.statements, rep.source_error.is_some(), rep.problems)
        })
        .expect("spawn");
    match h.join() {
        Ok((st, err, problems)) => {
            println!("NEST\tstatements={st}\terror={err}");
            if problems.is_empty() {
                0
            } else {
                for (k, d) in problems {
                    println!("FAIL\t{k}\t\t{}", d.replace(['\n', '\t'], " "));
                }
                3
            }
        }
        Err(_) => 4,
    }
}

pub fn worker(args: &[String]) -> i32 {
    match args.first().map(String::as_str) {
        Some("gen") => worker_gen(&args[1..]),
        Some("corpus") => worker_corpus(&args[1..]),
        Some("nest") => worker_nest(&args[1..]),
        Some("seeds") => {
            // seeds <fuzz-dir>: write a small seed corpus of generated valid documents for each fuzz target
            let dir = std::path::PathBuf::from(args.get(1).cloned().unwrap_or_else(|| "fuzz".into()));
            let targets: [(&str, &[&str]); 4] = [("fuzz_nt_family", &["nt", "nq", "gnq"]), ("fuzz_turtle_family", &["turtle", "trig", "gtrig"]), ("fuzz_xml", &["xml"]), ("fuzz_jsonld", &["jsonld"])];
            let mut x: u64 = 88172645463325252;
            for (t, syns) in targets {
                let d = dir.join("corpus").join(t);
                let _ = std::fs::create_dir_all(&d);
                for (si, syn) in syns.iter().enumerate() {
                    for k in 0..40u32 {
                        let mut tape = vec![1u32];
                        for _ in 0..100 {
                            x ^= x << 13;
                            x ^= x >> 7;
                            x ^= x << 17;
                            tape.push((x >> 16) as u32);
                        }
                        let doc = gen_doc(syn, &tape);
                        let sel = (si + syns.len() * (k as usize % 10)) as u8;
                        let mut bytes = vec![sel];
                        bytes.extend_from_slice(doc.as_bytes());
                        let _ = std::fs::write(d.join(format!("{syn}-{k:02}")), bytes);
                    }
                }
            }
            0
        }
        Some("sample") => {
            // sample <syntax> <n> [wild]: print generated documents (before edits) and what the parser says
            install_quiet_panic_hook();
            let syntax = args.get(1).cloned().unwrap_or_default();
            let n: u32 = args.get(2).and_then(|s| s.parse().ok()).unwrap_or(5);
            let wild = args.get(3).is_some();
            let mut x: u64 = 88172645463325252;
            for _ in 0..n {
                let mut tape = vec![if wild { 0 } else { 1 }];
                for _ in 0..120 {
                    x ^= x << 13;
                    x ^= x >> 7;
                    x ^= x << 17;
                    tape.push((x >> 16) as u32);
                }
                let doc = gen_doc(&syntax, &tape);
                let rep = target::run_target(&syntax, Some("http://example.org/base/"), doc.as_bytes(), engine_catcher);
                println!("=== statements={} error={:?}\n{}", rep.statements, rep.source_error, doc);
            }
            0
        }
        Some("one") => {
            // one <syntax> <base|-> <file>: run a document from a file, print the report
            install_quiet_panic_hook();
            let syntax = args.get(1).cloned().unwrap_or_default();
            let base = args.get(2).filter(|b| b.as_str() != "-").cloned();
            let data = std::fs::read(args.get(3).map(String::as_str).unwrap_or("/dev/stdin")).unwrap_or_default();
            let rep = target::run_target(&syntax, base.as_deref(), &data, engine_catcher);
            println!("{rep:#?}");
            if rep.problems.is_empty() { 0 } else { 1 }
        }
        _ => 2,
    }
}

struct ChildOut {
    status: Option<std::process::ExitStatus>,
    stdout: String,
    stderr_tail: String,
    timed_out: bool,
}

fn run_child(bin: &str, args: &[String], timeout: Duration) -> std::io::Result<ChildOut> {
    let mut child = Command::new(bin).args(args).stdin(Stdio::null()).stdout(Stdio::piped()).stderr(Stdio::piped()).spawn()?;
    let mut so = child.stdout.take().unwrap();
    let mut se = child.stderr.take().unwrap();
    let t1 = std::thread::spawn(move || {
        let mut s = String::new();
        let _ = so.read_to_string(&mut s);
        s
    });
    let t2 = std::thread::spawn(move || {
        let mut s = Vec::new();
        let _ = se.read_to_end(&mut s);
        String::from_utf8_lossy(&s).into_owned()
    });
    let t0 = Instant::now();
    let mut timed_out = false;
    let status = loop {
        match child.try_wait()? {
            Some(st) => break Some(st),
            None => {
                if t0.elapsed() > timeout {
                    let _ = child.kill();
                    let _ = child.wait();
                    timed_out = true;
                    break None;
                }
                std::thread::sleep(Duration::from_millis(20));
            }
        }
    };
    let stdout = t1.join().unwrap_or_default();
    let stderr = t2.join().unwrap_or_default();
    let tail: String = stderr.lines().rev().take(6).collect::<Vec<_>>().into_iter().rev().collect::<Vec<_>>().join(" | ");
    Ok(ChildOut { status, stdout, stderr_tail: tail, timed_out })
}

fn describe_status(st: &std::process::ExitStatus) -> String {
    use std::os::unix::process::ExitStatusExt;
    match (st.code(), st.signal()) {
        (Some(c), _) => format!("exit code {c}"),
        (None, Some(s)) => format!("killed by signal {s}"),
        _ => "unknown status".into(),
    }
}

fn parse_fail_lines(out: &str, profile: &str, failures: &mut Vec<(Value, Failure)>) -> (u64, u64) {
    let mut evals = 0;
    let mut nt = 0;
    for line in out.lines() {
        let parts: Vec<&str> = line.splitn(4, '\t').collect();
        match parts.as_slice() {
            ["FAIL", sig, case, detail] => {
                let cv: Value = serde_json::from_str(case).unwrap_or(Value::Null);
                failures.push((cv, Failure { signature: sig.to_string(), detail: format!("[{profile} binary] {detail}") }));
            }
            ["DONE", e, n] => {
                evals = e.parse().unwrap_or(0);
                nt = n.parse().unwrap_or(0);
            }
            _ => {}
        }
    }
    (evals, nt)
}

fn extra(tier: Tier, seed: u64, _known: &Known) -> ExtraResult {
    let mut res = ExtraResult::default();
    let mut info = serde_json::Map::new();
    let verif_bin = std::env::var("VCHECK_VERIF").ok().filter(|p| std::path::Path::new(p).exists()).or_else(|| std::env::current_exe().ok().map(|p| p.display().to_string()));
    let release_bin = std::env::var("VCHECK_RELEASE").ok().filter(|p| std::path::Path::new(p).exists());
    // the dev binary is only used on request (C08_WITH_DEV=1), so that results do not depend on
    // whether another check happened to build it
    let dev_bin = std::env::var("VCHECK_DEV").ok().filter(|p| std::path::Path::new(p).exists() && std::env::var_os("C08_WITH_DEV").is_some());

    // ---- 1. the same generated inputs + the corpus, in the release binary
    match &release_bin {
        None => res.inconclusive.push("release binary (env VCHECK_RELEASE) not available: release stage skipped".into()),
        Some(bin) => {
            let cases = C08::cases(tier);
            let shards = 16u32;
            let t0 = Instant::now();
            let outs: Vec<(u32, std::io::Result<ChildOut>)> = std::thread::scope(|s| {
                let hs: Vec<_> = (0..=shards)
                    .map(|i| {
                        let bin = bin.clone();
                        s.spawn(move || {
                            if i == shards {
                                (i, run_child(&bin, &["--worker".into(), "C08".into(), "corpus".into()], Duration::from_secs(600)))
                            } else {
                                let n = cases / shards + if i < cases % shards { 1 } else { 0 };
                                (
                                    i,
                                    run_child(
                                        &bin,
                                        &["--worker".into(), "C08".into(), "gen".into(), seed.to_string(), i.to_string(), n.to_string()],
                                        Duration::from_secs(tier.pick(900, 7200)),
                                    ),
                                )
                            }
                        })
                    })
                    .collect();
                hs.into_iter().map(|h| h.join().expect("child thread")).collect()
            });
            let mut evals = 0;
            let mut nontrivial = 0;
            for (i, o) in outs {
                match o {
                    Err(e) => res.inconclusive.push(format!("cannot run release worker {i}: {e}")),
                    Ok(o) if o.timed_out => res.inconclusive.push(format!("release worker {i} timed out")),
                    Ok(o) => {
                        let (e, n) = parse_fail_lines(&o.stdout, "release", &mut res.failures);
                        evals += e;
                        nontrivial += n;
                        match o.status {
                            Some(st) if st.success() => {}
                            Some(st) => res.failures.push((
                                json!({"worker": "gen", "seed": seed, "shard": i}),
                                Failure { signature: "crash/release-worker".into(), detail: format!("release worker {i} died: {} ; stderr: {}", describe_status(&st), o.stderr_tail) },
                            )),
                            None => {}
                        }
                    }
                }
            }
            res.evaluations += evals;
            res.nontrivial += nontrivial;
            info.insert("release_evaluations".into(), json!(evals));
            info.insert("release_wall_s".into(), json!(t0.elapsed().as_secs_f64()));
        }
    }

    // ---- 2. deep nesting in child processes (2 MiB thread stack)
    let depths: Vec<usize> = tier.pick(vec![1_000, 10_000, 100_000], vec![1_000, 10_000, 100_000, 1_000_000]);
    let mut bins: Vec<(&str, String)> = vec![];
    if let Some(b) = &verif_bin {
        bins.push(("verif", b.clone()));
    }
    if let Some(b) = &release_bin {
        bins.push(("release", b.clone()));
    }
    if let Some(b) = &dev_bin {
        bins.push(("dev", b.clone()));
    }
    let mut jobs: Vec<(String, String, usize, String, String)> = vec![];
    for (syntax, kind) in NEST_KINDS {
        for d in &depths {
            for (pname, bin) in &bins {
                jobs.push((syntax.to_string(), kind.to_string(), *d, pname.to_string(), bin.clone()));
            }
        }
    }
    let njobs = jobs.len();
    let t0 = Instant::now();
    let jobs = std::sync::Mutex::new(jobs.into_iter().enumerate().collect::<Vec<_>>());
    let results: Vec<(usize, (String, String, usize, String), std::io::Result<ChildOut>)> = std::thread::scope(|s| {
        let hs: Vec<_> = (0..12)
            .map(|_| {
                let jobs = &jobs;
                s.spawn(move || {
                    let mut out = vec![];
                    loop {
                        let job = jobs.lock().unwrap().pop();
                        let Some((idx, (syntax, kind, d, pname, bin))) = job else { break };
                        let r = run_child(&bin, &["--worker".into(), "C08".into(), "nest".into(), syntax.clone(), kind.clone(), d.to_string()], Duration::from_secs(tier.pick(60, 300)));
                        out.push((idx, (syntax, kind, d, pname), r));
                    }
                    out
                })
            })
            .collect();
        hs.into_iter().flat_map(|h| h.join().expect("nest thread")).collect()
    });
    let mut results = results;
    results.sort_by_key(|r| r.0);
    let mut nest_ok = 0u64;
    let mut nest_table = serde_json::Map::new();
    let mut seen_sig = std::collections::BTreeSet::new();
    for (_, (syntax, kind, d, pname), r) in results {
        let key = format!("{syntax}/{kind}/{d}/{pname}");
        match r {
            Err(e) => res.inconclusive.push(format!("cannot run nesting child {key}: {e}")),
            Ok(o) if o.timed_out => {
                nest_table.insert(key.clone(), json!("timeout"));
                res.inconclusive.push(format!("nesting child {key} timed out"));
            }
            Ok(o) => {
                let st = o.status.expect("status");
                res.evaluations += 1;
                if st.success() {
                    nest_ok += 1;
                    res.nontrivial += 1;
                    nest_table.insert(key, json!(o.stdout.lines().find(|l| l.starts_with("NEST")).unwrap_or("ok").replace('\t', " ")));
                } else if st.code() == Some(3) {
                    // in-target problems (panic caught / invalid term)
                    nest_table.insert(key, json!("problem"));
                    let mut f = vec![];
                    parse_fail_lines(&o.stdout, &pname, &mut f);
                    for (_, fl) in f {
                        let sig = format!("{}/{syntax}", fl.signature);
                        if seen_sig.insert(sig.clone()) {
                            res.failures.push((json!({"syntax": "nesting", "text": format!("{syntax} {kind} {d}")}), Failure { signature: sig, detail: format!("nesting {kind} x {d}: {}", fl.detail) }));
                        }
                    }
                } else {
                    nest_table.insert(key, json!(describe_status(&st)));
                    let sig = format!("stack/{syntax}/{kind}");
                    if seen_sig.insert(sig.clone()) {
                        res.failures.push((
                            json!({"syntax": "nesting", "text": format!("{syntax} {kind} {d}")}),
                            Failure {
                                signature: sig,
                                detail: format!(
                                    "{syntax} document with {d} nested '{kind}' parsed on a 2 MiB thread stack in the {pname} binary: child {} ; stderr: {}",
                                    describe_status(&st),
                                    o.stderr_tail
                                ),
                            },
                        ));
                    }
                }
            }
        }
    }
    info.insert("nesting_jobs".into(), json!(njobs));
    info.insert("nesting_ok".into(), json!(nest_ok));
    info.insert("nesting_wall_s".into(), json!(t0.elapsed().as_secs_f64()));
    info.insert("nesting".into(), Value::Object(nest_table));
    info.insert("profiles".into(), json!(bins.iter().map(|b| b.0).collect::<Vec<_>>()));

    // ---- 3. thorough: cargo-fuzz campaign
    if tier == Tier::Thorough {
        fuzz_stage(seed, &mut res, &mut info);
    }
    res.info = Value::Object(info);
    res
}

fn fuzz_stage(seed: u64, res: &mut ExtraResult, info: &mut serde_json::Map<String, Value>) {
    let root = verif_root();
    let fdir = root.join("fuzz");
    if !fdir.join("Cargo.toml").exists() {
        res.inconclusive.push("fuzz crate not found: fuzz stage skipped".into());
        return;
    }
    let runs: u64 = std::env::var("C08_FUZZ_RUNS").ok().and_then(|s| s.parse().ok()).unwrap_or(500_000);
    let targets = ["fuzz_nt_family", "fuzz_turtle_family", "fuzz_xml", "fuzz_jsonld"];
    let t0 = Instant::now();
    // build once
    let hdir = root.join("harness");
    // (cargo-fuzz needs to be started inside a cargo project: the harness crate, with --fuzz-dir)
    if !fdir.join("corpus").join("fuzz_xml").exists() {
        if let Ok(exe) = std::env::current_exe() {
            let _ = Command::new(exe).args(["--worker", "C08", "seeds", fdir.to_str().unwrap_or("fuzz")]).output();
        }
    }
    let b = Command::new("cargo").current_dir(&hdir).args(["+nightly", "fuzz", "build", "-O", "--fuzz-dir", fdir.to_str().unwrap_or("fuzz")]).env("CARGO_NET_OFFLINE", "true").output();
    match b {
        Ok(o) if o.status.success() => {}
        Ok(o) => {
            res.inconclusive.push(format!("cargo fuzz build failed: {}", String::from_utf8_lossy(&o.stderr).lines().rev().take(5).collect::<Vec<_>>().join(" | ")));
            return;
        }
        Err(e) => {
            res.inconclusive.push(format!("cargo fuzz not runnable: {e}"));
            return;
        }
    }
    let outs: Vec<(String, std::io::Result<std::process::Output>)> = std::thread::scope(|s| {
        let hs: Vec<_> = targets
            .iter()
            .flat_map(|t| (0..4u64).map(move |j| (t.to_string(), j)))
            .map(|(t, j)| {
                let fdir = fdir.clone();
                let hdir = hdir.clone();
                s.spawn(move || {
                    let corpus = fdir.join("corpus").join(&t);
                    let work = fdir.join("work").join(format!("{t}-{j}"));
                    let _ = std::fs::create_dir_all(&work);
                    let art = fdir.join("artifacts").join(&t);
                    let _ = std::fs::create_dir_all(&art);
                    let o = crate::engine::unlimited(&mut Command::new("cargo"))
                        .current_dir(&hdir)
                        .args(["+nightly", "fuzz", "run", "-O", "--fuzz-dir", fdir.to_str().unwrap_or("fuzz"), &t, work.to_str().unwrap(), corpus.to_str().unwrap(), "--"])
                        .arg(format!("-seed={}", (seed.wrapping_add(j) % 4_000_000_000).max(1)))
                        .arg(format!("-runs={runs}"))
                        .args(["-len_control=0", "-max_len=4096", "-rss_limit_mb=4096", "-timeout=20"])
                        .arg(format!("-artifact_prefix={}/", art.display()))
                        .env("CARGO_NET_OFFLINE", "true")
                        .output();
                    (format!("{t}-{j}"), o)
                })
            })
            .collect();
        hs.into_iter().map(|h| h.join().expect("fuzz thread")).collect()
    });
    let mut table = serde_json::Map::new();
    for (name, o) in outs {
        match o {
            Err(e) => res.inconclusive.push(format!("fuzz run {name} not runnable: {e}")),
            Ok(o) => {
                let err = String::from_utf8_lossy(&o.stderr).into_owned();
                let done = err.lines().rev().find(|l| l.contains("Done ")).unwrap_or("").to_string();
                let execs: u64 = done.split_whitespace().nth(1).and_then(|x| x.parse().ok()).unwrap_or(0);
                table.insert(name.clone(), json!({"done": done, "ok": o.status.success()}));
                res.evaluations += execs;
                res.nontrivial += execs / 2;
                if !o.status.success() {
                    let crash = err.lines().filter(|l| l.contains("panicked at") || l.contains("ERROR: libFuzzer") || l.contains("C08-ORACLE") || l.contains("Test unit written")).take(6).collect::<Vec<_>>().join(" | ");
                    let oracle_sig = err.lines().find_map(|l| l.split("C08-ORACLE ").nth(1).map(|s| s.split_whitespace().next().unwrap_or("").to_string()));
                    let timeout = err.contains("ERROR: libFuzzer: timeout");
                    if timeout {
                        res.inconclusive.push(format!("fuzz run {name}: libFuzzer timeout: {crash}"));
                    } else {
                        let target = name.rsplit_once('-').map(|x| x.0).unwrap_or(&name).to_string();
                        let sig = oracle_sig.unwrap_or_else(|| format!("fuzz-crash/{target}"));
                        res.failures.push((json!({"fuzz_target": target, "see": "fuzz/artifacts"}), Failure { signature: sig, detail: format!("libFuzzer run {name} failed: {crash}") }));
                    }
                }
            }
        }
    }
    info.insert("fuzz".into(), Value::Object(table));
    info.insert("fuzz_runs_per_job".into(), json!(runs));
    info.insert("fuzz_wall_s".into(), json!(t0.elapsed().as_secs_f64()));
}

pub fn main(opts: &Opts) -> i32 {
    if std::env::var_os("VERIF_SHOW_PANICS").is_none() {
        // json-ld prints a warning on stderr for every malformed IRI it meets: silence fd 2
        unsafe {
            let devnull = libc::open(b"/dev/null\0".as_ptr() as *const libc::c_char, libc::O_WRONLY);
            if devnull >= 0 {
                libc::dup2(devnull, 2);
            }
        }
    }
    drive::<C08>(opts)
}
