//! Model patterns (term / graph-name matchers) with model-side semantics, and their
//! realisation as *real* sophia matchers. `RealTM`/`RealGM` are enums that only
//! delegate `matches`/`constant` to the shipped matcher implementations, so that a
//! store sees exactly what the real matcher answers while the harness needs a single
//! monomorphisation per position.
#![allow(dead_code)]

use crate::engine::pick;
use crate::model::*;
use proptest::prelude::*;
use serde::{Deserialize, Serialize};
use sophia_api::term::matcher::*;
use sophia_api::term::{GraphName, IriRef, LanguageTag, SimpleTerm, Term, TermKind};

type ST = SimpleTerm<'static>;

#[derive(Clone, Debug, Serialize, Deserialize)]
pub enum TPat {
    Any,
    /// `[t]` — a constant
    One(MT),
    /// `Some(t)` (constant) or `None` (matches nothing)
    Opt(Option<MT>),
    /// `[t, u]`
    Two(MT, MT),
    /// `&[..]`
    Slice(Vec<MT>),
    /// `TermKind`
    Kind(u8),
    /// `Not(TermKind)`
    NotKind(u8),
    /// `Not([t])`
    NotOne(MT),
    /// `Any * datatype`
    Dt(String),
    /// `Any * tag`
    Tag(String),
    /// `(S, P, O)` quoted-triple matcher
    Triple(Box<[TPat; 3]>),
    /// closure: "the term, rendered, contains the letter a"
    ClosureHasA,
    /// `.matcher_ref()` of the inner matcher
    Ref(Box<TPat>),
}

pub fn kind_of(n: u8) -> TermKind {
    match n % 5 {
        0 => TermKind::BlankNode,
        1 => TermKind::Iri,
        2 => TermKind::Literal,
        3 => TermKind::Triple,
        _ => TermKind::Variable,
    }
}

fn has_a(t: &MT) -> bool {
    match t {
        MT::Iri(s) | MT::Bnode(s) | MT::Var(s) => s.contains('a'),
        MT::Lit(l, _) | MT::Lang(l, _) => l.contains('a'),
        MT::Triple(t) => t.iter().any(has_a),
    }
}
fn has_a_simple(t: &SimpleTerm<'_>) -> bool {
    match t {
        SimpleTerm::Iri(i) => i.as_str().contains('a'),
        SimpleTerm::BlankNode(b) => b.as_str().contains('a'),
        SimpleTerm::Variable(v) => v.as_str().contains('a'),
        SimpleTerm::LiteralDatatype(l, _) => l.contains('a'),
        SimpleTerm::LiteralLanguage(l, _) => l.contains('a'),
        SimpleTerm::Triple(t) => t.iter().any(has_a_simple),
    }
}

impl TPat {
    /// Model semantics, from the documentation of each matcher.
    pub fn matches(&self, t: &MT) -> bool {
        match self {
            TPat::Any => true,
            TPat::One(x) => x == t,
            TPat::Opt(x) => x.as_ref().map(|x| x == t).unwrap_or(false),
            TPat::Two(x, y) => x == t || y == t,
            TPat::Slice(v) => v.iter().any(|x| x == t),
            TPat::Kind(k) => t.kind() == kind_of(*k),
            TPat::NotKind(k) => t.kind() != kind_of(*k),
            TPat::NotOne(x) => x != t,
            TPat::Dt(d) => t.datatype().map(|x| x == d).unwrap_or(false),
            TPat::Tag(g) => t.tag().map(|x| x.eq_ignore_ascii_case(g)).unwrap_or(false),
            TPat::Triple(spo) => match t {
                MT::Triple(tt) => (0..3).all(|i| spo[i].matches(&tt[i])),
                _ => false,
            },
            TPat::ClosureHasA => has_a(t),
            TPat::Ref(inner) => inner.matches(t),
        }
    }
    /// Is this matcher "bound" (has a constant)?
    pub fn bound(&self) -> bool {
        match self {
            TPat::One(_) | TPat::Opt(Some(_)) => true,
            TPat::Slice(v) => v.len() == 1,
            TPat::Ref(i) => i.bound(),
            _ => false,
        }
    }
    pub fn label(&self) -> &'static str {
        match self {
            TPat::Any => "any",
            TPat::One(_) => "one",
            TPat::Opt(Some(_)) => "some",
            TPat::Opt(None) => "none",
            TPat::Two(..) => "two",
            TPat::Slice(_) => "slice",
            TPat::Kind(_) => "kind",
            TPat::NotKind(_) => "notkind",
            TPat::NotOne(_) => "notone",
            TPat::Dt(_) => "datatype",
            TPat::Tag(_) => "tag",
            TPat::Triple(_) => "triple",
            TPat::ClosureHasA => "closure",
            TPat::Ref(_) => "ref",
        }
    }
    pub fn real(&self) -> RealTM {
        match self {
            TPat::Any => RealTM::Any(Any),
            TPat::One(x) => RealTM::One([x.to_simple()]),
            TPat::Opt(x) => RealTM::Opt(x.as_ref().map(MT::to_simple)),
            TPat::Two(x, y) => RealTM::Two([x.to_simple(), y.to_simple()]),
            TPat::Slice(v) => RealTM::Slice(v.iter().map(MT::to_simple).collect()),
            TPat::Kind(k) => RealTM::Kind(kind_of(*k)),
            TPat::NotKind(k) => RealTM::NotKind(Not(kind_of(*k))),
            TPat::NotOne(x) => RealTM::NotOne(Not([x.to_simple()])),
            TPat::Dt(d) => RealTM::Dt(Any * IriRef::new_unchecked(d.clone())),
            TPat::Tag(t) => RealTM::Tag(Any * LanguageTag::new_unchecked(t.clone())),
            TPat::Triple(spo) => RealTM::Triple(Box::new((spo[0].real(), spo[1].real(), spo[2].real()))),
            TPat::ClosureHasA => RealTM::Closure(Box::new(|t: SimpleTerm<'_>| has_a_simple(&t))),
            TPat::Ref(i) => RealTM::Ref(Box::new(i.real())),
        }
    }
}

pub enum RealTM {
    Any(Any),
    One([ST; 1]),
    Opt(Option<ST>),
    Two([ST; 2]),
    Slice(Vec<ST>),
    Kind(TermKind),
    NotKind(Not<TermKind>),
    NotOne(Not<[ST; 1]>),
    Dt(DatatypeMatcher<String>),
    Tag(LanguageTagMatcher<String>),
    Triple(Box<(RealTM, RealTM, RealTM)>),
    Closure(Box<dyn Fn(SimpleTerm<'_>) -> bool + Send + Sync>),
    Ref(Box<RealTM>),
}

impl TermMatcher for RealTM {
    type Term = ST;
    fn matches<T2: Term + ?Sized>(&self, term: &T2) -> bool {
        match self {
            RealTM::Any(m) => TermMatcher::matches(m, term),
            RealTM::One(m) => m.matches(term),
            RealTM::Opt(m) => m.matches(term),
            RealTM::Two(m) => m.matches(term),
            RealTM::Slice(v) => (&v[..]).matches(term),
            RealTM::Kind(m) => m.matches(term),
            RealTM::NotKind(m) => m.matches(term),
            RealTM::NotOne(m) => m.matches(term),
            RealTM::Dt(m) => m.matches(term),
            RealTM::Tag(m) => m.matches(term),
            RealTM::Triple(m) => m.as_ref().matches(term),
            RealTM::Closure(f) => TermMatcher::matches(f.as_ref(), term),
            RealTM::Ref(m) => m.matcher_ref().matches(term),
        }
    }
    fn constant(&self) -> Option<&ST> {
        match self {
            RealTM::Any(m) => TermMatcher::constant(m),
            RealTM::One(m) => m.constant(),
            RealTM::Opt(m) => m.constant(),
            RealTM::Two(m) => m.constant(),
            RealTM::Slice(v) => {
                // `&[T]`'s constant() borrows from the temporary slice reference; replicate
                // its documented behaviour after checking it on the real implementation
                let s: &[ST] = &v[..];
                let real = s.constant().is_some();
                if real {
                    Some(&v[0])
                } else {
                    None
                }
            }
            RealTM::Kind(m) => m.constant(),
            RealTM::NotKind(m) => m.constant(),
            RealTM::NotOne(m) => m.constant(),
            RealTM::Dt(m) => m.constant(),
            RealTM::Tag(m) => m.constant(),
            RealTM::Triple(m) => m.as_ref().constant(),
            RealTM::Closure(f) => TermMatcher::constant(f.as_ref()),
            RealTM::Ref(m) => {
                let has = m.matcher_ref().constant().is_some();
                if has {
                    m.constant()
                } else {
                    None
                }
            }
        }
    }
}

// ---------------------------------------------------------------- graph-name patterns

#[derive(Clone, Debug, Serialize, Deserialize)]
pub enum GPat {
    Any,
    /// `[g]` — constant
    One(Option<MT>),
    /// `Some(g)` constant / `None` matches nothing
    Opt(Option<Option<MT>>),
    Two(Option<MT>, Option<MT>),
    Slice(Vec<Option<MT>>),
    /// `Some(kind)` or `None::<TermKind>` (default graph only)
    Kind(Option<u8>),
    Not(Box<GPat>),
    /// `tm.gn()`: named graphs matched by a term matcher
    Gn(TPat),
    /// closure: "is a named graph"
    ClosureIsNamed,
    /// `Some((S,P,O))` / `None::<(S,P,O)>`
    TripleOpt(Option<Box<[TPat; 3]>>),
    Ref(Box<GPat>),
}

impl GPat {
    pub fn matches(&self, g: Option<&MT>) -> bool {
        match self {
            GPat::Any => true,
            GPat::One(x) => x.as_ref() == g,
            GPat::Opt(x) => x.as_ref().map(|x| x.as_ref() == g).unwrap_or(false),
            GPat::Two(x, y) => x.as_ref() == g || y.as_ref() == g,
            GPat::Slice(v) => v.iter().any(|x| x.as_ref() == g),
            GPat::Kind(k) => g.map(|t| t.kind()) == k.map(kind_of),
            GPat::Not(i) => !i.matches(g),
            GPat::Gn(tm) => g.map(|t| tm.matches(t)).unwrap_or(false),
            GPat::ClosureIsNamed => g.is_some(),
            GPat::TripleOpt(None) => g.is_none(),
            GPat::TripleOpt(Some(spo)) => match g {
                Some(MT::Triple(tt)) => (0..3).all(|i| spo[i].matches(&tt[i])),
                _ => false,
            },
            GPat::Ref(i) => i.matches(g),
        }
    }
    pub fn bound(&self) -> bool {
        match self {
            GPat::One(_) | GPat::Opt(Some(_)) => true,
            GPat::Slice(v) => v.len() == 1,
            GPat::Gn(t) => t.bound(),
            GPat::Ref(i) => i.bound(),
            _ => false,
        }
    }
    pub fn label(&self) -> &'static str {
        match self {
            GPat::Any => "any",
            GPat::One(None) => "one-default",
            GPat::One(Some(_)) => "one-named",
            GPat::Opt(Some(_)) => "some",
            GPat::Opt(None) => "none",
            GPat::Two(..) => "two",
            GPat::Slice(_) => "slice",
            GPat::Kind(_) => "kind",
            GPat::Not(_) => "not",
            GPat::Gn(_) => "gn",
            GPat::ClosureIsNamed => "closure",
            GPat::TripleOpt(_) => "tripleopt",
            GPat::Ref(_) => "ref",
        }
    }
    pub fn real(&self) -> RealGM {
        let c = |g: &Option<MT>| g.as_ref().map(MT::to_simple);
        match self {
            GPat::Any => RealGM::Any(Any),
            GPat::One(g) => RealGM::One([c(g)]),
            GPat::Opt(g) => RealGM::Opt(g.as_ref().map(c)),
            GPat::Two(g, h) => RealGM::Two([c(g), c(h)]),
            GPat::Slice(v) => RealGM::Slice(v.iter().map(c).collect()),
            GPat::Kind(k) => RealGM::Kind(k.map(kind_of)),
            GPat::Not(i) => RealGM::Not(Box::new(Not(i.real()))),
            GPat::Gn(tm) => RealGM::Gn(tm.real().gn()),
            GPat::ClosureIsNamed => RealGM::Closure(Box::new(|g: GraphName<SimpleTerm<'_>>| g.is_some())),
            GPat::TripleOpt(o) => RealGM::TripleOpt(
                o.as_ref()
                    .map(|spo| (spo[0].real(), spo[1].real(), spo[2].real())),
            ),
            GPat::Ref(i) => RealGM::Ref(Box::new(i.real())),
        }
    }
}

pub enum RealGM {
    Any(Any),
    One([Option<ST>; 1]),
    Opt(Option<Option<ST>>),
    Two([Option<ST>; 2]),
    Slice(Vec<Option<ST>>),
    Kind(Option<TermKind>),
    Not(Box<Not<RealGM>>),
    Gn(TermMatcherGn<RealTM>),
    Closure(Box<dyn Fn(GraphName<SimpleTerm<'_>>) -> bool + Send + Sync>),
    TripleOpt(Option<(RealTM, RealTM, RealTM)>),
    Ref(Box<RealGM>),
}

impl GraphNameMatcher for RealGM {
    type Term = ST;
    fn matches<T2: Term + ?Sized>(&self, g: GraphName<&T2>) -> bool {
        match self {
            RealGM::Any(m) => GraphNameMatcher::matches(m, g),
            RealGM::One(m) => m.matches(g),
            RealGM::Opt(m) => m.matches(g),
            RealGM::Two(m) => m.matches(g),
            RealGM::Slice(v) => (&v[..]).matches(g),
            RealGM::Kind(m) => m.matches(g),
            RealGM::Not(m) => m.as_ref().matches(g),
            RealGM::Gn(m) => m.matches(g),
            RealGM::Closure(f) => GraphNameMatcher::matches(f.as_ref(), g),
            RealGM::TripleOpt(m) => m.matches(g),
            RealGM::Ref(m) => m.matcher_ref().matches(g),
        }
    }
    fn constant(&self) -> Option<GraphName<&ST>> {
        match self {
            RealGM::Any(m) => GraphNameMatcher::constant(m),
            RealGM::One(m) => m.constant(),
            RealGM::Opt(m) => m.constant(),
            RealGM::Two(m) => m.constant(),
            RealGM::Slice(v) => {
                let s: &[Option<ST>] = &v[..];
                if s.constant().is_some() {
                    Some(v[0].as_ref())
                } else {
                    None
                }
            }
            RealGM::Kind(m) => m.constant(),
            RealGM::Not(m) => m.as_ref().constant(),
            RealGM::Gn(m) => m.constant(),
            RealGM::Closure(f) => GraphNameMatcher::constant(f.as_ref()),
            RealGM::TripleOpt(m) => m.constant(),
            RealGM::Ref(m) => {
                if m.matcher_ref().constant().is_some() {
                    m.constant()
                } else {
                    None
                }
            }
        }
    }
}

// ---------------------------------------------------------------- strategies

/// Term pattern over a pool of candidate terms.
pub fn tpat(pool: Vec<MT>, dts: Vec<String>, tags: Vec<String>) -> BoxedStrategy<TPat> {
    let t = pick(pool.clone());
    let leaf = prop_oneof![
        4 => Just(TPat::Any),
        6 => t.clone().prop_map(TPat::One),
        2 => t.clone().prop_map(|x| TPat::Opt(Some(x))),
        1 => Just(TPat::Opt(None)),
        2 => (t.clone(), t.clone()).prop_map(|(a, b)| TPat::Two(a, b)),
        2 => prop::collection::vec(t.clone(), 0..=3).prop_map(TPat::Slice),
        2 => (0u8..5).prop_map(TPat::Kind),
        1 => (0u8..5).prop_map(TPat::NotKind),
        1 => t.clone().prop_map(TPat::NotOne),
        1 => pick(dts).prop_map(TPat::Dt),
        1 => pick(tags).prop_map(TPat::Tag),
        1 => Just(TPat::ClosureHasA),
    ]
    .boxed();
    let l2 = leaf.clone();
    prop_oneof![
        12 => leaf.clone(),
        1 => (l2.clone(), l2.clone(), l2.clone()).prop_map(|(s, p, o)| TPat::Triple(Box::new([s, p, o]))),
        2 => leaf.prop_map(|i| TPat::Ref(Box::new(i))),
    ]
    .boxed()
}

pub fn gpat(gpool: Vec<Option<MT>>, tp: BoxedStrategy<TPat>) -> BoxedStrategy<GPat> {
    let g = pick(gpool);
    let leaf = prop_oneof![
        4 => Just(GPat::Any),
        6 => g.clone().prop_map(GPat::One),
        2 => g.clone().prop_map(|x| GPat::Opt(Some(x))),
        1 => Just(GPat::Opt(None)),
        2 => (g.clone(), g.clone()).prop_map(|(a, b)| GPat::Two(a, b)),
        2 => prop::collection::vec(g.clone(), 0..=3).prop_map(GPat::Slice),
        2 => prop::option::of(0u8..5).prop_map(GPat::Kind),
        2 => tp.clone().prop_map(GPat::Gn),
        1 => Just(GPat::ClosureIsNamed),
        1 => Just(GPat::TripleOpt(None)),
        1 => (tp.clone(), tp.clone(), tp.clone()).prop_map(|(s, p, o)| GPat::TripleOpt(Some(Box::new([s, p, o])))),
    ]
    .boxed();
    prop_oneof![
        10 => leaf.clone(),
        2 => leaf.clone().prop_map(|i| GPat::Not(Box::new(i))),
        2 => leaf.prop_map(|i| GPat::Ref(Box::new(i))),
    ]
    .boxed()
}

#[derive(Clone, Debug, Serialize, Deserialize)]
pub struct QPat {
    pub s: TPat,
    pub p: TPat,
    pub o: TPat,
    pub g: GPat,
}
impl QPat {
    /// the pattern made of four constants selecting exactly `q`
    pub fn exact(q: &MQ) -> QPat {
        QPat {
            s: TPat::One(q.s.clone()),
            p: TPat::One(q.p.clone()),
            o: TPat::One(q.o.clone()),
            g: GPat::One(q.g.clone()),
        }
    }
    pub fn matches(&self, q: &MQ) -> bool {
        self.s.matches(&q.s) && self.p.matches(&q.p) && self.o.matches(&q.o) && self.g.matches(q.g.as_ref())
    }
    /// e.g. "S-OG": which positions are bound
    pub fn shape(&self) -> String {
        format!(
            "{}{}{}{}",
            if self.s.bound() { 'S' } else { '-' },
            if self.p.bound() { 'P' } else { '-' },
            if self.o.bound() { 'O' } else { '-' },
            if self.g.bound() { 'G' } else { '-' }
        )
    }
    pub fn matches_triple(&self, q: &MQ) -> bool {
        self.s.matches(&q.s) && self.p.matches(&q.p) && self.o.matches(&q.o)
    }
}
