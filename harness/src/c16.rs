//! C16 — not implemented yet (stub).
use crate::engine::Opts;
pub fn main(_opts: &Opts) -> i32 {
    eprintln!("C16: check not implemented");
    2
}
pub fn worker(_args: &[String]) -> i32 {
    2
}
