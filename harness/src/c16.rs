//! C16 — stack use does not grow with the amount of data processed.
//!
//! Every scenario runs in a child process (`vcheck --worker C16 <scenario> <N>`), entirely
//! (data construction included) on a `std::thread` with a 2 MiB stack, once with the
//! unoptimised (`dev`) and once with the `release` build of the harness. The oracle is
//! the child's exit status: 0 = the operation completed or returned an error value;
//! death by signal (SIGSEGV / SIGABRT of a stack overflow) = violation; 3 = a panic;
//! watchdog timeout = inconclusive.
use crate::engine::*;
use crate::model::*;
use crate::pat::{GPat, QPat, TPat};
use proptest::prelude::*;
use serde::{Deserialize, Serialize};
use serde_json::{json, Value};
use sophia_api::dataset::{Dataset, MutableDataset};
use sophia_api::graph::{Graph, MutableGraph};
use sophia_api::parser::{QuadParser, TripleParser};
use sophia_api::serializer::{QuadSerializer, Stringifier, TripleSerializer};
use sophia_api::source::{QuadSource, TripleSource};
use sophia_api::sparql::SparqlDataset;
use sophia_api::term::matcher::Any;
use sophia_inmem::dataset::{FastDataset, LightDataset};
use sophia_inmem::graph::{FastGraph, LightGraph};
use std::io::Read;
use std::process::{Command, Stdio};
use std::sync::atomic::{AtomicUsize, Ordering};
use std::sync::Mutex;
use std::time::{Duration, Instant};

const STACK: usize = 2 << 20;

#[derive(Clone, Debug, Serialize, Deserialize)]
pub struct Case {
    pub scenario: String,
    pub n: u64,
    /// "dev" or "release"
    pub profile: String,
}

// ------------------------------------------------------------------ scenarios

#[derive(Clone, Debug)]
struct Scn {
    name: String,
    /// part of the quick tier
    quick: bool,
    /// upper bound on N (quadratic algorithms: larger sizes only time out)
    cap: u64,
    /// slow scenario (scheduled first)
    heavy: bool,
}

const POS: [char; 4] = ['g', 's', 'p', 'o'];

/// Matching-iterator scenarios: `<store>:<shape>:rej-<pos>:vary-<pos>` where shape has
/// one letter per position of g,s,p,o: upper case = bound to a constant, '-' = unbound;
/// for g: 'G' = a named graph, 'D' = the default graph. Graph stores have no g position.
fn iterator_scenarios() -> Vec<Scn> {
    let mut v = vec![];
    for store in ["ld", "fd", "lg", "fg"] {
        let is_ds = store.ends_with('d');
        let first = if is_ds { 0 } else { 1 };
        let npos = 4 - first;
        for mask in 0..(1u32 << npos) {
            let bound: Vec<bool> = (0..4).map(|i| i >= first && (mask >> (i - first)) & 1 == 1).collect();
            let gvars: &[char] = if is_ds && bound[0] { &['G', 'D'] } else { &['-'] };
            for gv in gvars {
                let shape: String = (0..4)
                    .map(|i| {
                        if i == 0 {
                            if is_ds { *gv } else { '.' }
                        } else if bound[i] {
                            POS[i].to_ascii_uppercase()
                        } else {
                            '-'
                        }
                    })
                    .collect();
                for rej in first..4 {
                    if bound[rej] {
                        continue;
                    }
                    for vary in first..4 {
                        if bound[vary] {
                            continue;
                        }
                        // quick tier: the light stores (one index order each) with every
                        // rejecting position, varying the rejected position itself, named
                        // graph constant only; a handful of fast-store index orders
                        let light_quick = (store == "ld" || store == "lg") && vary == rej && *gv != 'D' && {
                            // shapes that select Gspo / Bcd / Cd (resp. Spo / Bc) iterators
                            let b = &bound;
                            if is_ds {
                                (!b[0]) && !b[1] && !b[2] && !b[3] || (b[0] && !b[1] && !b[2] && !b[3]) || (b[0] && b[1] && !b[2] && !b[3])
                            } else {
                                (!b[1] && !b[2] && !b[3]) || (b[1] && !b[2] && !b[3])
                            }
                        };
                        let fast_quick = (store == "fd" || store == "fg")
                            && vary == rej
                            && *gv != 'D'
                            && matches!(
                                shape.as_str(),
                                "---O" | "-S--" | "G-P-" | "G--O" | "--PO" | "-S-O" | ".--O" | ".-P-" | ".S--" | ".---"
                            )
                            && rej == (first..4).rev().find(|i| !bound[*i]).unwrap();
                        v.push(Scn {
                            name: format!("{store}:{shape}:rej-{}:vary-{}", POS[rej], POS[vary]),
                            quick: light_quick || fast_quick,
                            cap: u64::MAX,
                            heavy: false,
                        });
                    }
                }
            }
        }
    }
    v
}

fn scenarios() -> Vec<Scn> {
    let mut v = iterator_scenarios();
    let mut add = |name: &str, quick: bool, cap: u64| {
        let heavy = name.starts_with("sparql:") || name.contains("jsonld") || name.starts_with("mutate:");
        v.push(Scn { name: name.into(), quick, cap, heavy })
    };
    // escaped characters in one literal
    add("escape:nt", true, u64::MAX);
    add("escape:nq", true, u64::MAX);
    add("escape:turtle", true, u64::MAX);
    add("escape:turtle-pretty", true, u64::MAX);
    add("escape:trig-pretty", true, u64::MAX);
    add("escape:rdfxml", false, u64::MAX);
    add("escape:jsonld", false, u64::MAX);
    for (syn, unit, quick) in [
        ("nt", "crlf", true),
        ("nt", "lfcr", false),
        ("nt", "quote", true),
        ("nt", "backslash", false),
        ("nt", "tab", true),
        ("nt", "cr", false),
        ("nt", "backslash-quote", false),
        ("nq", "crlf", false),
        ("turtle", "crlf", true),
        ("turtle-pretty", "crlf", false),
        ("rdfxml", "crlf", false),
        ("jsonld", "crlf", false),
    ] {
        add(&format!("escapeunit:{syn}+{unit}"), quick, u64::MAX);
    }
    // named graphs enumerated by GRAPH ?g
    add("sparql:graph-var", true, u64::MAX);
    add("sparql:graph-var-light", false, u64::MAX);
    // BGP solutions
    add("sparql:bgp-solutions", true, u64::MAX);
    add("sparql:bgp-join", true, u64::MAX);
    add("sparql:bgp-rejected-rows", true, u64::MAX);
    // characters of one literal handled by a SPARQL string function (every second one needs escaping)
    for (f, quick) in [("encode_for_uri", true), ("ucase-lcase", false), ("concat-strlen", false), ("substr-contains", false), ("strbefore-strafter", false), ("str-order", true)] {
        add(&format!("sparql:fn-{f}"), quick, u64::MAX);
    }
    // items of one RDF list
    add("list:jsonld-serialize", true, u64::MAX);
    add("list:jsonld-parse", true, u64::MAX);
    add("list:turtle-pretty", true, 5_000);
    add("list:turtle-parse", true, u64::MAX);
    add("list:resource-items", false, u64::MAX);
    // statements in one document
    for syn in ["nt", "nq", "turtle", "trig", "rdfxml", "jsonld"] {
        add(&format!("parse:{syn}"), true, u64::MAX);
        add(&format!("serialize:{syn}"), true, u64::MAX);
    }
    // long runs of input that yields no statement
    for (syn, gap, quick) in [
        ("nt", "comments", true),
        ("nq", "comments", true),
        ("turtle", "comments", false),
        ("turtle", "prefixes", true),
        ("turtle", "bases", false),
        ("trig", "prefixes", true),
        ("trig", "empty-graphs", true),
        ("rdfxml", "comments", true),
    ] {
        add(&format!("parsegap:{syn}+{gap}"), quick, u64::MAX);
    }
    // the pretty printer is quadratic in the number of statements: bounded by time
    add("serialize:turtle-pretty", true, 10_000);
    add("serialize:trig-pretty", true, 10_000);
    // one subject (in one graph) carrying N statements: stresses everything that walks the
    // statements of a single subject / skips repeats of the same (graph, subject) pair
    add("onesubject:turtle-pretty", true, 600_000);
    add("onesubject:trig-pretty", true, 600_000);
    add("onesubject:turtle", false, u64::MAX);
    add("onesubject:jsonld", false, u64::MAX);
    add("onesubject:rdfxml", false, u64::MAX);
    // one subject and ONE predicate carrying N objects (object lists; `+type`: the predicate is rdf:type,
    // which the pretty printers write through their own `a` path)
    add("onepredicate:turtle-pretty+type", true, 600_000);
    add("onepredicate:turtle-pretty+plain", true, 600_000);
    add("onepredicate:trig-pretty+type", false, 600_000);
    add("onepredicate:turtle+plain", false, u64::MAX);
    add("onepredicate:rdfxml+type", false, u64::MAX);
    add("onepredicate:jsonld+type", false, u64::MAX);
    // stream adapters (filter / filter_map / map, as sources and as iterators) over a parser or an
    // iterator source, the closure rejecting a run of N consecutive statements
    for (src, adapter, quick) in [
        ("nt", "filter", true),
        ("nt", "filter_map", false),
        ("nt", "filter_map.into_iter", true),
        ("nt", "filter+map.into_iter", false),
        ("nq", "filter_map.into_iter", true),
        ("nq", "filter", false),
        ("turtle", "filter_map.into_iter", false),
        ("iter", "filter", false),
        ("iter", "filter_map.into_iter", true),
        ("iter", "filter+filter_map.into_iter", false),
    ] {
        add(&format!("adapter:{src}+{adapter}"), quick, u64::MAX);
    }
    // mutation
    add("mutate:fd-remove-matching", true, u64::MAX);
    add("mutate:ld-retain-matching", true, u64::MAX);
    add("mutate:fg-remove-matching", false, u64::MAX);
    v
}

// ------------------------------------------------------------------ worker side

fn iri(s: String) -> MT {
    MT::Iri(s)
}

fn run_iterator_scenario(name: &str, n: u64) -> Result<String, String> {
    let parts: Vec<&str> = name.split(':').collect();
    if parts.len() != 4 {
        return Err(format!("bad scenario name {name}"));
    }
    let store = parts[0];
    let shape: Vec<char> = parts[1].chars().collect();
    let rej = POS.iter().position(|c| Some(*c) == parts[2].strip_prefix("rej-").and_then(|s| s.chars().next())).ok_or("bad rej")?;
    let vary = POS.iter().position(|c| Some(*c) == parts[3].strip_prefix("vary-").and_then(|s| s.chars().next())).ok_or("bad vary")?;
    // Terms are built once (IRI validation is expensive in unoptimised builds): constants are
    // IRIs, the varying position holds plain literals `"<pos><i>"` (the stores accept any term
    // anywhere), and the rejecting matcher is TermKind::BlankNode: not a constant, matches none.
    use sophia_api::term::{IriRef, SimpleTerm};
    use sophia_api::MownStr;
    let konst = |pos: usize| -> MT { iri(format!("http://x/const-{}", POS[pos])) };
    let consts: Vec<crate::stores::ST> = (0..4).map(|pos| konst(pos).to_simple()).collect();
    let xsd_string: IriRef<MownStr<'static>> = IriRef::new_unchecked(MownStr::from_ref(XSD_STRING));
    let term = |pos: usize, i: u64| -> crate::stores::ST {
        if pos == vary {
            SimpleTerm::LiteralDatatype(MownStr::from(format!("{}{i}", POS[pos])), xsd_string.clone())
        } else {
            consts[pos].clone()
        }
    };
    let named = !matches!(shape[0], 'D' | '.');
    let tp = |pos: usize| -> TPat {
        if pos == rej {
            TPat::Kind(0) // TermKind::BlankNode
        } else if shape[pos] != '-' {
            TPat::One(konst(pos))
        } else {
            TPat::Any
        }
    };
    let gp = match shape[0] {
        'G' => GPat::One(Some(konst(0))),
        'D' => GPat::One(None),
        _ if rej == 0 => GPat::Kind(Some(0)),
        _ => GPat::Any,
    };
    let pat = QPat { s: tp(1), p: tp(2), o: tp(3), g: gp };
    macro_rules! ds {
        ($ty:ty) => {{
            let mut d = <$ty>::new();
            for i in 0..n {
                let g = if named { Some(term(0, i)) } else { None };
                d.insert(term(1, i), term(2, i), term(3, i), g).map_err(|e| e.to_string())?;
            }
            let c = d.quads_matching(pat.s.real(), pat.p.real(), pat.o.real(), pat.g.real()).count();
            let total = d.quads().count();
            Ok(format!("rows={total} matched={c}"))
        }};
    }
    macro_rules! gr {
        ($ty:ty) => {{
            let mut g = <$ty>::new();
            for i in 0..n {
                g.insert(term(1, i), term(2, i), term(3, i)).map_err(|e| e.to_string())?;
            }
            let c = g.triples_matching(pat.s.real(), pat.p.real(), pat.o.real()).count();
            let total = g.triples().count();
            Ok(format!("rows={total} matched={c}"))
        }};
    }
    match store {
        "ld" => ds!(LightDataset),
        "fd" => ds!(FastDataset),
        "lg" => gr!(LightGraph),
        "fg" => gr!(FastGraph),
        _ => Err(format!("unknown store {store}")),
    }
}

fn nasty_literal(n: u64) -> String {
    // every character needs an escape in N-Triples
    let mut s = String::with_capacity(n as usize);
    for i in 0..n {
        s.push(match i % 4 {
            0 => '"',
            1 => '\\',
            2 => '\n',
            _ => '\r',
        });
    }
    s
}

fn list_quads(n: u64) -> Vec<MQ> {
    let first = rdf("first");
    let rest = rdf("rest");
    let mut v = vec![MQ::new(iri("http://x/s".into()), iri("http://x/p".into()), if n == 0 { MT::Iri(rdf("nil")) } else { MT::bn("l0") }, None)];
    for i in 0..n {
        let node = MT::bn(format!("l{i}"));
        v.push(MQ::new(node.clone(), MT::Iri(first.clone()), MT::lit(i.to_string(), xsd("integer")), None));
        let next = if i + 1 == n { MT::Iri(rdf("nil")) } else { MT::bn(format!("l{}", i + 1)) };
        v.push(MQ::new(node, MT::Iri(rest.clone()), next, None));
    }
    v
}

fn statements(n: u64, quads: bool) -> Vec<MQ> {
    (0..n)
        .map(|i| {
            MQ::new(
                iri(format!("http://x/s{}", i / 3)),
                iri(format!("http://x/p{}", i % 7)),
                if i % 2 == 0 { iri(format!("http://x/o{i}")) } else { MT::string(format!("value {i}")) },
                if quads && i % 5 != 0 { Some(iri(format!("http://x/g{}", i % 11))) } else { None },
            )
        })
        .collect()
}

fn nt_line(q: &MQ) -> String {
    fn t(t: &MT) -> String {
        match t {
            MT::Iri(i) => format!("<{i}>"),
            MT::Bnode(b) => format!("_:{b}"),
            MT::Lit(l, d) if d == XSD_STRING => format!("\"{l}\""),
            MT::Lit(l, d) => format!("\"{l}\"^^<{d}>"),
            MT::Lang(l, tag) => format!("\"{l}\"@{tag}"),
            o => o.show(),
        }
    }
    match &q.g {
        None => format!("{} {} {} .\n", t(&q.s), t(&q.p), t(&q.o)),
        Some(g) => format!("{} {} {} {} .\n", t(&q.s), t(&q.p), t(&q.o), t(g)),
    }
}

type STQ = sophia_api::quad::Spog<crate::stores::ST>;
fn quad_source(qs: &[MQ]) -> impl QuadSource + '_ {
    qs.iter().map(|q| Ok::<STQ, std::convert::Infallible>(q.to_spog()))
}
fn triple_source(qs: &[MQ]) -> impl TripleSource + '_ {
    qs.iter().map(|q| Ok::<[crate::stores::ST; 3], std::convert::Infallible>(q.to_triple()))
}

fn pretty_turtle() -> sophia_turtle::serializer::turtle::TurtleConfig {
    sophia_turtle::serializer::turtle::TurtleConfig::new().with_pretty(true)
}

fn serialize(syntax: &str, qs: &[MQ]) -> Result<String, String> {
    use sophia_turtle::serializer::{nq::NqSerializer, nt::NtSerializer, trig::TrigSerializer, turtle::TurtleSerializer};
    let len = match syntax {
        "nt" => NtSerializer::new_stringifier().serialize_triples(triple_source(qs)).map_err(|e| e.to_string())?.as_utf8().len(),
        "nq" => NqSerializer::new_stringifier().serialize_quads(quad_source(qs)).map_err(|e| e.to_string())?.as_utf8().len(),
        "turtle" => TurtleSerializer::new_stringifier().serialize_triples(triple_source(qs)).map_err(|e| e.to_string())?.as_utf8().len(),
        "trig" => TrigSerializer::new_stringifier().serialize_quads(quad_source(qs)).map_err(|e| e.to_string())?.as_utf8().len(),
        "turtle-pretty" => TurtleSerializer::new_stringifier_with_config(pretty_turtle())
            .serialize_triples(triple_source(qs))
            .map_err(|e| e.to_string())?
            .as_utf8()
            .len(),
        "trig-pretty" => TrigSerializer::new_stringifier_with_config(pretty_turtle())
            .serialize_quads(quad_source(qs))
            .map_err(|e| e.to_string())?
            .as_utf8()
            .len(),
        "rdfxml" => sophia_xml::serializer::RdfXmlSerializer::new_stringifier()
            .serialize_triples(triple_source(qs))
            .map_err(|e| e.to_string())?
            .as_utf8()
            .len(),
        "jsonld" => sophia_jsonld::JsonLdSerializer::new_stringifier()
            .serialize_quads(quad_source(qs))
            .map_err(|e| e.to_string())?
            .as_utf8()
            .len(),
        other => return Err(format!("unknown syntax {other}")),
    };
    Ok(format!("bytes={len}"))
}

fn parse(syntax: &str, text: &str) -> Result<String, String> {
    use sophia_turtle::parser::{nq::NQuadsParser, nt::NTriplesParser, trig::TriGParser, turtle::TurtleParser};
    let mut c = 0u64;
    match syntax {
        "nt" => NTriplesParser {}.parse_str(text).for_each_triple(|_| c += 1).map_err(|e| e.to_string())?,
        "nq" => NQuadsParser {}.parse_str(text).for_each_quad(|_| c += 1).map_err(|e| e.to_string())?,
        "turtle" => TurtleParser { base: None }.parse_str(text).for_each_triple(|_| c += 1).map_err(|e| e.to_string())?,
        "trig" => TriGParser { base: None }.parse_str(text).for_each_quad(|_| c += 1).map_err(|e| e.to_string())?,
        "rdfxml" => sophia_xml::parser::RdfXmlParser { base: None }.parse_str(text).for_each_triple(|_| c += 1).map_err(|e| e.to_string())?,
        "jsonld" => sophia_jsonld::JsonLdParser::new().parse_str(text).for_each_quad(|_| c += 1).map_err(|e| e.to_string())?,
        other => return Err(format!("unknown syntax {other}")),
    }
    Ok(format!("statements={c}"))
}

fn document(syntax: &str, n: u64) -> String {
    let quads = matches!(syntax, "nq" | "trig" | "jsonld");
    let qs = statements(n, quads);
    match syntax {
        "nt" | "nq" | "turtle" => qs.iter().map(nt_line).collect(),
        "trig" => qs
            .iter()
            .map(|q| match &q.g {
                None => nt_line(q),
                Some(g) => {
                    let mut q2 = q.clone();
                    q2.g = None;
                    format!("<{}> {{ {} }}\n", if let MT::Iri(i) = g { i.as_str() } else { "" }, nt_line(&q2).trim_end())
                }
            })
            .collect(),
        "rdfxml" => {
            let mut s = String::from("<?xml version=\"1.0\"?>\n<rdf:RDF xmlns:rdf=\"http://www.w3.org/1999/02/22-rdf-syntax-ns#\" xmlns:e=\"http://x/\">\n");
            for i in 0..n {
                s.push_str(&format!("<rdf:Description rdf:about=\"http://x/s{}\"><e:p{}>value {i}</e:p{}></rdf:Description>\n", i / 3, i % 7, i % 7));
            }
            s.push_str("</rdf:RDF>\n");
            s
        }
        _ => {
            // JSON-LD: a flat array of node objects
            let mut s = String::from("[");
            for i in 0..n {
                if i > 0 {
                    s.push(',');
                }
                s.push_str(&format!("{{\"@id\":\"http://x/s{i}\",\"http://x/p{}\":[{{\"@value\":\"value {i}\"}}]}}\n", i % 7));
            }
            s.push(']');
            s
        }
    }
}

fn sparql_count<D: Dataset>(d: &D, q: &str) -> Result<String, String> {
    let w = sophia_sparql::SparqlWrapper(d);
    let res = w.query(q).map_err(|e| e.to_string())?;
    let mut c = 0u64;
    for b in res.into_bindings() {
        b.map_err(|e| e.to_string())?;
        c += 1;
    }
    Ok(format!("solutions={c}"))
}

/// Run one scenario to completion (build the data, run the operation). `Err` = the
/// operation returned an error value (which the property allows).
fn scenario(name: &str, n: u64) -> Result<String, String> {
    if name.starts_with("ld:") || name.starts_with("fd:") || name.starts_with("lg:") || name.starts_with("fg:") {
        return run_iterator_scenario(name, n);
    }
    let (group, what) = name.split_once(':').ok_or_else(|| format!("bad scenario {name}"))?;
    match group {
        "escape" => {
            let q = MQ::new(iri("http://x/s".into()), iri("http://x/p".into()), MT::string(nasty_literal(n)), if what == "nq" || what == "trig-pretty" { Some(iri("http://x/g".into())) } else { None });
            serialize(what, &[q])
        }
        // one literal made of N repetitions of a single escape-relevant unit (a run of one
        // character, or a two-character sequence such as CR LF that a serializer may special-case)
        "escapeunit" => {
            let (syntax, unit) = what.split_once('+').unwrap_or((what, "crlf"));
            let u = match unit {
                "crlf" => "\r\n",
                "lfcr" => "\n\r",
                "quote" => "\"",
                "backslash" => "\\",
                "tab" => "\t",
                "cr" => "\r",
                "backslash-quote" => "\\\"",
                _ => "\n",
            };
            let q = MQ::new(iri("http://x/s".into()), iri("http://x/p".into()), MT::string(u.repeat(n as usize)), if syntax == "nq" || syntax == "trig-pretty" { Some(iri("http://x/g".into())) } else { None });
            serialize(syntax, &[q])
        }
        "sparql" => match what {
            "graph-var" | "graph-var-light" => {
                let qs: Vec<MQ> = (0..n)
                    .map(|i| MQ::new(iri("http://x/s".into()), iri("http://x/p".into()), MT::string("v"), Some(iri(format!("http://x/g{i}")))))
                    .collect();
                let query = "SELECT ?g ?s { GRAPH ?g { ?s ?p ?o } }";
                if what == "graph-var" {
                    let d: FastDataset = quad_source(&qs).collect_quads().map_err(|e| e.to_string())?;
                    sparql_count(&d, query)
                } else {
                    let d: LightDataset = quad_source(&qs).collect_quads().map_err(|e| e.to_string())?;
                    sparql_count(&d, query)
                }
            }
            "bgp-solutions" => {
                let d: FastDataset = quad_source(&statements(n, false)).collect_quads().map_err(|e| e.to_string())?;
                sparql_count(&d, "SELECT * { ?s ?p ?o }")
            }
            "bgp-join" => {
                let mut qs = vec![];
                for i in 0..n {
                    qs.push(MQ::new(iri(format!("http://x/s{i}")), iri("http://x/p".into()), MT::string(format!("{i}")), None));
                    qs.push(MQ::new(iri(format!("http://x/s{i}")), iri("http://x/q".into()), iri(format!("http://x/o{i}")), None));
                }
                let d: FastDataset = quad_source(&qs).collect_quads().map_err(|e| e.to_string())?;
                sparql_count(&d, "SELECT * { ?s <http://x/p> ?v . ?s <http://x/q> ?o }")
            }
            "bgp-rejected-rows" => {
                // a triple pattern with a repeated variable: N rows fetched, all rejected
                let qs: Vec<MQ> = (0..n)
                    .map(|i| MQ::new(iri(format!("http://x/s{i}")), iri("http://x/p".into()), iri(format!("http://x/o{i}")), None))
                    .collect();
                let d: LightDataset = quad_source(&qs).collect_quads().map_err(|e| e.to_string())?;
                sparql_count(&d, "SELECT * { ?x <http://x/p> ?x }")
            }
            f if f.starts_with("fn-") => {
                // one literal of N characters, every second one outside the unreserved set / non-ASCII
                let mut lex = String::with_capacity(n as usize * 2);
                for i in 0..n {
                    lex.push(match i % 4 {
                        0 => 'a',
                        1 => ' ',
                        2 => 'Z',
                        _ => '\u{e9}',
                    });
                }
                let qs = vec![
                    MQ::new(iri("http://x/s".into()), iri("http://x/p".into()), MT::string(lex.clone()), None),
                    MQ::new(iri("http://x/t".into()), iri("http://x/p".into()), MT::string(format!("{lex}!")), None),
                ];
                let d: LightDataset = quad_source(&qs).collect_quads().map_err(|e| e.to_string())?;
                let query = match &f[3..] {
                    "encode_for_uri" => "SELECT (ENCODE_FOR_URI(?o) AS ?r) { ?s <http://x/p> ?o }",
                    "ucase-lcase" => "SELECT (UCASE(?o) AS ?r) (LCASE(?o) AS ?l) { ?s <http://x/p> ?o }",
                    "concat-strlen" => "SELECT (STRLEN(CONCAT(?o, ?o)) AS ?r) { ?s <http://x/p> ?o }",
                    "substr-contains" => "SELECT (SUBSTR(?o, 2) AS ?r) { ?s <http://x/p> ?o FILTER(CONTAINS(?o, \" Z\") && STRSTARTS(?o, \"a\") && !STRENDS(?o, \"?\")) }",
                    "strbefore-strafter" => "SELECT (STRBEFORE(?o, \"!\") AS ?b) (STRAFTER(?o, \"a \") AS ?a) { ?s <http://x/p> ?o }",
                    "str-order" => "SELECT (STR(?o) AS ?r) { ?s <http://x/p> ?o FILTER(?o >= \"a\") } ORDER BY DESC(?o)",
                    other => return Err(format!("unknown function scenario {other}")),
                };
                sparql_count(&d, query)
            }
            _ => Err(format!("unknown scenario {name}")),
        },
        "list" => match what {
            "jsonld-serialize" => serialize("jsonld", &list_quads(n)),
            "turtle-pretty" => serialize("turtle-pretty", &list_quads(n)),
            "jsonld-parse" => {
                let items: Vec<String> = (0..n).map(|i| i.to_string()).collect();
                let doc = format!("{{\"@id\":\"http://x/s\",\"http://x/p\":{{\"@list\":[{}]}}}}", items.join(","));
                parse("jsonld", &doc)
            }
            "turtle-parse" => {
                let items: Vec<String> = (0..n).map(|i| i.to_string()).collect();
                let doc = format!("<http://x/s> <http://x/p> ( {} ) .\n", items.join(" "));
                parse("turtle", &doc)
            }
            "resource-items" => {
                use sophia_resource::{NoLoader, Resource};
                use std::sync::Arc;
                let g: LightGraph = triple_source(&list_quads(n)).collect_triples().map_err(|e| e.to_string())?;
                let r: Resource<LightGraph, NoLoader> = Resource::new(MT::iri("http://x/s").to_simple(), None, Arc::new(g), Arc::new(NoLoader()));
                let c = r.get_term_items(MT::iri("http://x/p").to_simple()).count();
                Ok(format!("items={c}"))
            }
            _ => Err(format!("unknown scenario {name}")),
        },
        "parse" => parse(what, &document(what, n)),
        // N consecutive lines / constructs that yield no statement (comments, empty lines,
        // directives, empty graphs, ignorable XML content), then one statement
        "parsegap" => {
            let (syntax, gap) = what.split_once('+').unwrap_or((what, "comments"));
            let mut doc = String::new();
            if syntax == "rdfxml" {
                doc.push_str("<?xml version=\"1.0\"?>\n<rdf:RDF xmlns:rdf=\"http://www.w3.org/1999/02/22-rdf-syntax-ns#\" xmlns:e=\"http://x/\">\n");
            }
            for i in 0..n {
                match (syntax, gap) {
                    ("rdfxml", _) => doc.push_str(&format!("<!-- comment {i} -->\n")),
                    (_, "comments") => doc.push_str(if i % 2 == 0 { "# a comment\n" } else { "\n" }),
                    (_, "prefixes") => doc.push_str(&format!("@prefix p{}: <http://x/ns{i}#> .\n", i % 50)),
                    (_, "bases") => doc.push_str(&format!("@base <http://x/b{i}/> .\n")),
                    (_, "empty-graphs") => doc.push_str(&format!("<http://x/g{i}> {{ }}\n")),
                    _ => doc.push_str("# c\n"),
                }
            }
            if syntax == "rdfxml" {
                doc.push_str("<rdf:Description rdf:about=\"http://x/s\"><e:p>v</e:p></rdf:Description>\n</rdf:RDF>\n");
            } else {
                doc.push_str("<http://x/s> <http://x/p> <http://x/o> .\n");
            }
            parse(syntax, &doc)
        }
        "serialize" => {
            let quads = matches!(what, "nq" | "trig" | "trig-pretty" | "jsonld");
            serialize(what, &statements(n, quads))
        }
        "onesubject" => {
            let quads = matches!(what, "trig-pretty" | "jsonld");
            let qs: Vec<MQ> = (0..n)
                .map(|i| {
                    MQ::new(
                        iri("http://x/s".into()),
                        iri(format!("http://x/p{}", i % 3)),
                        if i % 2 == 0 { iri(format!("http://x/o{i}")) } else { MT::string(format!("value {i}")) },
                        if quads { Some(iri("http://x/g".into())) } else { None },
                    )
                })
                .collect();
            serialize(what, &qs)
        }
        "onepredicate" => {
            let (syntax, kind) = what.split_once('+').unwrap_or((what, "plain"));
            let quads = matches!(syntax, "trig-pretty" | "jsonld");
            let p = if kind == "type" { "http://www.w3.org/1999/02/22-rdf-syntax-ns#type".to_string() } else { "http://x/p".to_string() };
            let qs: Vec<MQ> = (0..n)
                .map(|i| MQ::new(iri("http://x/s".into()), iri(p.clone()), iri(format!("http://x/C{i}")), if quads { Some(iri("http://x/g".into())) } else { None }))
                .collect();
            serialize(syntax, &qs)
        }
        "adapter" => {
            use sophia_api::quad::Quad as _;
            use sophia_api::term::SimpleTerm;
            use sophia_turtle::parser::{nq::NQuadsParser, nt::NTriplesParser, turtle::TurtleParser};
            let (src, adapter) = what.split_once('+').ok_or("bad adapter scenario")?;
            // N statements to reject, then one to keep
            let mut qs: Vec<MQ> = (0..n).map(|i| MQ::new(iri(format!("http://x/s{}", i % 7)), iri("http://x/reject".into()), MT::string(format!("v{i}")), None)).collect();
            qs.push(MQ::new(iri("http://x/s".into()), iri("http://x/keep".into()), MT::string("kept"), None));
            let text: String = qs.iter().map(nt_line).collect();
            fn keep_t<T: sophia_api::triple::Triple>(t: &T) -> bool {
                use sophia_api::term::Term;
                t.p().iri().map(|i| i.as_str().ends_with("keep")).unwrap_or(false)
            }
            fn keep_q<Q: sophia_api::quad::Quad>(q: &Q) -> bool {
                use sophia_api::term::Term;
                q.p().iri().map(|i| i.as_str().ends_with("keep")).unwrap_or(false)
            }
            fn own<T: sophia_api::triple::Triple>(t: T) -> [sophia_api::term::SimpleTerm<'static>; 3] {
                use sophia_api::term::Term;
                [t.s().into_term(), t.p().into_term(), t.o().into_term()]
            }
            let mut c = 0u64;
            macro_rules! triples {
                ($source:expr) => {
                    match adapter {
                        "filter" => $source.filter_triples(|t| keep_t(t)).for_each_triple(|_| c += 1).map_err(|e| e.to_string())?,
                        "filter_map" => $source.filter_map_triples(|t| if keep_t(&t) { Some(own(t)) } else { None }).for_each_triple(|_| c += 1).map_err(|e| e.to_string())?,
                        "filter_map.into_iter" => {
                            for r in $source.filter_map_triples(|t| if keep_t(&t) { Some(own(t)) } else { None }).into_iter() {
                                r.map_err(|e| e.to_string())?;
                                c += 1;
                            }
                        }
                        "filter+map.into_iter" => {
                            for r in $source.filter_triples(|t| keep_t(t)).map_triples(|t| own(t)).into_iter() {
                                r.map_err(|e| e.to_string())?;
                                c += 1;
                            }
                        }
                        "filter+filter_map.into_iter" => {
                            for r in $source.filter_triples(|t| keep_t(t)).filter_map_triples(|t| Some(own(t))).into_iter() {
                                r.map_err(|e| e.to_string())?;
                                c += 1;
                            }
                        }
                        other => return Err(format!("unknown adapter {other}")),
                    }
                };
            }
            match src {
                "nt" => triples!(NTriplesParser {}.parse_str(&text)),
                "turtle" => triples!(TurtleParser { base: None }.parse_str(&text)),
                "iter" => triples!(triple_source(&qs)),
                "nq" => {
                    let source = NQuadsParser {}.parse_str(&text);
                    match adapter {
                        "filter" => source.filter_quads(|q| keep_q(q)).for_each_quad(|_| c += 1).map_err(|e| e.to_string())?,
                        "filter_map.into_iter" => {
                            use sophia_api::term::Term;
                            for r in source
                                .filter_map_quads(|q| if keep_q(&q) { Some(([q.s().into_term::<SimpleTerm<'static>>(), q.p().into_term(), q.o().into_term()], None::<SimpleTerm<'static>>)) } else { None })
                                .into_iter()
                            {
                                r.map_err(|e| e.to_string())?;
                                c += 1;
                            }
                        }
                        other => return Err(format!("unknown adapter {other}")),
                    }
                }
                other => return Err(format!("unknown source {other}")),
            }
            if c != 1 {
                return Err(format!("kept {c} statements, expected 1"));
            }
            Ok(format!("kept={c}"))
        }
        "mutate" => match what {
            "fd-remove-matching" => {
                let mut d: FastDataset = quad_source(&statements(n, true)).collect_quads().map_err(|e| e.to_string())?;
                let c = d.remove_matching(Any, Any, sophia_api::term::TermKind::Literal, Any).map_err(|e| e.to_string())?;
                Ok(format!("removed={c} left={}", d.quads().count()))
            }
            "ld-retain-matching" => {
                let mut d: LightDataset = quad_source(&statements(n, true)).collect_quads().map_err(|e| e.to_string())?;
                d.retain_matching(Any, Any, sophia_api::term::TermKind::Literal, Any).map_err(|e| e.to_string())?;
                Ok(format!("left={}", d.quads().count()))
            }
            "fg-remove-matching" => {
                let mut g: FastGraph = triple_source(&statements(n, false)).collect_triples().map_err(|e| e.to_string())?;
                let c = g.remove_matching(Any, Any, sophia_api::term::TermKind::Iri).map_err(|e| e.to_string())?;
                Ok(format!("removed={c} left={}", g.triples().count()))
            }
            _ => Err(format!("unknown scenario {name}")),
        },
        _ => Err(format!("unknown scenario {name}")),
    }
}

/// `vcheck --worker C16 <scenario> <N>`
pub fn worker(args: &[String]) -> i32 {
    let Some(name) = args.first().cloned() else { return 2 };
    let n: u64 = args.get(1).and_then(|s| s.parse().ok()).unwrap_or(1000);
    if name == "--list" {
        for s in scenarios() {
            println!("{} quick={} cap={}", s.name, s.quick, s.cap);
        }
        return 0;
    }
    if !scenarios().iter().any(|s| s.name == name) {
        eprintln!("unknown scenario {name}");
        return 2;
    }
    let h = std::thread::Builder::new().stack_size(STACK).spawn(move || scenario(&name, n));
    let h = match h {
        Ok(h) => h,
        Err(e) => {
            eprintln!("cannot spawn the 2 MiB thread: {e}");
            return 2;
        }
    };
    match h.join() {
        Ok(Ok(info)) => {
            println!("OK {info}");
            0
        }
        Ok(Err(e)) => {
            // an error *value* is an acceptable outcome
            println!("ERRVALUE {}", e.chars().take(300).collect::<String>());
            0
        }
        Err(_) => {
            println!("PANIC");
            3
        }
    }
}

// ------------------------------------------------------------------ parent side

#[derive(Debug, Clone, PartialEq)]
enum Verdict {
    Pass(String),
    /// killed by a signal (stack overflow = SIGSEGV or SIGABRT)
    Overflow(String),
    Panic(String),
    Timeout,
    Infra(String),
}

fn binary_for(profile: &str) -> Result<String, String> {
    let var = if profile == "dev" { "VCHECK_DEV" } else { "VCHECK_RELEASE" };
    let p = std::env::var(var).map_err(|_| format!("environment variable {var} is not set (run through ./check C16)"))?;
    if !std::path::Path::new(&p).is_file() {
        return Err(format!("{var}={p} does not exist (build failed?)"));
    }
    Ok(p)
}

fn run_child(scenario: &str, n: u64, profile: &str, timeout: Duration) -> Verdict {
    let bin = match binary_for(profile) {
        Ok(b) => b,
        Err(e) => return Verdict::Infra(e),
    };
    let mut child = match Command::new(&bin)
        .args(["--worker", "C16", scenario, &n.to_string()])
        .stdin(Stdio::null())
        .stdout(Stdio::piped())
        .stderr(Stdio::piped())
        .spawn()
    {
        Ok(c) => c,
        Err(e) => return Verdict::Infra(format!("cannot spawn {bin}: {e}")),
    };
    let t0 = Instant::now();
    let status = loop {
        match child.try_wait() {
            Ok(Some(st)) => break st,
            Ok(None) => {
                if t0.elapsed() > timeout {
                    let _ = child.kill();
                    let _ = child.wait();
                    return Verdict::Timeout;
                }
                std::thread::sleep(Duration::from_millis(20));
            }
            Err(e) => return Verdict::Infra(format!("wait failed: {e}")),
        }
    };
    let mut out = String::new();
    let mut err = String::new();
    if let Some(mut o) = child.stdout.take() {
        let _ = o.read_to_string(&mut out);
    }
    if let Some(mut e) = child.stderr.take() {
        let _ = e.read_to_string(&mut err);
    }
    let tail = |s: &str| s.lines().rev().take(3).collect::<Vec<_>>().join(" / ");
    match status.code() {
        Some(0) => Verdict::Pass(out.trim().chars().take(200).collect()),
        Some(3) => Verdict::Panic(tail(&err)),
        Some(2) => Verdict::Infra(format!("worker refused: {}", tail(&err))),
        Some(c) => Verdict::Overflow(format!("exit code {c}: {}", tail(&err))),
        None => {
            #[cfg(unix)]
            {
                use std::os::unix::process::ExitStatusExt;
                Verdict::Overflow(format!("killed by signal {:?}: {}", status.signal(), tail(&err)))
            }
            #[cfg(not(unix))]
            {
                Verdict::Overflow(format!("abnormal termination: {}", tail(&err)))
            }
        }
    }
}

fn signature(v: &Verdict, scenario: &str, profile: &str) -> String {
    match v {
        Verdict::Panic(_) => format!("panic/{scenario}/{profile}"),
        _ => format!("stack/{scenario}/{profile}"),
    }
}

/// smallest failing N by bisection (the verdict at `hi` is known to be a failure)
fn bisect(scenario: &str, profile: &str, hi: u64, timeout: Duration) -> u64 {
    let (mut lo, mut hi) = (0u64, hi);
    let mut steps = 0;
    while hi - lo > (hi / 20).max(1) && steps < 12 {
        let mid = lo + (hi - lo) / 2;
        match run_child(scenario, mid, profile, timeout) {
            Verdict::Overflow(_) | Verdict::Panic(_) => hi = mid,
            Verdict::Pass(_) => lo = mid,
            _ => break,
        }
        steps += 1;
    }
    hi
}

pub struct C16;

impl Check for C16 {
    fn stall_secs(_tier: Tier) -> Option<u64> {
        None
    }
    type Case = Case;
    const ID: &'static str = "C16";
    fn rule() -> String {
        "one evaluation = one (scenario, N, profile) child process. Scenarios: every bound-position shape x rejecting position x varying position of quads_matching/triples_matching on Light/Fast Dataset/Graph (N rows skipped), N escaped characters in one literal (7 serializers), N named graphs under GRAPH ?g, N BGP solutions / joined / rejected rows, N-item RDF list (JSON-LD out/in, pretty Turtle out, Turtle in, Resource list walk), N statements parsed / serialized in each syntax, bulk removal. Non-trivial = N >= 100000 (the three pretty-printer scenarios, whose algorithm is quadratic, run at N <= 10000 and are therefore never counted as non-trivial). Quick tier: N = 200000 in the release build, N = 100000 in the dev build.".into()
    }
    fn assumptions() -> Vec<String> {
        vec![
            "the whole scenario, data construction included, runs on a std::thread with stack_size(2 MiB) inside the child".into(),
            "exit status 0 (result or error value) = pass; death by signal or unexpected exit code = stack overflow; exit 3 = panic; watchdog timeout = inconclusive".into(),
            "pretty Turtle/TriG scenarios (list of N items, N statements) are capped at N = 5000 / 10000: the pretty printer is quadratic (linear scans of a Vec-backed dataset), larger sizes only time out; the code is iterative (loops), checked by reading".into(),
            "dev = cargo profile dev (opt-level 0) of the harness and all sophia crates, release = profile release".into(),
        ]
    }
    fn cases(_tier: Tier) -> u32 {
        0
    }
    fn strategy(_tier: Tier) -> BoxedStrategy<Case> {
        Just(Case { scenario: "escape:nt".into(), n: 1000, profile: "release".into() }).boxed()
    }
    /// replay / corpus: run the child and judge
    fn run(case: &Case, ctx: &mut Ctx) {
        ctx.class(format!("profile:{}", case.profile));
        let v = run_child(&case.scenario, case.n, &case.profile, Duration::from_secs(300));
        if case.n >= 100_000 {
            ctx.nontrivial();
        }
        match &v {
            Verdict::Pass(_) => ctx.class("pass"),
            Verdict::Timeout => ctx.class("timeout(inconclusive)"),
            Verdict::Infra(e) => {
                ctx.class("infrastructure(inconclusive)");
                eprintln!("C16: {e}");
            }
            Verdict::Overflow(d) | Verdict::Panic(d) => ctx.fail(
                signature(&v, &case.scenario, &case.profile),
                format!("scenario {} with N={} in the {} build on a 2 MiB thread: {d}", case.scenario, case.n, case.profile),
            ),
        }
    }
    fn extra_stage(tier: Tier, seed: u64, _known: &Known) -> ExtraResult {
        let mut ex = ExtraResult::default();
        for p in ["dev", "release"] {
            if let Err(e) = binary_for(p) {
                ex.inconclusive.push(e);
            }
        }
        if !ex.inconclusive.is_empty() {
            return ex;
        }
        let timeout = Duration::from_secs(tier.pick(400, 3000));
        // job list
        let mut jobs: Vec<Case> = vec![];
        let scns = scenarios();
        match tier {
            Tier::Quick => {
                for s in scns.iter().filter(|s| s.quick) {
                    for p in ["dev", "release"] {
                        // the unoptimised build is 10-30x slower: half the size there
                        let mut n = if p == "dev" { 100_000u64 } else { 200_000u64 };
                        // quadratic pretty printer: a tenth of the cap (dev: a fifth of that)
                        if s.cap != u64::MAX {
                            n = if p == "dev" { s.cap / 10 } else { s.cap / 2 };
                        }
                        jobs.push(Case { scenario: s.name.clone(), n, profile: p.into() });
                    }
                }
            }
            Tier::Thorough => {
                let mut x = seed.wrapping_mul(0x9E37_79B9_7F4A_7C15) | 1;
                for s in &scns {
                    for p in ["dev", "release"] {
                        let cap = if p == "dev" && s.cap != u64::MAX { s.cap / 2 } else { s.cap };
                        jobs.push(Case { scenario: s.name.clone(), n: 1_000_000u64.min(cap), profile: p.into() });
                        // one more size, log-uniform in 10^3..10^6
                        x ^= x << 13;
                        x ^= x >> 7;
                        x ^= x << 17;
                        let e = 3.0 + (x % 3000) as f64 / 1000.0;
                        jobs.push(Case { scenario: s.name.clone(), n: (10f64.powf(e) as u64).min(cap), profile: p.into() });
                    }
                }
            }
        }
        // optional restriction to families of scenarios (comma-separated substrings of the
        // scenario name), for partial thorough runs; recorded in the evidence
        let filter = std::env::var("VERIF_C16_FILTER").ok().filter(|f| !f.is_empty());
        if let Some(f) = &filter {
            jobs.retain(|j| f.split(',').any(|part| j.scenario.contains(part)));
        }
        // longest first (heavy scenarios in the dev build), to keep the tail short
        jobs.sort_by_key(|j| {
            let heavy = scns.iter().any(|s| s.name == j.scenario && (s.heavy || s.cap != u64::MAX));
            (!(heavy && j.profile == "dev"), !heavy, j.profile != "dev")
        });
        let workers = tier.pick(12usize, 6usize);
        let next = AtomicUsize::new(0);
        let results: Mutex<Vec<(usize, Verdict, f64)>> = Mutex::new(vec![]);
        std::thread::scope(|sc| {
            for _ in 0..workers {
                sc.spawn(|| loop {
                    let i = next.fetch_add(1, Ordering::SeqCst);
                    if i >= jobs.len() {
                        break;
                    }
                    let j = &jobs[i];
                    let t0 = Instant::now();
                    let v = run_child(&j.scenario, j.n, &j.profile, timeout);
                    results.lock().unwrap().push((i, v, t0.elapsed().as_secs_f64()));
                });
            }
        });
        let mut results = results.into_inner().unwrap();
        results.sort_by_key(|r| r.0);
        let mut table = vec![];
        let mut slowest: Vec<(f64, String)> = vec![];
        for (i, v, secs) in results {
            let j = &jobs[i];
            ex.evaluations += 1;
            if j.n >= 100_000 {
                ex.nontrivial += 1;
            }
            slowest.push((secs, format!("{} N={} {}", j.scenario, j.n, j.profile)));
            let label = match &v {
                Verdict::Pass(_) => "pass",
                Verdict::Overflow(_) => "STACK-OVERFLOW",
                Verdict::Panic(_) => "PANIC",
                Verdict::Timeout => "timeout",
                Verdict::Infra(_) => "infrastructure",
            };
            table.push(json!({"scenario": j.scenario, "n": j.n, "profile": j.profile, "verdict": label, "seconds": (secs * 10.0).round() / 10.0,
                "detail": match &v { Verdict::Pass(s) | Verdict::Overflow(s) | Verdict::Panic(s) | Verdict::Infra(s) => s.clone(), Verdict::Timeout => String::new() }}));
            match &v {
                Verdict::Pass(_) => {}
                Verdict::Timeout => ex.inconclusive.push(format!("timeout after {}s: {} N={} ({})", timeout.as_secs(), j.scenario, j.n, j.profile)),
                Verdict::Infra(e) => ex.inconclusive.push(format!("{} N={} ({}): {e}", j.scenario, j.n, j.profile)),
                Verdict::Overflow(d) | Verdict::Panic(d) => {
                    let min_n = bisect(&j.scenario, &j.profile, j.n, timeout);
                    let case = Case { scenario: j.scenario.clone(), n: min_n, profile: j.profile.clone() };
                    ex.failures.push((
                        serde_json::to_value(&case).unwrap(),
                        Failure {
                            signature: signature(&v, &j.scenario, &j.profile),
                            detail: format!(
                                "scenario {} in the {} build on a 2 MiB thread dies at N={} (smallest failing size found by bisection: about {min_n}): {d}",
                                j.scenario, j.profile, j.n
                            ),
                        },
                    ));
                }
            }
        }
        slowest.sort_by(|a, b| b.0.partial_cmp(&a.0).unwrap());
        ex.info = json!({
            "jobs": table.len(),
            "scenario_filter(VERIF_C16_FILTER)": filter,
            "scenarios_total": scns.len(),
            "scenarios_in_this_tier": jobs.iter().map(|j| j.scenario.clone()).collect::<std::collections::BTreeSet<_>>().len(),
            "slowest": slowest.iter().take(8).map(|(s, n)| format!("{s:.1}s {n}")).collect::<Vec<_>>(),
            "results": table,
        });
        ex
    }
    fn show(case: &Case) -> Value {
        serde_json::to_value(case).unwrap_or(Value::Null)
    }
}

pub fn main(opts: &Opts) -> i32 {
    drive::<C16>(opts)
}
