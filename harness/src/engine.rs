//! Generic driver: proptest-driven generated-input search against an explicit oracle,
//! with sharding over threads, known-finding filtering by signature, corpus replay,
//! shrinking to a replay file, and evidence output.
#![allow(dead_code)]

use proptest::strategy::{BoxedStrategy, Strategy};
use proptest::test_runner::{Config, RngAlgorithm, RngSeed, TestCaseError, TestError, TestRunner};
use serde::de::DeserializeOwned;
use serde::{Deserialize, Serialize};
use serde_json::{json, Value};
use std::cell::RefCell;
use std::collections::{BTreeMap, BTreeSet};
use std::hash::{Hash, Hasher};
use std::path::{Path, PathBuf};
use std::time::Instant;

#[derive(Clone, Copy, Debug, PartialEq, Eq)]
pub enum Tier {
    Quick,
    Thorough,
}
impl Tier {
    pub fn name(self) -> &'static str {
        match self {
            Tier::Quick => "quick",
            Tier::Thorough => "thorough",
        }
    }
    pub fn pick<T>(self, q: T, t: T) -> T {
        match self {
            Tier::Quick => q,
            Tier::Thorough => t,
        }
    }
}

#[derive(Clone, Debug, Serialize, Deserialize)]
pub struct Failure {
    /// Key computed from the *trigger in the input*, used to match known findings.
    pub signature: String,
    pub detail: String,
}

/// Per-case context handed to `Check::run`.
#[derive(Default)]
pub struct Ctx {
    pub classes: Vec<String>,
    pub nontrivial: bool,
    pub fails: Vec<Failure>,
    pub counters: Vec<(String, u64)>,
    /// strict = replay mode (no tolerance of anything)
    pub strict: bool,
}
impl Ctx {
    pub fn class(&mut self, c: impl Into<String>) {
        self.classes.push(c.into());
    }
    pub fn count(&mut self, c: impl Into<String>, n: u64) {
        self.counters.push((c.into(), n));
    }
    pub fn nontrivial(&mut self) {
        self.nontrivial = true;
    }
    pub fn fail(&mut self, signature: impl Into<String>, detail: impl Into<String>) {
        let mut d: String = detail.into();
        if d.len() > 4000 {
            let mut cut = 4000;
            while !d.is_char_boundary(cut) {
                cut -= 1;
            }
            d.truncate(cut);
            d.push_str("…[truncated]");
        }
        self.fails.push(Failure {
            signature: signature.into(),
            detail: d,
        });
    }
    pub fn failed(&self) -> bool {
        !self.fails.is_empty()
    }
}

pub trait Check: 'static {
    type Case: std::fmt::Debug + Clone + Serialize + DeserializeOwned + Send + 'static;
    const ID: &'static str;
    const LEVEL: &'static str = "exploration";
    fn rule() -> String;
    fn assumptions() -> Vec<String> {
        vec![]
    }
    /// number of generated cases (over all shards)
    fn cases(tier: Tier) -> u32;
    fn shards(_tier: Tier) -> u32 {
        16
    }
    fn max_shrink_iters(_tier: Tier) -> u32 {
        2000
    }
    fn strategy(tier: Tier) -> BoxedStrategy<Self::Case>;
    /// deterministic / enumerated cases run before the generated ones
    fn fixed_cases(_tier: Tier, _seed: u64) -> Vec<Self::Case> {
        vec![]
    }
    fn run(case: &Self::Case, ctx: &mut Ctx);
    /// Human-oriented rendering of a case for evidence samples.
    fn show(case: &Self::Case) -> Value {
        serde_json::to_value(case).unwrap_or(Value::Null)
    }
    /// Extra, check-specific coverage information added to the evidence.
    fn extra_evidence(_tier: Tier) -> Value {
        Value::Null
    }
    /// Supervision (see `supervise`): a case running longer than this many seconds is treated as
    /// a hang suspect (reported as inconclusive, skipped, search continues). `None` disables
    /// stall detection (checks whose cases legitimately run for minutes).
    fn stall_secs(_tier: Tier) -> Option<u64> {
        Some(180)
    }
    /// Trigger class of a case that kills the process (used in `process-killed/<trigger>`).
    fn crash_trigger(_case: &Self::Case) -> String {
        "case".into()
    }
    /// Optional extra stage (e.g. a fuzz campaign, child-process scenarios); returns
    /// (evaluations, failures, info)
    fn extra_stage(_tier: Tier, _seed: u64, _known: &Known) -> ExtraResult {
        ExtraResult::default()
    }
}

#[derive(Default)]
pub struct ExtraResult {
    pub evaluations: u64,
    pub nontrivial: u64,
    pub info: Value,
    /// (replay-file content, failure)
    pub failures: Vec<(Value, Failure)>,
    pub inconclusive: Vec<String>,
    pub known_hits: Vec<(String, String)>,
}

// ---------------------------------------------------------------- known findings

#[derive(Clone, Debug, Deserialize, Default)]
pub struct KnownFinding {
    pub property: String,
    pub signature: String,
    pub what: String,
    #[serde(default)]
    pub reproducer: Option<String>,
}
#[derive(Clone, Debug, Deserialize, Default)]
pub struct KnownFile {
    #[serde(default)]
    pub findings: Vec<KnownFinding>,
    #[serde(default)]
    pub fixed: Vec<String>,
}
#[derive(Clone, Debug, Default)]
pub struct Known {
    pub list: Vec<KnownFinding>,
}
impl Known {
    pub fn load(root: &Path, id: &str) -> Known {
        let p = root.join("known_findings.json");
        let kf: KnownFile = match std::fs::read_to_string(&p) {
            Ok(s) => serde_json::from_str(&s).unwrap_or_else(|e| {
                eprintln!("cannot parse {}: {e}", p.display());
                std::process::exit(2)
            }),
            Err(_) => KnownFile::default(),
        };
        Known {
            list: kf.findings.into_iter().filter(|f| f.property == id).collect(),
        }
    }
    pub fn has(&self, sig: &str) -> bool {
        self.list.iter().any(|k| k.signature == sig)
    }
}

// ---------------------------------------------------------------- panic capture

thread_local! {
    static LAST_PANIC: RefCell<Option<String>> = const { RefCell::new(None) };
}

pub fn install_quiet_panic_hook() {
    std::panic::set_hook(Box::new(|info| {
        let loc = info
            .location()
            .map(|l| format!("{}:{}", l.file(), l.line()))
            .unwrap_or_default();
        let msg = if let Some(s) = info.payload().downcast_ref::<&str>() {
            s.to_string()
        } else if let Some(s) = info.payload().downcast_ref::<String>() {
            s.clone()
        } else {
            "<non-string panic>".to_string()
        };
        LAST_PANIC.with(|p| *p.borrow_mut() = Some(format!("{msg} @ {loc}")));
        if std::env::var_os("VERIF_SHOW_PANICS").is_some() {
            eprintln!("panic: {msg} @ {loc}");
        }
    }));
}

/// Run `f`, converting a panic into `Err(message @ location)`.
pub fn catch<R>(f: impl FnOnce() -> R) -> Result<R, String> {
    LAST_PANIC.with(|p| *p.borrow_mut() = None);
    match std::panic::catch_unwind(std::panic::AssertUnwindSafe(f)) {
        Ok(r) => Ok(r),
        Err(_) => Err(LAST_PANIC
            .with(|p| p.borrow_mut().take())
            .unwrap_or_else(|| "<panic>".into())),
    }
}

/// location part ("file:line") of a message produced by `catch`
pub fn panic_site(msg: &str) -> String {
    let site = msg.rsplit(" @ ").next().unwrap_or("");
    // strip the absolute prefix so signatures are stable
    let site = site.trim_start_matches("/repo/");
    // drop the line number: the signature must survive unrelated edits
    site.rsplit_once(':').map(|(f, _)| f).unwrap_or(site).to_string()
}

// ---------------------------------------------------------------- in-flight recording (child side)
//
// When the run is supervised (env VCHECK_INFLIGHT_DIR), every thread writes the case it is about
// to evaluate into its own slot file, so that the supervisor can attribute a process death
// (stack overflow, abort) or a hang to a case. Cases listed in <dir>/skip.json (hashes) are
// skipped: they were attributed in a previous round.

struct Inflight {
    dir: PathBuf,
    skip: std::collections::HashSet<u64>,
}
fn inflight() -> Option<&'static Inflight> {
    static CELL: std::sync::OnceLock<Option<Inflight>> = std::sync::OnceLock::new();
    CELL.get_or_init(|| {
        let dir = PathBuf::from(std::env::var_os("VCHECK_INFLIGHT_DIR")?);
        let skip: std::collections::HashSet<u64> = std::fs::read_to_string(dir.join("skip.json"))
            .ok()
            .and_then(|t| serde_json::from_str::<Vec<u64>>(&t).ok())
            .unwrap_or_default()
            .into_iter()
            .collect();
        Some(Inflight { dir, skip })
    })
    .as_ref()
}
thread_local! {
    static SLOT: RefCell<Option<std::fs::File>> = const { RefCell::new(None) };
}
fn slot_write(bytes: &[u8]) {
    use std::os::unix::fs::FileExt;
    static NEXT: std::sync::atomic::AtomicUsize = std::sync::atomic::AtomicUsize::new(0);
    let Some(inf) = inflight() else { return };
    SLOT.with(|s| {
        let mut s = s.borrow_mut();
        if s.is_none() {
            let n = NEXT.fetch_add(1, std::sync::atomic::Ordering::Relaxed);
            *s = std::fs::OpenOptions::new()
                .create(true)
                .write(true)
                .truncate(true)
                .open(inf.dir.join(format!("slot-{n}.json")))
                .ok();
        }
        if let Some(f) = s.as_mut() {
            let _ = f.write_all_at(bytes, 0);
            let _ = f.set_len(bytes.len() as u64);
        }
    });
}
/// record an unknown failure as soon as it is seen (supervised runs): if the run later hangs or
/// dies on another case, the supervisor can still report this one
fn inflight_found<C: Check>(case: &C::Case, fails: &[Failure]) {
    static NEXT: std::sync::atomic::AtomicUsize = std::sync::atomic::AtomicUsize::new(0);
    let Some(inf) = inflight() else { return };
    let n = NEXT.fetch_add(1, std::sync::atomic::Ordering::Relaxed);
    if n >= 64 {
        return;
    }
    let rf = ReplayFile {
        property: C::ID.into(),
        signature: fails.first().map(|f| f.signature.clone()).unwrap_or_default(),
        detail: fails.iter().map(|f| format!("[{}] {}", f.signature, f.detail)).collect::<Vec<_>>().join("\n"),
        case: serde_json::to_value(case).unwrap_or(Value::Null),
    };
    let _ = std::fs::write(inf.dir.join(format!("found-{n}.json")), serde_json::to_string(&rf).unwrap_or_default());
}

/// mark the current thread as not evaluating any case
pub fn inflight_idle() {
    if inflight().is_some() {
        slot_write(b"");
    }
}

fn run_case<C: Check>(case: &C::Case, strict: bool) -> Ctx {
    let mut ctx = Ctx {
        strict,
        ..Ctx::default()
    };
    if let Some(inf) = inflight() {
        let json = serde_json::to_string(case).unwrap_or_default();
        if !inf.skip.is_empty() {
            let mut h = std::collections::hash_map::DefaultHasher::new();
            json.hash(&mut h);
            if inf.skip.contains(&h.finish()) {
                ctx.class("skipped:crash-or-hang-suspect-of-a-previous-round");
                return ctx;
            }
        }
        slot_write(format!("{{\"case\":{json}}}").as_bytes());
    }
    let r = catch(|| C::run(case, &mut ctx));
    if let Err(msg) = r {
        ctx.fail(
            format!("panic/{}", panic_site(&msg)),
            format!("panic escaped the check body: {msg}"),
        );
    }
    ctx
}

fn hash_case<T: Serialize>(c: &T) -> u64 {
    let s = serde_json::to_string(c).unwrap_or_default();
    let mut h = std::collections::hash_map::DefaultHasher::new();
    s.hash(&mut h);
    h.finish()
}

#[derive(Default)]
struct ShardState {
    evaluations: u64,
    nontrivial: BTreeSet<u64>,
    classes: BTreeMap<String, u64>,
    counters: BTreeMap<String, u64>,
    samples: Vec<Value>,
    known_hits: BTreeMap<String, (u64, Value)>,
    failed: bool,
}
impl ShardState {
    fn absorb<C: Check>(&mut self, case: &C::Case, ctx: &Ctx, known: &Known) -> Vec<Failure> {
        self.evaluations += 1;
        for c in &ctx.classes {
            *self.classes.entry(c.clone()).or_default() += 1;
        }
        for (c, n) in &ctx.counters {
            *self.counters.entry(c.clone()).or_default() += n;
        }
        if ctx.nontrivial {
            let new = self.nontrivial.insert(hash_case(case));
            if new && self.samples.len() < 3 {
                self.samples.push(truncate_value(C::show(case)));
            }
        }
        let mut unknown = vec![];
        for f in &ctx.fails {
            if known.has(&f.signature) {
                let e = self
                    .known_hits
                    .entry(f.signature.clone())
                    .or_insert_with(|| (0, truncate_value(C::show(case))));
                e.0 += 1;
            } else {
                unknown.push(f.clone());
            }
        }
        unknown
    }
}

fn truncate_value(v: Value) -> Value {
    let s = v.to_string();
    if s.len() > 3000 {
        let mut cut = 3000;
        while !s.is_char_boundary(cut) {
            cut -= 1;
        }
        Value::String(format!("{}…[truncated]", &s[..cut]))
    } else {
        v
    }
}

struct ShardOutcome<C: Check> {
    state: ShardState,
    failure: Option<(C::Case, Vec<Failure>)>,
    aborted: Option<String>,
}

fn run_shard<C: Check>(tier: Tier, seed: u64, shard: u32, cases: u32, known: &Known) -> ShardOutcome<C> {
    let mut seed_bytes = [0u8; 32];
    seed_bytes[..8].copy_from_slice(&seed.to_le_bytes());
    seed_bytes[8..12].copy_from_slice(&shard.to_le_bytes());
    seed_bytes[12..16].copy_from_slice(b"vrf1");
    let _ = RngSeed::Random; // (documenting the alternative we do not use)
    let config = Config {
        cases,
        failure_persistence: None,
        max_shrink_iters: C::max_shrink_iters(tier),
        max_global_rejects: 1_000_000,
        max_local_rejects: 1_000_000,
        rng_algorithm: RngAlgorithm::ChaCha,
        ..Config::default()
    };
    let rng = proptest::test_runner::TestRng::from_seed(RngAlgorithm::ChaCha, &seed_bytes);
    let mut runner = TestRunner::new_with_rng(config, rng);
    let state = RefCell::new(ShardState::default());
    let strat = C::strategy(tier);
    let res = runner.run(&strat, |case| {
        let ctx = run_case::<C>(&case, false);
        let mut st = state.borrow_mut();
        if st.failed {
            // shrinking: no more accounting, only decide pass/fail on unknown signatures
            let unknown: Vec<_> = ctx.fails.iter().filter(|f| !known.has(&f.signature)).collect();
            return if unknown.is_empty() {
                Ok(())
            } else {
                Err(TestCaseError::fail(unknown[0].signature.clone()))
            };
        }
        let unknown = st.absorb::<C>(&case, &ctx, known);
        if unknown.is_empty() {
            Ok(())
        } else {
            inflight_found::<C>(&case, &unknown);
            st.failed = true;
            Err(TestCaseError::fail(unknown[0].signature.clone()))
        }
    });
    inflight_idle();
    let state = state.into_inner();
    match res {
        Ok(()) => ShardOutcome {
            state,
            failure: None,
            aborted: None,
        },
        Err(TestError::Fail(_, minimal)) => {
            let ctx = run_case::<C>(&minimal, false);
            let unknown: Vec<Failure> = ctx
                .fails
                .into_iter()
                .filter(|f| !known.has(&f.signature))
                .collect();
            ShardOutcome {
                state,
                failure: Some((minimal, unknown)),
                aborted: None,
            }
        }
        Err(TestError::Abort(r)) => ShardOutcome {
            state,
            failure: None,
            aborted: Some(r.to_string()),
        },
    }
}

pub fn verif_root() -> PathBuf {
    if let Some(p) = std::env::var_os("VERIF_ROOT") {
        return PathBuf::from(p);
    }
    // walk up from the executable: <root>/target/<profile>/<profile>/vcheck
    if let Ok(exe) = std::env::current_exe() {
        let mut d = exe.as_path();
        while let Some(parent) = d.parent() {
            if parent.join("properties.jsonl").exists() && parent.join("harness").exists() {
                return parent.to_path_buf();
            }
            d = parent;
        }
    }
    PathBuf::from("/verif")
}

#[derive(Serialize, Deserialize)]
pub struct ReplayFile {
    pub property: String,
    pub signature: String,
    pub detail: String,
    pub case: Value,
}

pub struct Opts {
    pub tier: Tier,
    pub seed: u64,
    pub replay: Option<PathBuf>,
    pub cases_override: Option<u32>,
}

/// Entry point for one property. Returns the process exit code.
///
/// Unless this process is itself a supervised child (env VCHECK_CHILD) or a replay, the run
/// happens in a child process watched by `supervise`, so that a case that kills the process
/// (stack overflow, abort, allocation failure) becomes a VIOLATION with a replay file instead of
/// a dead harness, and a case that never terminates is reported as inconclusive.
pub fn drive<C: Check>(opts: &Opts) -> i32 {
    if opts.replay.is_none() && std::env::var_os("VCHECK_CHILD").is_none() && std::env::var_os("VCHECK_NO_SUPERVISOR").is_none() {
        return supervise::<C>(opts);
    }
    drive_inner::<C>(opts)
}

enum Verdict {
    Innocent,
    Crash(String),
    Hang,
}

/// address-space limit of supervised children (runaway allocation must abort, not take the machine down)
const CHILD_AS_LIMIT: u64 = 40 << 30;

fn limited(cmd: &mut std::process::Command) -> &mut std::process::Command {
    use std::os::unix::process::CommandExt;
    unsafe {
        cmd.pre_exec(|| {
            // only the soft limit: descendants that need a huge address space (sanitizers reserve
            // terabytes of shadow memory) can raise it again, see `unlimited`
            let mut lim = libc::rlimit { rlim_cur: 0, rlim_max: 0 };
            if libc::getrlimit(libc::RLIMIT_AS, &mut lim) == 0 {
                lim.rlim_cur = if lim.rlim_max == libc::RLIM_INFINITY { CHILD_AS_LIMIT } else { CHILD_AS_LIMIT.min(lim.rlim_max) };
                libc::setrlimit(libc::RLIMIT_AS, &lim);
            }
            Ok(())
        })
    }
}

/// For commands that run sanitizer-instrumented binaries (ASan, libFuzzer): lift the soft
/// address-space limit set by the supervisor back to the hard limit.
pub fn unlimited(cmd: &mut std::process::Command) -> &mut std::process::Command {
    use std::os::unix::process::CommandExt;
    unsafe {
        cmd.pre_exec(|| {
            let mut lim = libc::rlimit { rlim_cur: 0, rlim_max: 0 };
            if libc::getrlimit(libc::RLIMIT_AS, &mut lim) == 0 {
                lim.rlim_cur = lim.rlim_max;
                libc::setrlimit(libc::RLIMIT_AS, &lim);
            }
            Ok(())
        })
    }
}

fn wait_timeout(child: &mut std::process::Child, secs: u64) -> Option<std::process::ExitStatus> {
    let t0 = Instant::now();
    loop {
        match child.try_wait() {
            Ok(Some(st)) => return Some(st),
            Ok(None) => {}
            Err(_) => return None,
        }
        if t0.elapsed().as_secs() >= secs {
            let _ = child.kill();
            let _ = child.wait();
            return None;
        }
        std::thread::sleep(std::time::Duration::from_millis(50));
    }
}

fn supervise<C: Check>(opts: &Opts) -> i32 {
    use std::process::{Command, Stdio};
    let root = verif_root();
    let known = Known::load(&root, C::ID);
    let exe = match std::env::current_exe() {
        Ok(e) => e,
        Err(_) => return drive_inner::<C>(opts),
    };
    let dir = root.join("replays").join(format!(".inflight-{}-{}", C::ID, std::process::id()));
    let _ = std::fs::remove_dir_all(&dir);
    if std::fs::create_dir_all(&dir).is_err() {
        return drive_inner::<C>(opts);
    }
    let mut args: Vec<String> = vec![C::ID.into(), "--tier".into(), opts.tier.name().into(), "--seed".into(), opts.seed.to_string()];
    if let Some(n) = opts.cases_override {
        args.push("--cases".into());
        args.push(n.to_string());
    }
    let stall = C::stall_secs(opts.tier);
    let mut skip: Vec<u64> = vec![];
    let mut crash_violations = 0usize;
    let mut notes: Vec<String> = vec![];
    let mut known_lines: BTreeMap<String, String> = BTreeMap::new();
    let mut final_code: Option<i32> = None;
    let mut serial = 0usize;
    for _round in 0..4 {
        // fresh slots
        if let Ok(rd) = std::fs::read_dir(&dir) {
            for e in rd.filter_map(|e| e.ok()) {
                let n = e.file_name().to_string_lossy().to_string();
                if n.starts_with("slot-") || n.starts_with("found-") || n.starts_with("probe-") {
                    let _ = std::fs::remove_file(e.path());
                }
            }
        }
        let _ = std::fs::write(dir.join("skip.json"), serde_json::to_string(&skip).unwrap_or_default());
        let out_path = dir.join("stdout.txt");
        let out_file = match std::fs::File::create(&out_path) {
            Ok(f) => f,
            Err(_) => return drive_inner::<C>(opts),
        };
        let mut child = match limited(
            Command::new(&exe)
                .args(&args)
                .env("VCHECK_CHILD", "1")
                .env("VCHECK_INFLIGHT_DIR", &dir)
                .stdout(Stdio::from(out_file)),
        )
        .spawn()
        {
            Ok(c) => c,
            Err(_) => return drive_inner::<C>(opts),
        };
        // monitor
        let mut stalled = false;
        let status = loop {
            match child.try_wait() {
                Ok(Some(st)) => break Some(st),
                Ok(None) => {}
                Err(_) => break None,
            }
            if let Some(limit) = stall {
                let now = std::time::SystemTime::now();
                let mut oldest = 0u64;
                if let Ok(rd) = std::fs::read_dir(&dir) {
                    for e in rd.filter_map(|e| e.ok()) {
                        if !e.file_name().to_string_lossy().starts_with("slot-") {
                            continue;
                        }
                        if let Ok(md) = e.metadata() {
                            if md.len() == 0 {
                                continue;
                            }
                            if let Ok(age) = now.duration_since(md.modified().unwrap_or(now)) {
                                oldest = oldest.max(age.as_secs());
                            }
                        }
                    }
                }
                if oldest > limit {
                    stalled = true;
                    let _ = child.kill();
                    let _ = child.wait();
                    break None;
                }
            }
            std::thread::sleep(std::time::Duration::from_millis(200));
        };
        let out_txt = std::fs::read_to_string(&out_path).unwrap_or_default();
        let code = status.and_then(|s| s.code());
        if let (false, Some(c @ (0 | 1 | 2))) = (stalled, code) {
            print!("{out_txt}");
            final_code = Some(c);
            break;
        }
        // the child was killed (by a signal, or by us after a stall): attribute it
        println!(
            "{}: the run {} ; examining the in-flight cases in fresh processes",
            C::ID,
            if stalled {
                format!("made no progress on a case for more than {} s", stall.unwrap_or(0))
            } else {
                format!("was killed ({status:?})")
            }
        );
        // failures already seen by the killed run (not shrunk): report them now
        let mut found_files: Vec<PathBuf> = std::fs::read_dir(&dir)
            .map(|rd| rd.filter_map(|e| e.ok()).map(|e| e.path()).collect())
            .unwrap_or_default();
        found_files.retain(|p| p.file_name().map(|n| n.to_string_lossy().starts_with("found-")).unwrap_or(false));
        found_files.sort();
        let mut seen_sigs = BTreeSet::new();
        for f in &found_files {
            let Ok(txt) = std::fs::read_to_string(f) else { continue };
            let Ok(rf) = serde_json::from_str::<ReplayFile>(&txt) else { continue };
            if !seen_sigs.insert(rf.signature.clone()) {
                continue;
            }
            let path = root.join("replays").join(format!("{}-{}-early{}.json", C::ID, opts.seed, serial));
            serial += 1;
            let _ = std::fs::write(&path, serde_json::to_string_pretty(&rf).unwrap_or_default());
            println!("VIOLATION property={} replay={}", C::ID, path.display());
            println!("  signature: {}", rf.signature);
            for l in rf.detail.lines().take(20) {
                println!("  | {l}");
            }
            crash_violations += 1;
        }
        let mut slots: Vec<PathBuf> = std::fs::read_dir(&dir)
            .map(|rd| rd.filter_map(|e| e.ok()).map(|e| e.path()).collect())
            .unwrap_or_default();
        slots.retain(|p| p.file_name().map(|n| n.to_string_lossy().starts_with("slot-")).unwrap_or(false));
        slots.sort();
        let mut attributed = 0;
        let probe_secs = stall.unwrap_or(120).clamp(20, 45);
        // probe all in-flight cases in parallel, each in a fresh process
        let mut probes: Vec<(C::Case, String, Option<std::process::Child>)> = vec![];
        for (i, f) in slots.iter().enumerate() {
            let txt = std::fs::read_to_string(f).unwrap_or_default();
            if txt.trim().is_empty() {
                continue;
            }
            let Ok(v) = serde_json::from_str::<Value>(&txt) else { continue };
            let Ok(case) = serde_json::from_value::<C::Case>(v["case"].clone()) else { continue };
            let tmp = dir.join(format!("probe-{i}.json"));
            let _ = std::fs::write(&tmp, &txt);
            let ch = limited(
                Command::new(&exe)
                    .args([C::ID, "--replay"])
                    .arg(&tmp)
                    .env("VCHECK_CHILD", "1")
                    .env_remove("VCHECK_INFLIGHT_DIR")
                    .stdout(Stdio::null())
                    .stderr(Stdio::null()),
            )
            .spawn()
            .ok();
            probes.push((case, txt, ch));
        }
        let t_probe = Instant::now();
        for (case, txt, ch) in probes {
            let verdict = match ch {
                None => Verdict::Innocent,
                Some(mut ch) => {
                    let left = probe_secs.saturating_sub(t_probe.elapsed().as_secs()).max(1);
                    match wait_timeout(&mut ch, left) {
                        None => Verdict::Hang,
                        Some(st) => match st.code() {
                            Some(0 | 1 | 2) => Verdict::Innocent,
                            _ => Verdict::Crash(format!("{st:?}")),
                        },
                    }
                }
            };
            let h = hash_case(&case);
            match verdict {
                Verdict::Innocent => {}
                Verdict::Crash(st) => {
                    attributed += 1;
                    skip.push(h);
                    let sig = format!("process-killed/{}", C::crash_trigger(&case));
                    if let Some(k) = known.list.iter().find(|k| k.signature == sig) {
                        known_lines.insert(sig, k.what.clone());
                        continue;
                    }
                    let path = root.join("replays").join(format!("{}-{}-crash{}.json", C::ID, opts.seed, serial));
                    serial += 1;
                    let rf = ReplayFile {
                        property: C::ID.into(),
                        signature: sig.clone(),
                        detail: format!("evaluating this case kills the process ({st}) instead of returning a value or an error"),
                        case: serde_json::to_value(&case).unwrap_or(Value::Null),
                    };
                    let _ = std::fs::write(&path, serde_json::to_string_pretty(&rf).unwrap_or_default());
                    println!("VIOLATION property={} replay={}", C::ID, path.display());
                    println!("  signature: {sig}");
                    println!("  | {}", rf.detail);
                    crash_violations += 1;
                }
                Verdict::Hang => {
                    attributed += 1;
                    skip.push(h);
                    let path = root.join("replays").join(format!("{}-{}-hang{}.json", C::ID, opts.seed, serial));
                    serial += 1;
                    let _ = std::fs::write(&path, &txt);
                    notes.push(format!(
                        "a case did not terminate within {probe_secs} s (hang suspect, skipped; not counted as a violation): {}",
                        path.display()
                    ));
                }
            }
        }
        if !found_files.is_empty() {
            // a genuine failure is already reported: no need for further rounds
            final_code = Some(1);
            break;
        }
        // fresh found-/probe- files for the next round are removed with the slots below
        if attributed == 0 {
            notes.push("the run was killed but no in-flight case reproduces it".into());
            final_code = Some(2);
            break;
        }
    }
    let _ = std::fs::remove_dir_all(&dir);
    for (sig, what) in &known_lines {
        println!("KNOWN-FINDING: property={} [{}] {}", C::ID, sig, what);
    }
    for n in &notes {
        println!("INCONCLUSIVE: {n}");
    }
    let code = final_code.unwrap_or(2);
    if crash_violations > 0 || code == 1 {
        1
    } else if !notes.is_empty() || code == 2 {
        2
    } else {
        0
    }
}

fn drive_inner<C: Check>(opts: &Opts) -> i32 {
    install_quiet_panic_hook();
    let root = verif_root();
    let known = Known::load(&root, C::ID);
    if let Some(p) = &opts.replay {
        return replay::<C>(p);
    }
    let t0 = Instant::now();
    let tier = opts.tier;
    let mut violations: Vec<(Value, Vec<Failure>)> = vec![];
    let mut inconclusive: Vec<String> = vec![];
    let mut total = ShardState::default();
    let mut known_lines: BTreeMap<String, String> = BTreeMap::new();

    // 1. corpus replay (saved reproducers and interesting passing cases)
    let mut corpus_n = 0u64;
    let cdir = root.join("corpus").join(C::ID);
    let mut files: Vec<PathBuf> = std::fs::read_dir(&cdir)
        .map(|rd| rd.filter_map(|e| e.ok()).map(|e| e.path()).collect())
        .unwrap_or_default();
    files.retain(|p| p.extension().map(|e| e == "json").unwrap_or(false));
    files.sort();
    for f in &files {
        let txt = std::fs::read_to_string(f).unwrap_or_default();
        let v: Value = match serde_json::from_str(&txt) {
            Ok(v) => v,
            Err(e) => {
                inconclusive.push(format!("corpus file {} unreadable: {e}", f.display()));
                continue;
            }
        };
        let cv = v.get("case").cloned().unwrap_or(v);
        let case: C::Case = match serde_json::from_value(cv) {
            Ok(c) => c,
            Err(e) => {
                inconclusive.push(format!("corpus file {} does not decode: {e}", f.display()));
                continue;
            }
        };
        corpus_n += 1;
        let ctx = run_case::<C>(&case, false);
        let unknown = total.absorb::<C>(&case, &ctx, &known);
        for fl in &ctx.fails {
            if let Some(k) = known.list.iter().find(|k| k.signature == fl.signature) {
                known_lines.insert(k.signature.clone(), k.what.clone());
            }
        }
        if !unknown.is_empty() {
            inflight_found::<C>(&case, &unknown);
            violations.push((serde_json::to_value(&case).unwrap(), unknown));
        }
    }

    inflight_idle();

    // 2. fixed / enumerated cases
    let fixed = C::fixed_cases(tier, opts.seed);
    let fixed_n = fixed.len() as u64;
    if violations.is_empty() {
        // run in parallel chunks
        let nthreads = 16usize;
        let chunks: Vec<Vec<C::Case>> = {
            let mut cs: Vec<Vec<C::Case>> = (0..nthreads).map(|_| vec![]).collect();
            for (i, c) in fixed.into_iter().enumerate() {
                cs[i % nthreads].push(c);
            }
            cs
        };
        let results: Vec<(ShardState, Vec<(C::Case, Vec<Failure>)>)> = std::thread::scope(|s| {
            let hs: Vec<_> = chunks
                .into_iter()
                .map(|chunk| {
                    let known = &known;
                    std::thread::Builder::new()
                        .stack_size(256 << 20)
                        .spawn_scoped(s, move || {
                            let mut st = ShardState::default();
                            let mut fails = vec![];
                            for c in chunk {
                                let ctx = run_case::<C>(&c, false);
                                let unknown = st.absorb::<C>(&c, &ctx, known);
                                if !unknown.is_empty() && fails.len() < 3 {
                                    inflight_found::<C>(&c, &unknown);
                                    fails.push((c, unknown));
                                }
                            }
                            inflight_idle();
                            (st, fails)
                        })
                        .unwrap()
                })
                .collect();
            hs.into_iter().map(|h| h.join().expect("fixed-case thread")).collect()
        });
        for (st, fails) in results {
            merge(&mut total, st);
            for (c, f) in fails {
                violations.push((serde_json::to_value(&c).unwrap(), f));
            }
        }
    }

    // 3. generated cases, sharded
    let cases = opts.cases_override.unwrap_or_else(|| C::cases(tier));
    let shards = C::shards(tier).max(1).min(cases.max(1));
    if violations.is_empty() && cases > 0 {
        let outcomes: Vec<ShardOutcome<C>> = std::thread::scope(|s| {
            let hs: Vec<_> = (0..shards)
                .map(|i| {
                    let known = &known;
                    let n = cases / shards + if i < cases % shards { 1 } else { 0 };
                    let seed = opts.seed;
                    std::thread::Builder::new()
                        .stack_size(256 << 20)
                        .spawn_scoped(s, move || run_shard::<C>(tier, seed, i, n, known))
                        .unwrap()
                })
                .collect();
            hs.into_iter().map(|h| h.join().expect("shard thread")).collect()
        });
        for o in outcomes {
            merge(&mut total, o.state);
            if let Some((case, fails)) = o.failure {
                violations.push((serde_json::to_value(&case).unwrap(), fails));
            }
            if let Some(a) = o.aborted {
                inconclusive.push(format!("proptest aborted: {a}"));
            }
        }
    }

    // 4. extra stage
    let mut extra_info = Value::Null;
    if violations.is_empty() {
        let ex = C::extra_stage(tier, opts.seed, &known);
        total.evaluations += ex.evaluations;
        extra_info = ex.info;
        for (sig, what) in ex.known_hits {
            known_lines.insert(sig, what);
        }
        // extra-stage nontrivial cases are counted by the stage itself (distinct by construction)
        for i in 0..ex.nontrivial {
            total.nontrivial.insert(0xE000_0000_0000_0000u64 ^ i);
        }
        for (v, f) in ex.failures {
            if known.has(&f.signature) {
                if let Some(k) = known.list.iter().find(|k| k.signature == f.signature) {
                    known_lines.insert(k.signature.clone(), k.what.clone());
                }
            } else {
                violations.push((v, vec![f]));
            }
        }
        inconclusive.extend(ex.inconclusive);
    }

    // known findings: replay each listed reproducer (done through corpus above when the
    // reproducer lives in corpus/<ID>/); also list the ones hit by generated cases
    for k in &known.list {
        if let Some(r) = &k.reproducer {
            let p = root.join(r);
            if let Ok(txt) = std::fs::read_to_string(&p) {
                if let Ok(v) = serde_json::from_str::<Value>(&txt) {
                    let cv = v.get("case").cloned().unwrap_or(v);
                    if let Ok(case) = serde_json::from_value::<C::Case>(cv) {
                        let ctx = run_case::<C>(&case, false);
                        if ctx.fails.iter().any(|f| f.signature == k.signature) {
                            known_lines.insert(k.signature.clone(), k.what.clone());
                        }
                    }
                }
            }
        }
        if total.known_hits.contains_key(&k.signature) {
            known_lines.insert(k.signature.clone(), k.what.clone());
        }
    }
    for (sig, what) in &known_lines {
        println!("KNOWN-FINDING: property={} [{}] {}", C::ID, sig, what);
    }

    // one report per distinct signature
    {
        let mut seen = BTreeSet::new();
        violations.retain(|(_, fails)| {
            let sig = fails.first().map(|f| f.signature.clone()).unwrap_or_default();
            seen.insert(sig)
        });
    }
    // write replay files + VIOLATION lines
    let mut code = 0;
    let rdir = root.join("replays");
    let _ = std::fs::create_dir_all(&rdir);
    for (n, (case, fails)) in violations.iter().enumerate() {
        let f0 = fails.first().cloned().unwrap_or(Failure {
            signature: "unknown".into(),
            detail: String::new(),
        });
        let path = rdir.join(format!("{}-{}-{}.json", C::ID, opts.seed, n));
        let rf = ReplayFile {
            property: C::ID.into(),
            signature: f0.signature.clone(),
            detail: fails
                .iter()
                .map(|f| format!("[{}] {}", f.signature, f.detail))
                .collect::<Vec<_>>()
                .join("\n"),
            case: case.clone(),
        };
        let _ = std::fs::write(&path, serde_json::to_string_pretty(&rf).unwrap());
        println!("VIOLATION property={} replay={}", C::ID, path.display());
        println!("  signature: {}", f0.signature);
        for l in f0.detail.lines().take(40) {
            println!("  | {l}");
        }
        code = 1;
    }

    // evidence
    let wall = t0.elapsed().as_secs_f64();
    let known_hits: BTreeMap<String, Value> = total
        .known_hits
        .iter()
        .map(|(k, (n, ex))| (k.clone(), json!({"hits": n, "example": ex})))
        .collect();
    let mut samples = total.samples.clone();
    if samples.is_empty() {
        samples.push(Value::String("(no non-trivial sample recorded)".into()));
    }
    let ev = json!({
        "property_id": C::ID,
        "tier": tier.name(),
        "seed": opts.seed,
        "level": C::LEVEL,
        "coverage": {
            "evaluations": total.evaluations,
            "distinct_nontrivial": total.nontrivial.len(),
            "rule": C::rule(),
            "samples": samples,
            "classes": total.classes,
            "counters": total.counters,
            "corpus_cases_replayed": corpus_n,
            "fixed_cases": fixed_n,
            "generated_cases_requested": cases,
            "shards": shards,
            "known_finding_hits": known_hits,
            "extra_stage": extra_info,
            "check_specific": C::extra_evidence(tier),
            "inconclusive": inconclusive,
            "suspect_cases_skipped_in_this_round": inflight().map(|i| i.skip.len()).unwrap_or(0),
        },
        "assumptions": C::assumptions(),
        "wall_s": wall,
        "violations": violations.len(),
    });
    let edir = root.join("evidence");
    let _ = std::fs::create_dir_all(&edir);
    let epath = edir.join(format!("{}.json", C::ID));
    if let Err(e) = std::fs::write(&epath, serde_json::to_string_pretty(&ev).unwrap()) {
        eprintln!("cannot write evidence {}: {e}", epath.display());
        if code == 0 {
            code = 2;
        }
    }
    println!(
        "{} tier={} seed={} evaluations={} distinct_nontrivial={} known_hits={} violations={} wall={:.1}s",
        C::ID,
        tier.name(),
        opts.seed,
        total.evaluations,
        total.nontrivial.len(),
        total.known_hits.values().map(|v| v.0).sum::<u64>(),
        violations.len(),
        wall
    );
    if code == 0 && !inconclusive.is_empty() {
        for i in &inconclusive {
            println!("INCONCLUSIVE: {i}");
        }
        code = 2;
    }
    code
}

fn merge(total: &mut ShardState, st: ShardState) {
    total.evaluations += st.evaluations;
    total.nontrivial.extend(st.nontrivial);
    for (k, v) in st.classes {
        *total.classes.entry(k).or_default() += v;
    }
    for (k, v) in st.counters {
        *total.counters.entry(k).or_default() += v;
    }
    for s in st.samples {
        if total.samples.len() < 5 {
            total.samples.push(s);
        }
    }
    for (k, (n, ex)) in st.known_hits {
        let e = total.known_hits.entry(k).or_insert((0, ex));
        e.0 += n;
    }
}

fn replay<C: Check>(p: &Path) -> i32 {
    let txt = match std::fs::read_to_string(p) {
        Ok(t) => t,
        Err(e) => {
            eprintln!("cannot read {}: {e}", p.display());
            return 2;
        }
    };
    let v: Value = match serde_json::from_str(&txt) {
        Ok(v) => v,
        Err(e) => {
            eprintln!("cannot parse {}: {e}", p.display());
            return 2;
        }
    };
    let cv = v.get("case").cloned().unwrap_or(v);
    let case: C::Case = match serde_json::from_value(cv) {
        Ok(c) => c,
        Err(e) => {
            eprintln!("replay file does not decode as a {} case: {e}", C::ID);
            return 2;
        }
    };
    let ctx = run_case::<C>(&case, true);
    if ctx.fails.is_empty() {
        println!("{} replay {}: property holds on this case", C::ID, p.display());
        0
    } else {
        println!("VIOLATION property={} replay={}", C::ID, p.display());
        for f in &ctx.fails {
            println!("  signature: {}", f.signature);
            for l in f.detail.lines().take(60) {
                println!("  | {l}");
            }
        }
        1
    }
}

// ---------------------------------------------------------------- strategy helpers

/// Pick from a slice by a monotone index map (so shrinking moves towards element 0).
pub fn pick<T: Clone + std::fmt::Debug + 'static>(items: Vec<T>) -> BoxedStrategy<T> {
    assert!(!items.is_empty());
    let n = items.len();
    (0..n).prop_map(move |i| items[i].clone()).boxed()
}

pub fn pick_str(items: &[&str]) -> BoxedStrategy<String> {
    pick(items.iter().map(|s| s.to_string()).collect())
}
