//! C01 — in-memory graphs/datasets behave exactly like a mathematical set of quads
//! (vector-backed ones like the corresponding list).
//!
//! One case = one operation history (insert / remove / insert_all / remove_all /
//! remove_matching / retain_matching / rebuild through from_quad_source|from_triple_source /
//! pattern query / contains / term enumerations) over a small, *dense* universe of
//! generalized quads. The same history is run against every shipped store type (35 of them:
//! Fast/Light Dataset/Graph with 32-, 16-bit and harness-defined tiny term indexes,
//! HashSet/BTreeSet/Vec of Spog/Gspo/[T;3] over SimpleTerm and ArcTerm) and after every
//! operation each store is compared with its own reference model (a multiset of model
//! quads + the set of terms ever given to the term index, in `ensure_index` order).
use crate::engine::*;
use crate::gen::*;
use crate::model::*;
use crate::pat::*;
use crate::stores::*;
use proptest::prelude::*;
use proptest::strategy::ValueTree;
use proptest::test_runner::{Config, RngAlgorithm, TestRng, TestRunner};
use serde::{Deserialize, Serialize};
use sophia_api::dataset::Dataset;
use sophia_api::graph::Graph;
use sophia_api::quad::{Gspo, Spog};
use sophia_term::ArcTerm;
use std::collections::{BTreeMap, BTreeSet, HashSet};

#[derive(Clone, Debug, Serialize, Deserialize)]
pub enum Op {
    Insert(MQ),
    Remove(MQ),
    InsertAll(Vec<MQ>),
    RemoveAll(Vec<MQ>),
    RemoveMatching(QPat),
    RetainMatching(QPat),
    /// replace the store by `from_quad_source` / `from_triple_source` of its (sorted)
    /// content followed by these extra quads (a fresh term index)
    Rebuild(Vec<MQ>),
    Query(QPat),
    Contains(MQ),
    Terms,
}
impl Op {
    fn kind(&self) -> &'static str {
        match self {
            Op::Insert(_) => "insert",
            Op::Remove(_) => "remove",
            Op::InsertAll(_) => "insert_all",
            Op::RemoveAll(_) => "remove_all",
            Op::RemoveMatching(_) => "remove_matching",
            Op::RetainMatching(_) => "retain_matching",
            Op::Rebuild(_) => "rebuild",
            Op::Query(_) => "query",
            Op::Contains(_) => "contains",
            Op::Terms => "terms",
        }
    }
}

#[derive(Clone, Debug, Serialize, Deserialize)]
pub struct Case {
    pub init: Vec<MQ>,
    pub ops: Vec<Op>,
    /// run only the store with this name (None = every store)
    #[serde(default)]
    pub only: Option<String>,
    /// u16-boundary scenario: number of distinct terms pre-filled into the term index
    /// (0 = none); such a case runs on the four `small::*` stores only
    #[serde(default)]
    pub prefill: u32,
    /// call every operation through a reference to the store (blanket impls for `&T` / `&mut T`)
    #[serde(default)]
    pub via_ref: bool,
}

// ------------------------------------------------------------------ systems under test

trait Sut: Sized {
    const IS_DS: bool;
    fn build(qs: &[MQ]) -> Result<Self, String>;
    fn insert(&mut self, q: &MQ) -> Result<bool, String>;
    fn remove(&mut self, q: &MQ) -> Result<bool, String>;
    fn all(&self) -> Vec<MQ>;
    fn matching(&self, p: &QPat) -> Vec<MQ>;
    fn contains(&self, q: &MQ) -> bool;
    fn remove_matching(&mut self, p: &QPat) -> Result<usize, String>;
    fn retain_matching(&mut self, p: &QPat) -> Result<(), String>;
    fn insert_all(&mut self, qs: &[MQ]) -> Result<usize, (bool, String)>;
    fn remove_all(&mut self, qs: &[MQ]) -> Result<usize, (bool, String)>;
    fn term_enums(&self) -> Vec<(&'static str, Vec<MT>)>;
}

struct Ds<D>(D);
struct Gr<G>(G);

thread_local! {
    /// the current case goes through the blanket implementations of the traits for references
    /// (`impl MutableDataset for &mut T`, `impl Dataset for &T`, ...): the helpers receive
    /// `&mut &mut store` / `&&store`, as generic code taking a dataset by value does
    static VIA_REF: std::cell::Cell<bool> = const { std::cell::Cell::new(false) };
}
fn via_ref() -> bool {
    VIA_REF.with(|v| v.get())
}

macro_rules! sut_ds {
    ($($ty:ty),* $(,)?) => {$(
        impl Sut for Ds<$ty> {
            const IS_DS: bool = true;
            fn build(qs: &[MQ]) -> Result<Self, String> {
                d_from::<$ty>(qs).map(Ds)
            }
            fn insert(&mut self, q: &MQ) -> Result<bool, String> {
                if via_ref() { d_insert(&mut &mut self.0, q) } else { d_insert(&mut self.0, q) }
            }
            fn remove(&mut self, q: &MQ) -> Result<bool, String> {
                if via_ref() { d_remove(&mut &mut self.0, q) } else { d_remove(&mut self.0, q) }
            }
            fn all(&self) -> Vec<MQ> {
                if via_ref() { d_all(&&self.0) } else { d_all(&self.0) }
            }
            fn matching(&self, p: &QPat) -> Vec<MQ> {
                if via_ref() { d_matching(&&self.0, p) } else { d_matching(&self.0, p) }
            }
            fn contains(&self, q: &MQ) -> bool {
                if via_ref() { d_contains(&&self.0, q) } else { d_contains(&self.0, q) }
            }
            fn remove_matching(&mut self, p: &QPat) -> Result<usize, String> {
                if via_ref() { d_remove_matching(&mut &mut self.0, p) } else { d_remove_matching(&mut self.0, p) }
            }
            fn retain_matching(&mut self, p: &QPat) -> Result<(), String> {
                if via_ref() { d_retain_matching(&mut &mut self.0, p) } else { d_retain_matching(&mut self.0, p) }
            }
            fn insert_all(&mut self, qs: &[MQ]) -> Result<usize, (bool, String)> {
                if via_ref() { d_insert_all(&mut &mut self.0, qs) } else { d_insert_all(&mut self.0, qs) }
            }
            fn remove_all(&mut self, qs: &[MQ]) -> Result<usize, (bool, String)> {
                if via_ref() { d_remove_all(&mut &mut self.0, qs) } else { d_remove_all(&mut self.0, qs) }
            }
            fn term_enums(&self) -> Vec<(&'static str, Vec<MT>)> {
                vec![
                    ("subjects", if via_ref() { d_subjects(&&self.0) } else { d_subjects(&self.0) }),
                    ("predicates", if via_ref() { d_predicates(&&self.0) } else { d_predicates(&self.0) }),
                    ("objects", if via_ref() { d_objects(&&self.0) } else { d_objects(&self.0) }),
                    ("graph_names", if via_ref() { d_graph_names(&&self.0) } else { d_graph_names(&self.0) }),
                    ("iris", if via_ref() { d_iris(&&self.0) } else { d_iris(&self.0) }),
                    ("blank_nodes", if via_ref() { d_blank_nodes(&&self.0) } else { d_blank_nodes(&self.0) }),
                    ("literals", if via_ref() { d_literals(&&self.0) } else { d_literals(&self.0) }),
                    ("variables", if via_ref() { d_variables(&&self.0) } else { d_variables(&self.0) }),
                    (
                        "quoted_triples",
                        self.0
                            .quoted_triples()
                            .map(|t| MT::from_term(t.expect("quoted_triples() error")))
                            .collect(),
                    ),
                ]
            }
        }
    )*};
}
macro_rules! sut_gr {
    ($($ty:ty),* $(,)?) => {$(
        impl Sut for Gr<$ty> {
            const IS_DS: bool = false;
            fn build(qs: &[MQ]) -> Result<Self, String> {
                g_from::<$ty>(qs).map(Gr)
            }
            fn insert(&mut self, q: &MQ) -> Result<bool, String> {
                if via_ref() { g_insert(&mut &mut self.0, q) } else { g_insert(&mut self.0, q) }
            }
            fn remove(&mut self, q: &MQ) -> Result<bool, String> {
                if via_ref() { g_remove(&mut &mut self.0, q) } else { g_remove(&mut self.0, q) }
            }
            fn all(&self) -> Vec<MQ> {
                if via_ref() { g_all(&&self.0) } else { g_all(&self.0) }
            }
            fn matching(&self, p: &QPat) -> Vec<MQ> {
                if via_ref() { g_matching(&&self.0, p) } else { g_matching(&self.0, p) }
            }
            fn contains(&self, q: &MQ) -> bool {
                if via_ref() { g_contains(&&self.0, q) } else { g_contains(&self.0, q) }
            }
            fn remove_matching(&mut self, p: &QPat) -> Result<usize, String> {
                if via_ref() { g_remove_matching(&mut &mut self.0, p) } else { g_remove_matching(&mut self.0, p) }
            }
            fn retain_matching(&mut self, p: &QPat) -> Result<(), String> {
                if via_ref() { g_retain_matching(&mut &mut self.0, p) } else { g_retain_matching(&mut self.0, p) }
            }
            fn insert_all(&mut self, qs: &[MQ]) -> Result<usize, (bool, String)> {
                if via_ref() { g_insert_all(&mut &mut self.0, qs) } else { g_insert_all(&mut self.0, qs) }
            }
            fn remove_all(&mut self, qs: &[MQ]) -> Result<usize, (bool, String)> {
                if via_ref() { g_remove_all(&mut &mut self.0, qs) } else { g_remove_all(&mut self.0, qs) }
            }
            fn term_enums(&self) -> Vec<(&'static str, Vec<MT>)> {
                vec![
                    ("subjects", if via_ref() { g_subjects(&&self.0) } else { g_subjects(&self.0) }),
                    ("predicates", if via_ref() { g_predicates(&&self.0) } else { g_predicates(&self.0) }),
                    ("objects", if via_ref() { g_objects(&&self.0) } else { g_objects(&self.0) }),
                    ("iris", if via_ref() { g_iris(&&self.0) } else { g_iris(&self.0) }),
                    ("blank_nodes", if via_ref() { g_blank_nodes(&&self.0) } else { g_blank_nodes(&self.0) }),
                    ("literals", if via_ref() { g_literals(&&self.0) } else { g_literals(&self.0) }),
                    ("variables", if via_ref() { g_variables(&&self.0) } else { g_variables(&self.0) }),
                    (
                        "quoted_triples",
                        self.0
                            .quoted_triples()
                            .map(|t| MT::from_term(t.expect("quoted_triples() error")))
                            .collect(),
                    ),
                ]
            }
        }
    )*};
}

type HashSpogArc = HashSet<Spog<ArcTerm>>;
type BTreeGspoArc = BTreeSet<Gspo<ArcTerm>>;
type VecGspoArc = Vec<Gspo<ArcTerm>>;
type HashTriplesArc = HashSet<[ArcTerm; 3]>;
type BTreeTriplesArc = BTreeSet<[ArcTerm; 3]>;
type VecTriplesArc = Vec<[ArcTerm; 3]>;

sut_ds!(
    FastDataset,
    LightDataset,
    SmallFastDataset,
    SmallLightDataset,
    TinyFastDataset<5>,
    TinyFastDataset<8>,
    TinyFastDataset<12>,
    TinyLightDataset<5>,
    TinyLightDataset<8>,
    TinyLightDataset<12>,
    HashSpog,
    HashGspo,
    BTreeSpog,
    BTreeGspo,
    VecSpog,
    VecGspo,
    HashSpogArc,
    BTreeGspoArc,
    VecGspoArc,
);
sut_gr!(
    FastGraph,
    LightGraph,
    SmallFastGraph,
    SmallLightGraph,
    TinyFastGraph<5>,
    TinyFastGraph<8>,
    TinyFastGraph<12>,
    TinyLightGraph<5>,
    TinyLightGraph<8>,
    TinyLightGraph<12>,
    HashTriples,
    BTreeTriples,
    VecTriples,
    HashTriplesArc,
    BTreeTriplesArc,
    VecTriplesArc,
);

const U16_CAP: usize = u16::MAX as usize;

/// (name, is_set, capacity of the term index)
const DS_STORES: &[(&str, bool, Option<usize>)] = &[
    ("FastDataset", true, None),
    ("LightDataset", true, None),
    ("small::FastDataset", true, Some(U16_CAP)),
    ("small::LightDataset", true, Some(U16_CAP)),
    ("TinyFastDataset<5>", true, Some(5)),
    ("TinyFastDataset<8>", true, Some(8)),
    ("TinyFastDataset<12>", true, Some(12)),
    ("TinyLightDataset<5>", true, Some(5)),
    ("TinyLightDataset<8>", true, Some(8)),
    ("TinyLightDataset<12>", true, Some(12)),
    ("HashSet<Spog>", true, None),
    ("HashSet<Gspo>", true, None),
    ("BTreeSet<Spog>", true, None),
    ("BTreeSet<Gspo>", true, None),
    ("Vec<Spog>", false, None),
    ("Vec<Gspo>", false, None),
    ("HashSet<Spog<ArcTerm>>", true, None),
    ("BTreeSet<Gspo<ArcTerm>>", true, None),
    ("Vec<Gspo<ArcTerm>>", false, None),
];
const GR_STORES: &[(&str, bool, Option<usize>)] = &[
    ("FastGraph", true, None),
    ("LightGraph", true, None),
    ("small::FastGraph", true, Some(U16_CAP)),
    ("small::LightGraph", true, Some(U16_CAP)),
    ("TinyFastGraph<5>", true, Some(5)),
    ("TinyFastGraph<8>", true, Some(8)),
    ("TinyFastGraph<12>", true, Some(12)),
    ("TinyLightGraph<5>", true, Some(5)),
    ("TinyLightGraph<8>", true, Some(8)),
    ("TinyLightGraph<12>", true, Some(12)),
    ("HashSet<[T;3]>", true, None),
    ("BTreeSet<[T;3]>", true, None),
    ("Vec<[T;3]>", false, None),
    ("HashSet<[ArcTerm;3]>", true, None),
    ("BTreeSet<[ArcTerm;3]>", true, None),
    ("Vec<[ArcTerm;3]>", false, None),
];

// ------------------------------------------------------------------ reference model

fn proj(q: &MQ) -> MQ {
    MQ::new(q.s.clone(), q.p.clone(), q.o.clone(), None)
}

#[derive(Clone)]
struct Model {
    is_set: bool,
    is_ds: bool,
    /// capacity of the term index: `Index::MAX` terms fit (indices 0..MAX-1; MAX itself is
    /// reserved for the default graph and never issued to a term)
    cap: Option<usize>,
    /// multiset of quads (count <= 1 for set stores)
    quads: BTreeMap<MQ, usize>,
    /// terms ever given an index (an index entry is never released by a removal)
    indexed: BTreeSet<MT>,
    /// number of index-full events predicted so far
    full_events: u32,
}
impl Model {
    fn new(is_set: bool, is_ds: bool, cap: Option<usize>) -> Model {
        Model { is_set, is_ds, cap, quads: BTreeMap::new(), indexed: BTreeSet::new(), full_events: 0 }
    }
    fn norm(&self, q: &MQ) -> MQ {
        if self.is_ds {
            q.clone()
        } else {
            proj(q)
        }
    }
    /// The `ensure_index` calls of one insertion, in the order s, p, o, g of
    /// `Generic*::insert`. `Err` = the index is full (the terms before the offending one
    /// stay indexed, the quad sets are untouched). `force`: ignore the capacity.
    fn index_terms(&mut self, q: &MQ, force: bool) -> Result<(), ()> {
        let Some(cap) = self.cap else { return Ok(()) };
        for t in q.terms() {
            if !self.indexed.contains(t) {
                if self.indexed.len() >= cap && !force {
                    self.full_events += 1;
                    return Err(());
                }
                self.indexed.insert(t.clone());
            }
        }
        Ok(())
    }
    fn insert(&mut self, q: &MQ, force: bool) -> Result<bool, ()> {
        let q = self.norm(q);
        self.index_terms(&q, force)?;
        let c = self.quads.entry(q).or_insert(0);
        if self.is_set && *c > 0 {
            Ok(false)
        } else {
            *c += 1;
            Ok(true)
        }
    }
    fn count(&self, q: &MQ) -> usize {
        self.quads.get(&self.norm(q)).copied().unwrap_or(0)
    }
    /// removal drops every occurrence
    fn remove(&mut self, q: &MQ) -> bool {
        self.quads.remove(&self.norm(q)).is_some()
    }
    fn all(&self) -> Vec<MQ> {
        let mut v = vec![];
        for (q, n) in &self.quads {
            for _ in 0..*n {
                v.push(q.clone());
            }
        }
        v
    }
    fn pmatch(&self, p: &QPat, q: &MQ) -> bool {
        if self.is_ds {
            p.matches(q)
        } else {
            p.matches_triple(q)
        }
    }
    fn len(&self) -> usize {
        self.quads.values().sum()
    }
    fn term_enums(&self) -> Vec<(&'static str, BTreeSet<MT>)> {
        let mut subjects = BTreeSet::new();
        let mut predicates = BTreeSet::new();
        let mut objects = BTreeSet::new();
        let mut graph_names = BTreeSet::new();
        let mut iris = BTreeSet::new();
        let mut bnodes = BTreeSet::new();
        let mut literals = BTreeSet::new();
        let mut variables = BTreeSet::new();
        let mut quoted = BTreeSet::new();
        for q in self.quads.keys() {
            subjects.insert(q.s.clone());
            predicates.insert(q.p.clone());
            objects.insert(q.o.clone());
            if let Some(g) = &q.g {
                graph_names.insert(g.clone());
            }
            for t in q.terms() {
                let mut atoms = vec![];
                t.atoms(&mut atoms);
                for a in atoms {
                    match a {
                        MT::Iri(_) => iris.insert(a.clone()),
                        MT::Bnode(_) => bnodes.insert(a.clone()),
                        MT::Lit(..) | MT::Lang(..) => literals.insert(a.clone()),
                        MT::Var(_) => variables.insert(a.clone()),
                        MT::Triple(_) => unreachable!(),
                    };
                }
                let mut cs = vec![];
                t.constituents(&mut cs);
                for c in cs {
                    if c.is_triple() {
                        quoted.insert(c.clone());
                    }
                }
            }
        }
        let mut v = vec![("subjects", subjects), ("predicates", predicates), ("objects", objects)];
        if self.is_ds {
            v.push(("graph_names", graph_names));
        }
        v.extend([
            ("iris", iris),
            ("blank_nodes", bnodes),
            ("literals", literals),
            ("variables", variables),
            ("quoted_triples", quoted),
        ]);
        v
    }
}

fn same(got: &[MQ], exp: &[MQ]) -> bool {
    got.len() == exp.len() && got.iter().zip(exp.iter()).all(|(a, b)| a == b)
}
fn brief(qs: &[MQ]) -> String {
    let mut s = qs.iter().take(40).map(MQ::show).collect::<Vec<_>>().join(" ; ");
    if qs.len() > 40 {
        s.push_str(&format!(" ; … ({} in total)", qs.len()));
    }
    s
}

/// Distinct terms `0..n` used to pre-fill a 16-bit term index, as quads of fresh terms.
fn prefill_quads(n: u32, is_ds: bool) -> Vec<MQ> {
    let term = |i: u32| match i % 3 {
        0 => MT::iri(format!("http://pre.example/{i}")),
        1 => MT::string(format!("prefilled value {i}")),
        _ => MT::bn(format!("n{i}")),
    };
    let per = if is_ds { 4 } else { 3 };
    let mut out = vec![];
    let mut i = 0;
    while i + per <= n {
        let g = if is_ds { Some(term(i + 3)) } else { None };
        out.push(MQ::new(term(i), term(i + 1), term(i + 2), g));
        i += per;
    }
    while i < n {
        // left-over terms: one new term per quad
        out.push(MQ::new(term(i), term(0), term(0), None));
        i += 1;
    }
    out
}

struct Runner<'a, S: Sut> {
    name: &'a str,
    kind: &'static str,
    st: S,
    m: Model,
    ctx: &'a mut Ctx,
    step: usize,
}

impl<'a, S: Sut> Runner<'a, S> {
    fn fail(&mut self, op: &str, aspect: &str, detail: String) {
        let fam = if S::IS_DS { "dataset" } else { "graph" };
        self.ctx.fail(
            format!("{}/{op}/{aspect}", self.kind),
            format!("store {} ({fam}), step {}: {op}: {detail}", self.name, self.step),
        );
    }
    /// full enumeration == model (each member once for sets, multiset for lists)
    fn check_all(&mut self, op: &str, aspect: &str) {
        let got = ms(self.st.all());
        let exp = self.m.all();
        if !same(&got, &exp) {
            self.fail(op, aspect, format!("content differs from the model\n got: {}\n exp: {}", brief(&got), brief(&exp)));
        }
    }
    fn at_capacity(&self) -> bool {
        self.m.cap.map(|c| self.m.indexed.len() >= c).unwrap_or(false)
    }

    fn op_insert(&mut self, q: &MQ) {
        let real = self.st.insert(q);
        let exp = self.m.insert(q, false);
        match (real, exp) {
            (Ok(f), Ok(e)) => {
                if self.m.is_set && f != e {
                    self.fail("insert", "flag", format!("insert {} returned {f}, the set changed: {e}", q.show()));
                }
            }
            (Err(_), Err(())) => {
                self.ctx.class(format!("index-full:{}", self.name));
                self.ctx.class("index-full:insert");
            }
            (Err(e), Ok(_)) => {
                self.fail("insert", "spurious-error", format!("insert {} failed with {e} although the term index has room ({} terms indexed, capacity {:?})", q.show(), self.m.indexed.len(), self.m.cap));
            }
            (Ok(f), Err(())) => {
                // more terms accepted than the model's capacity: not a set-semantics
                // violation by itself; follow the implementation and keep checking the set
                self.ctx.class("beyond-capacity-accepted");
                let e = self.m.insert(q, true).unwrap_or(false);
                if self.m.is_set && f != e {
                    self.fail("insert", "flag", format!("insert {} returned {f}, the set changed: {e}", q.show()));
                }
            }
        }
        let aspect = if self.at_capacity() { "content-at-index-capacity" } else { "content" };
        self.check_all("insert", aspect);
    }

    fn op_remove(&mut self, q: &MQ) {
        let before = self.m.count(q);
        let real = self.st.remove(q);
        let e = self.m.remove(q);
        match real {
            Ok(f) => {
                if self.m.is_set && f != e {
                    self.fail("remove", "flag", format!("remove {} returned {f}, the set changed: {e}", q.show()));
                }
            }
            Err(err) => self.fail("remove", "error", format!("remove {} failed: {err}", q.show())),
        }
        let aspect = if before >= 2 { "content-after-removing-duplicated-member" } else { "content" };
        self.check_all("remove", aspect);
    }

    fn op_insert_all(&mut self, qs: &[MQ], op: &'static str) {
        // sequential semantics: stops at the first quad that does not fit in the index
        let mut sim = self.m.clone();
        let mut n = 0usize;
        let mut full = false;
        for q in qs {
            match sim.insert(q, false) {
                Ok(true) => n += 1,
                Ok(false) => {}
                Err(()) => {
                    full = true;
                    break;
                }
            }
        }
        let real = self.st.insert_all(qs);
        match (real, full) {
            (Ok(c), false) => {
                self.m = sim;
                if self.m.is_set && c != n {
                    self.fail(op, "count", format!("returned {c}, but {n} quads were actually added"));
                }
            }
            (Err((is_sink, e)), true) => {
                self.m = sim;
                self.ctx.class(format!("index-full:{}", self.name));
                self.ctx.class(format!("index-full:{op}"));
                if !is_sink {
                    self.fail(op, "error-kind", format!("index full reported as a source error: {e}"));
                }
            }
            (Err((_, e)), false) => {
                self.m = sim;
                self.fail(op, "spurious-error", format!("failed with {e} although every term fits in the index"));
            }
            (Ok(c), true) => {
                self.ctx.class("beyond-capacity-accepted");
                let mut n = 0;
                for q in qs {
                    if self.m.insert(q, true) == Ok(true) {
                        n += 1;
                    }
                }
                if self.m.is_set && c != n {
                    self.fail(op, "count", format!("returned {c}, but {n} quads were actually added"));
                }
            }
        }
        let aspect = if full { "content-after-index-full" } else { "content" };
        self.check_all(op, aspect);
    }

    fn op_remove_all(&mut self, qs: &[MQ]) {
        let mut n = 0;
        let mut dup = false;
        for q in qs {
            if self.m.count(q) >= 2 {
                dup = true;
            }
            if self.m.remove(q) {
                n += 1;
            }
        }
        match self.st.remove_all(qs) {
            Ok(c) => {
                if self.m.is_set && c != n {
                    self.fail("remove_all", "count", format!("returned {c}, but {n} quads were actually removed"));
                }
            }
            Err((_, e)) => self.fail("remove_all", "error", format!("failed: {e}")),
        }
        let aspect = if dup { "content-after-removing-duplicated-member" } else { "content" };
        self.check_all("remove_all", aspect);
    }

    fn shape(&self, p: &QPat) -> String {
        let s = p.shape();
        if S::IS_DS {
            format!("dataset:{s}")
        } else {
            format!("graph:{}", &s[..3])
        }
    }

    fn op_remove_matching(&mut self, p: &QPat) {
        let victims: Vec<MQ> = self.m.quads.keys().filter(|q| self.m.pmatch(p, q)).cloned().collect();
        let n = victims.len();
        let dup = victims.iter().any(|q| self.m.count(q) >= 2);
        for q in &victims {
            self.m.remove(q);
        }
        match self.st.remove_matching(p) {
            Ok(c) => {
                if self.m.is_set && c != n {
                    let sh = self.shape(p);
                    self.fail("remove_matching", "count", format!("pattern shape {sh}: returned {c}, but {n} quads matched and were removed"));
                }
            }
            Err(e) => self.fail("remove_matching", "error", format!("failed: {e}")),
        }
        let aspect = if dup { "content-after-removing-duplicated-member".to_string() } else { format!("content/{}", self.shape(p)) };
        self.check_all("remove_matching", &aspect);
    }

    fn op_retain_matching(&mut self, p: &QPat) {
        let victims: Vec<MQ> = self.m.quads.keys().filter(|q| !self.m.pmatch(p, q)).cloned().collect();
        let dup = victims.iter().any(|q| self.m.count(q) >= 2);
        for q in &victims {
            self.m.remove(q);
        }
        if let Err(e) = self.st.retain_matching(p) {
            self.fail("retain_matching", "error", format!("failed: {e}"));
        }
        let aspect = if dup { "content-after-removing-duplicated-member" } else { "content" };
        self.check_all("retain_matching", aspect);
    }

    /// `from_quad_source`/`from_triple_source` of `src`: Some((store, model)) if it must succeed
    fn build(&mut self, src: &[MQ], op: &'static str) -> Option<(S, Model)> {
        let mut nm = Model::new(self.m.is_set, self.m.is_ds, self.m.cap);
        let mut full = false;
        for q in src {
            if nm.insert(q, false).is_err() {
                full = true;
                break;
            }
        }
        match (S::build(src), full) {
            (Ok(st), false) => Some((st, nm)),
            (Err(e), true) => {
                self.ctx.class(format!("index-full:{}", self.name));
                self.ctx.class(format!("index-full:{op}"));
                if !e.starts_with("sink:") {
                    self.fail(op, "error-kind", format!("index full reported as a source error: {e}"));
                }
                None
            }
            (Err(e), false) => {
                self.fail(op, "spurious-error", format!("failed with {e} although every term fits in the index"));
                None
            }
            (Ok(st), true) => {
                self.ctx.class("beyond-capacity-accepted");
                let mut nm = Model::new(self.m.is_set, self.m.is_ds, self.m.cap);
                for q in src {
                    let _ = nm.insert(q, true);
                }
                Some((st, nm))
            }
        }
    }

    fn op_rebuild(&mut self, extra: &[MQ]) {
        let mut src = self.m.all();
        src.extend(extra.iter().cloned());
        if let Some((st, nm)) = self.build(&src, "rebuild") {
            self.st = st;
            self.m = nm;
        }
        // on a (predicted) failure the previous store is kept: it must be unchanged
        self.check_all("rebuild", "content");
    }

    fn op_query(&mut self, p: &QPat) {
        let got = ms(self.st.matching(p));
        let exp: Vec<MQ> = self.m.all().into_iter().filter(|q| self.m.pmatch(p, q)).collect();
        if !same(&got, &exp) {
            let sh = self.shape(p);
            self.fail(
                "query",
                &sh,
                format!("pattern {:?}\n got: {}\n exp: {}\n store content: {}", p, brief(&got), brief(&exp), brief(&self.m.all())),
            );
        }
    }

    fn op_contains(&mut self, q: &MQ) {
        let got = self.st.contains(q);
        let exp = self.m.count(q) > 0;
        if got != exp {
            self.fail("contains", "answer", format!("contains({}) = {got}, expected {exp}", q.show()));
        }
    }

    fn op_terms(&mut self) {
        let got = self.st.term_enums();
        let exp = self.m.term_enums();
        for ((gn, gv), (en, ev)) in got.into_iter().zip(exp.into_iter()) {
            assert_eq!(gn, en);
            let gs: BTreeSet<MT> = gv.into_iter().collect();
            if gs != ev {
                let show = |s: &BTreeSet<MT>| s.iter().map(MT::show).collect::<Vec<_>>().join(", ");
                self.fail("terms", gn, format!("{gn}() as a set: got {{{}}}, expected {{{}}}", show(&gs), show(&ev)));
            }
        }
    }
}

fn run_store<S: Sut>(name: &str, is_set: bool, cap: Option<usize>, case: &Case, ctx: &mut Ctx) {
    let kind = if is_set { "set" } else { "list" };
    let m0 = Model::new(is_set, S::IS_DS, cap);
    // initial store
    let empty = match S::build(&[]) {
        Ok(s) => s,
        Err(e) => {
            ctx.fail(format!("{kind}/build/empty"), format!("store {name}: cannot build an empty store: {e}"));
            return;
        }
    };
    let mut r = Runner { name, kind, st: empty, m: m0, ctx, step: 0 };
    if case.prefill > 0 {
        // u16 boundary: fill the term index through from_*_source, then empty the store
        // (index entries stay behind) except for a few quads with the highest indices
        let pre = prefill_quads(case.prefill, S::IS_DS);
        match r.build(&pre, "prefill") {
            Some((st, nm)) => {
                r.st = st;
                r.m = nm;
            }
            None => {
                if !r.ctx.failed() {
                    r.ctx.fail(format!("{kind}/prefill/unexpected-full"), format!("store {name}: {} distinct terms did not fit", case.prefill));
                }
                return;
            }
        }
        r.check_all("prefill", "content");
        let keep = 6.min(pre.len());
        r.op_remove_all(&pre[..pre.len() - keep]);
        r.op_insert_all(&case.init, "insert_all");
    } else if let Some((st, nm)) = r.build(&case.init, "collect") {
        r.st = st;
        r.m = nm;
        r.check_all("collect", "content");
    }
    for (step, op) in case.ops.iter().enumerate() {
        if r.ctx.failed() {
            return;
        }
        r.step = step;
        match op {
            Op::Insert(q) => r.op_insert(q),
            Op::Remove(q) => r.op_remove(q),
            Op::InsertAll(qs) => r.op_insert_all(qs, "insert_all"),
            Op::RemoveAll(qs) => r.op_remove_all(qs),
            Op::RemoveMatching(p) => r.op_remove_matching(p),
            Op::RetainMatching(p) => r.op_retain_matching(p),
            Op::Rebuild(extra) => r.op_rebuild(extra),
            Op::Query(p) => r.op_query(p),
            Op::Contains(q) => r.op_contains(q),
            Op::Terms => r.op_terms(),
        }
    }
    if !r.ctx.failed() {
        r.step = case.ops.len();
        r.check_all("final", "content");
    }
    if r.m.full_events > 0 {
        r.ctx.nontrivial();
    }
}

macro_rules! dispatch {
    ($case:expr, $ctx:expr, $table:expr, $wrap:ident, [$($ty:ty),* $(,)?]) => {{
        let mut i = 0usize;
        $(
            {
                let (name, is_set, cap) = $table[i];
                let wanted = match &$case.only {
                    Some(n) => n == name,
                    None => true,
                } && ($case.prefill == 0 || cap == Some(U16_CAP));
                if wanted && !$ctx.failed() {
                    run_store::<$wrap<$ty>>(name, is_set, cap, $case, $ctx);
                }
                i += 1;
            }
        )*
        let _ = i;
    }};
}

fn run_all(case: &Case, ctx: &mut Ctx) {
    dispatch!(case, ctx, DS_STORES, Ds, [
        FastDataset, LightDataset, SmallFastDataset, SmallLightDataset,
        TinyFastDataset<5>, TinyFastDataset<8>, TinyFastDataset<12>,
        TinyLightDataset<5>, TinyLightDataset<8>, TinyLightDataset<12>,
        HashSpog, HashGspo, BTreeSpog, BTreeGspo, VecSpog, VecGspo,
        HashSpogArc, BTreeGspoArc, VecGspoArc,
    ]);
    dispatch!(case, ctx, GR_STORES, Gr, [
        FastGraph, LightGraph, SmallFastGraph, SmallLightGraph,
        TinyFastGraph<5>, TinyFastGraph<8>, TinyFastGraph<12>,
        TinyLightGraph<5>, TinyLightGraph<8>, TinyLightGraph<12>,
        HashTriples, BTreeTriples, VecTriples,
        HashTriplesArc, BTreeTriplesArc, VecTriplesArc,
    ]);
}

/// Store-independent pass over the history with a plain set model: generator statistics
/// and the non-triviality rule.
fn reference_pass(case: &Case, ctx: &mut Ctx) {
    let mut m = Model::new(true, true, None);
    for q in &case.init {
        let _ = m.insert(q, true);
    }
    let mut effective_removal = false;
    let mut kinds = BTreeSet::new();
    for op in &case.ops {
        kinds.insert(op.kind());
        match op {
            Op::Insert(q) => {
                ctx.class(if m.count(q) > 0 { "hit:insert-duplicate" } else { "hit:insert-new" });
                let _ = m.insert(q, true);
            }
            Op::Remove(q) => {
                if m.remove(q) {
                    effective_removal = true;
                    ctx.class("hit:remove-present");
                } else {
                    ctx.class("hit:remove-absent");
                }
            }
            Op::InsertAll(qs) => {
                for q in qs {
                    let _ = m.insert(q, true);
                }
            }
            Op::RemoveAll(qs) => {
                let mut any = false;
                for q in qs {
                    any |= m.remove(q);
                }
                effective_removal |= any;
                ctx.class(if any { "hit:remove_all-effective" } else { "hit:remove_all-noop" });
            }
            Op::RemoveMatching(p) | Op::RetainMatching(p) => {
                let retain = matches!(op, Op::RetainMatching(_));
                let victims: Vec<MQ> = m.quads.keys().filter(|q| p.matches(q) != retain).cloned().collect();
                ctx.class(format!("pattern-mutation-shape:{}", p.shape()));
                ctx.class(if victims.is_empty() { "hit:pattern-mutation-noop" } else { "hit:pattern-mutation-effective" });
                effective_removal |= !victims.is_empty();
                for q in &victims {
                    m.remove(q);
                }
            }
            Op::Rebuild(extra) => {
                for q in extra {
                    let _ = m.insert(q, true);
                }
            }
            Op::Query(p) => {
                if effective_removal {
                    ctx.nontrivial();
                }
                ctx.class(format!("query-shape:{}", p.shape()));
                for (pos, l) in [("s", p.s.label()), ("p", p.p.label()), ("o", p.o.label())] {
                    ctx.class(format!("matcher:{pos}:{l}"));
                }
                ctx.class(format!("matcher:g:{}", p.g.label()));
                let n = m.quads.keys().filter(|q| p.matches(q)).count();
                if n > 0 {
                    ctx.class(format!("query-nonempty-shape:{}", p.shape()));
                }
                ctx.class(match n {
                    0 => "query-result:empty",
                    1 => "query-result:1",
                    _ => "query-result:2+",
                });
            }
            Op::Contains(q) => {
                if effective_removal {
                    ctx.nontrivial();
                }
                ctx.class(if m.count(q) > 0 { "hit:contains-present" } else { "hit:contains-absent" });
            }
            Op::Terms => {
                if effective_removal {
                    ctx.nontrivial();
                }
            }
        }
    }
    for k in kinds {
        ctx.class(format!("op:{k}"));
    }
    // alphabet
    let mut terms: Vec<&MT> = vec![];
    let mut all_q: Vec<&MQ> = case.init.iter().collect();
    for op in &case.ops {
        match op {
            Op::Insert(q) | Op::Remove(q) | Op::Contains(q) => all_q.push(q),
            Op::InsertAll(v) | Op::RemoveAll(v) | Op::Rebuild(v) => all_q.extend(v.iter()),
            _ => {}
        }
    }
    for q in &all_q {
        terms.extend(q.terms());
    }
    let has = |f: &dyn Fn(&MT) -> bool| terms.iter().any(|t| f(t));
    if has(&|t| t.is_triple()) {
        ctx.class("alphabet:quoted-triple");
    }
    if has(&|t| t.depth() >= 2) {
        ctx.class("alphabet:nested-quoted-triple");
    }
    if has(&|t| t.has_var()) {
        ctx.class("alphabet:variable");
    }
    if has(&|t| t.is_bnode()) {
        ctx.class("alphabet:blank-node");
    }
    if all_q.iter().any(|q| q.g.is_some()) {
        ctx.class("alphabet:named-graph");
    }
    if all_q.iter().any(|q| q.s.is_literal() || q.p.is_literal() || q.g.as_ref().map(|g| g.is_literal()).unwrap_or(false)) {
        ctx.class("alphabet:generalized-literal-position");
    }
    let tags: BTreeSet<&str> = terms.iter().filter_map(|t| t.tag()).collect();
    if tags.iter().any(|t| tags.iter().any(|u| t != u && t.eq_ignore_ascii_case(u))) {
        ctx.class("alphabet:case-variant-language-tags");
    }
    if case.prefill > 0 {
        ctx.class("u16-boundary-scenario");
    }
}

// ------------------------------------------------------------------ generator

fn iri_a() -> MT {
    MT::iri("http://x/a")
}
fn iri_p() -> MT {
    MT::iri("http://x/p")
}
fn t1() -> MT {
    MT::triple(iri_a(), iri_p(), MT::lang("a", "en"))
}
fn t1_upper() -> MT {
    MT::triple(iri_a(), iri_p(), MT::lang("a", "EN"))
}
fn t2() -> MT {
    MT::triple(MT::bn("b"), iri_p(), t1())
}
fn s_pool() -> Vec<MT> {
    vec![iri_a(), MT::bn("b"), t1(), MT::var("v"), MT::lang("a", "en"), t2()]
}
fn p_pool() -> Vec<MT> {
    vec![iri_p(), MT::iri("http://x/q"), iri_a(), MT::var("v"), MT::bn("b")]
}
fn o_pool() -> Vec<MT> {
    vec![
        iri_a(),
        MT::string("a"),
        MT::lang("a", "en"),
        MT::lang("a", "EN"),
        // near misses: a comparison (Ord/Eq/Hash used by the set-based stores) that drops one
        // component merges them with a neighbour
        MT::lang("b", "en"),
        MT::lang("a", "fr"),
        MT::string("1"),
        MT::lit("1", xsd("integer")),
        t1(),
        t1_upper(),
        t2(),
        MT::bn("b"),
        MT::var("v"),
    ]
}
fn g_pool() -> Vec<Option<MT>> {
    vec![None, Some(iri_a()), Some(MT::iri("http://x/g")), Some(MT::bn("b")), Some(MT::lang("a", "EN")), Some(t1())]
}

fn kind_code(t: &MT) -> u8 {
    // inverse of pat::kind_of
    match t {
        MT::Bnode(_) => 0,
        MT::Iri(_) => 1,
        MT::Lit(..) | MT::Lang(..) => 2,
        MT::Triple(_) => 3,
        MT::Var(_) => 4,
    }
}
fn flip_case(s: &str) -> String {
    if s.chars().any(|c| c.is_ascii_lowercase()) {
        s.to_ascii_uppercase()
    } else {
        s.to_ascii_lowercase()
    }
}
/// A term matcher of the kind selected by `sel` that matches `t` (`u`: another term).
fn mk_tpat(t: &MT, sel: u8, u: &MT) -> TPat {
    match sel % 16 {
        0..=3 => TPat::Any,
        4..=6 => TPat::One(t.clone()),
        7 => TPat::Opt(Some(t.clone())),
        8 => TPat::Two(u.clone(), t.clone()),
        9 => TPat::Slice(vec![t.clone()]),
        10 => TPat::Slice(vec![u.clone(), t.clone(), u.clone()]),
        11 => TPat::Kind(kind_code(t)),
        12 => TPat::NotOne(u.clone()),
        13 => match t {
            MT::Lit(_, d) => TPat::Dt(d.clone()),
            MT::Lang(_, tag) => TPat::Tag(flip_case(tag)),
            MT::Triple(tt) => TPat::Triple(Box::new([TPat::One(tt[0].clone()), TPat::Any, TPat::Kind(kind_code(&tt[2]))])),
            _ => TPat::ClosureHasA,
        },
        14 => TPat::Ref(Box::new(TPat::One(t.clone()))),
        _ => TPat::NotKind((kind_code(t) + 1) % 5),
    }
}
/// A graph-name matcher of the kind selected by `sel` that matches `g`.
fn mk_gpat(g: &Option<MT>, sel: u8, u: &Option<MT>) -> GPat {
    match sel % 16 {
        0..=3 => GPat::Any,
        4..=6 => GPat::One(g.clone()),
        7 => GPat::Opt(Some(g.clone())),
        8 => GPat::Two(u.clone(), g.clone()),
        9 => GPat::Slice(vec![g.clone()]),
        10 => GPat::Slice(vec![u.clone(), g.clone()]),
        11 => GPat::Kind(g.as_ref().map(kind_code)),
        12 => GPat::Not(Box::new(GPat::One(u.clone()))),
        13 => match g {
            Some(t) => GPat::Gn(mk_tpat(t, sel / 16 + 4, t)),
            None => GPat::TripleOpt(None),
        },
        14 => GPat::Ref(Box::new(GPat::One(g.clone()))),
        _ => match g {
            Some(_) => GPat::ClosureIsNamed,
            None => GPat::Not(Box::new(GPat::ClosureIsNamed)),
        },
    }
}

fn case_strategy(max_ops: usize) -> BoxedStrategy<Case> {
    let subs = (
        proptest::sample::subsequence(s_pool(), 1..=3),
        proptest::sample::subsequence(p_pool(), 1..=2),
        proptest::sample::subsequence(o_pool(), 2..=4),
        proptest::sample::subsequence(g_pool(), 1..=3),
    );
    subs.prop_flat_map(move |(sp, pp, op, gp)| {
        // dense universe: |sp|*|pp|*|op|*|gp| = 2..72 quads
        let dense = (pick(sp.clone()), pick(pp.clone()), pick(op.clone()), pick(gp.clone()))
            .prop_map(|(s, p, o, g)| MQ::new(s, p, o, g));
        let dense_for_pat = dense.clone().boxed();
        let pools = (pick(s_pool()), pick(p_pool()), pick(o_pool()), pick(g_pool())).prop_map(|(s, p, o, g)| MQ::new(s, p, o, g));
        let mut full = TermCfg::full();
        full.allow_var = true;
        let exotic = full.quad(true, true);
        let quad = prop_oneof![17 => dense, 2 => pools, 1 => exotic].boxed();
        let mut tpool: Vec<MT> = vec![];
        for t in sp.iter().chain(pp.iter()).chain(op.iter()).chain(gp.iter().flatten()) {
            if !tpool.iter().any(|x| x.same_repr(t)) {
                tpool.push(t.clone());
            }
        }
        tpool.push(MT::iri("http://x/absent"));
        let tp = tpat(
            tpool,
            vec![XSD_STRING.into(), RDF_LANGSTRING.into(), xsd("integer")],
            vec!["en".into(), "EN".into(), "fr".into()],
        );
        let mut gpool = gp.clone();
        gpool.push(Some(MT::iri("http://x/absent")));
        if !gpool.contains(&None) {
            gpool.push(None);
        }
        let gpt = gpat(gpool, tp.clone());
        let random_qp = (tp.clone(), tp.clone(), tp.clone(), gpt.clone()).prop_map(|(s, p, o, g)| QPat { s, p, o, g });
        // half of the positions unconstrained
        let any_or = |t: BoxedStrategy<TPat>| prop_oneof![1 => Just(TPat::Any), 1 => t].boxed();
        let mixed_qp = (any_or(tp.clone()), any_or(tp.clone()), any_or(tp.clone()), prop_oneof![1 => Just(GPat::Any), 1 => gpt])
            .prop_map(|(s, p, o, g)| QPat { s, p, o, g });
        // built around a quad of the universe: matches that quad whenever it is present
        let hitting_qp = (dense_for_pat.clone(), dense_for_pat, any::<[u8; 4]>())
            .prop_map(|(q, u, sel)| QPat {
                s: mk_tpat(&q.s, sel[0], &u.s),
                p: mk_tpat(&q.p, sel[1], &u.p),
                o: mk_tpat(&q.o, sel[2], &u.o),
                g: mk_gpat(&q.g, sel[3], &u.g),
            });
        let qp = prop_oneof![5 => hitting_qp, 2 => mixed_qp, 2 => random_qp].boxed();
        let qv = prop::collection::vec(quad.clone(), 0..6);
        let op = prop_oneof![
            7 => quad.clone().prop_map(Op::Insert),
            4 => quad.clone().prop_map(Op::Remove),
            2 => qv.clone().prop_map(Op::InsertAll),
            2 => qv.clone().prop_map(Op::RemoveAll),
            2 => qp.clone().prop_map(Op::RemoveMatching),
            1 => qp.clone().prop_map(Op::RetainMatching),
            1 => prop::collection::vec(quad.clone(), 0..3).prop_map(Op::Rebuild),
            9 => qp.clone().prop_map(Op::Query),
            2 => quad.clone().prop_map(Op::Contains),
            1 => Just(Op::Terms),
        ];
        (prop::collection::vec(quad, 0..8), prop::collection::vec(op, 1..=max_ops), any::<bool>())
            .prop_map(|(init, ops, via_ref)| Case { init, ops, only: None, prefill: 0, via_ref })
    })
    .boxed()
}

fn sample_cases(seed: u64, n: usize, max_ops: usize) -> Vec<Case> {
    let mut seed_bytes = [0u8; 32];
    seed_bytes[..8].copy_from_slice(&seed.to_le_bytes());
    seed_bytes[8..16].copy_from_slice(b"c01-u16b");
    let rng = TestRng::from_seed(RngAlgorithm::ChaCha, &seed_bytes);
    let mut runner = TestRunner::new_with_rng(Config::default(), rng);
    let strat = case_strategy(max_ops);
    (0..n)
        .filter_map(|_| strat.new_tree(&mut runner).ok().map(|t| t.current()))
        .collect()
}

// ------------------------------------------------------------------ the check

pub struct C01;

impl Check for C01 {
    fn stall_secs(_tier: Tier) -> Option<u64> {
        Some(600)
    }
    type Case = Case;
    const ID: &'static str = "C01";
    fn rule() -> String {
        "operation histories (1-50 ops, plus 0-7 initial quads collected through from_quad_source/from_triple_source) over a dense universe of 2-72 generalized quads drawn per case from pools with IRIs, blank nodes, literals (datatype, \"a\"@en vs \"a\"@EN), nested quoted triples (incl. case-variant tags inside), variables, default/named graphs (+15% quads from wider pools / exotic strings): insert, remove, insert_all, remove_all, remove_matching, retain_matching, rebuild, pattern query (every matcher kind of pat.rs per position, all 2^4 bound/unbound shapes), contains, the 9 term enumerations. Every history runs against all 35 store types (19 datasets, 16 graphs; graphs see the triple projection); after every operation each store is compared with its own reference model (multiset of quads; flags/counts for set stores; set of indexed terms with capacity Index::MAX for 16-bit and tiny indexes; an index-full error must leave the quads unchanged, insert_all stops with a sink error). Fixed cases pre-fill 65 5xx distinct terms into the four small::* stores and continue a random history across the 16-bit boundary. Non-trivial = history with an effective removal or pattern-based mutation followed by a query/contains/term enumeration, or one in which a term index became full; distinct by hash of the whole case.".into()
    }
    fn assumptions() -> Vec<String> {
        vec![
            "returned flags/counts are only checked for set stores (documented as not significant otherwise)".into(),
            "Vec-backed stores: remove drops every equal entry (the contract of the repository's own handle_duplicate test); compared as multisets".into(),
            "term enumerations are compared as sets (duplicates explicitly allowed by the docs)".into(),
            "capacity of a SimpleTermIndex<I> = I::MAX terms (MAX itself is reserved for the default graph), terms are indexed in the order s, p, o, g; an insertion accepted beyond that capacity is tolerated (only counted) as long as the set semantics hold".into(),
            "agreement between implementations is established through the common reference model (each store == model)".into(),
        ]
    }
    fn cases(tier: Tier) -> u32 {
        tier.pick(4_000, 130_000)
    }
    fn strategy(tier: Tier) -> BoxedStrategy<Case> {
        case_strategy(tier.pick(50, 70))
    }
    fn fixed_cases(tier: Tier, seed: u64) -> Vec<Case> {
        // u16-boundary scenarios
        let n = tier.pick(4usize, 48);
        let mut cases = sample_cases(seed, n, 40);
        for (i, c) in cases.iter_mut().enumerate() {
            // 65535 terms fit; start 0..14 terms below the limit
            c.prefill = U16_CAP as u32 - [9u32, 4, 0, 14, 2, 6, 1, 11, 3, 7, 12, 5][i % 12];
        }
        cases
    }
    fn run(case: &Case, ctx: &mut Ctx) {
        VIA_REF.with(|v| v.set(case.via_ref));
        ctx.class(if case.via_ref { "access:through-reference-impls" } else { "access:direct" });
        reference_pass(case, ctx);
        run_all(case, ctx);
        VIA_REF.with(|v| v.set(false));
    }
    fn show(case: &Case) -> serde_json::Value {
        let ops: Vec<String> = case
            .ops
            .iter()
            .map(|op| match op {
                Op::Insert(q) => format!("insert {}", q.show()),
                Op::Remove(q) => format!("remove {}", q.show()),
                Op::InsertAll(v) => format!("insert_all [{}]", brief(v)),
                Op::RemoveAll(v) => format!("remove_all [{}]", brief(v)),
                Op::RemoveMatching(p) => format!("remove_matching {} {:?}", p.shape(), p),
                Op::RetainMatching(p) => format!("retain_matching {} {:?}", p.shape(), p),
                Op::Rebuild(v) => format!("rebuild + [{}]", brief(v)),
                Op::Query(p) => format!("query {} {:?}", p.shape(), p),
                Op::Contains(q) => format!("contains {}", q.show()),
                Op::Terms => "terms".into(),
            })
            .collect();
        serde_json::json!({"init": brief(&case.init), "ops": ops, "prefill": case.prefill, "only": case.only})
    }
    fn extra_evidence(_tier: Tier) -> serde_json::Value {
        serde_json::json!({
            "dataset_stores": DS_STORES.iter().map(|s| s.0).collect::<Vec<_>>(),
            "graph_stores": GR_STORES.iter().map(|s| s.0).collect::<Vec<_>>(),
        })
    }
}

pub fn main(opts: &Opts) -> i32 {
    drive::<C01>(opts)
}
pub fn worker(_args: &[String]) -> i32 {
    2
}
