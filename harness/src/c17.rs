//! C17 — relativising an IRI against a base is the inverse of resolving.
//!
//! Oracle: round trip. `Some(r)` must be a valid IRI reference (RFC 3987 recogniser of c09::rfc),
//! contain at most `parents` ".." segments, and `BaseIri::resolve(r)` must give back exactly the
//! IRI; an IRI with the same scheme/authority/path as the base must be relativised.
//! The RFC 3986 reference resolver of c09::rfc is run as well; where it disagrees with sophia's
//! resolver (C09's recorded resolver findings) the case is only counted.
use crate::c09::rfc;
use crate::engine::*;
use proptest::prelude::*;
use serde::{Deserialize, Serialize};
use serde_json::{json, Value};

#[derive(Clone, Debug, Serialize, Deserialize)]
pub struct Case {
    pub base: String,
    pub iri: String,
    pub parents: u8,
}

pub struct C17;

fn path_has_dot_segment(p: &str) -> bool {
    rfc::has_dot_segment(p)
}

/// byte length of the longest common prefix
fn lcp(a: &str, b: &str) -> usize {
    a.bytes().zip(b.bytes()).take_while(|(x, y)| x == y).count()
}

/// Key describing the trigger in the input (for signatures), computed from (base, iri) only.
fn trigger(base: &str, iri: &str) -> &'static str {
    let b = rfc::split(base);
    let i = rfc::split(iri);
    if b.scheme != i.scheme {
        return "scheme-differs";
    }
    if b.authority != i.authority {
        return "authority-differs";
    }
    if b.path == i.path {
        return if b.query.is_some() && i.query.is_none() {
            "same-path/base-query-must-be-dropped"
        } else {
            "same-path"
        };
    }
    if path_has_dot_segment(i.path) {
        return "iri-has-dot-segments";
    }
    // remainder of the IRI after the deepest directory shared with the base
    let path_begin = base.len() - b.path.len() - b.query.map(|q| q.len() + 1).unwrap_or(0) - b.fragment.map(|f| f.len() + 1).unwrap_or(0);
    let base_path_end = path_begin + b.path.len();
    let mut l = lcp(base, iri).min(base_path_end);
    while !base.is_char_boundary(l) {
        l -= 1;
    }
    let dir_end = base[path_begin..l].rfind('/').map(|k| path_begin + k + 1).unwrap_or(path_begin);
    let rest = &iri[dir_end.min(iri.len())..];
    let rest_path = &rest[..rest.find(['?', '#']).unwrap_or(rest.len())];
    let first = rest_path.split('/').next().unwrap_or("");
    // the base without its fragment is a proper string prefix of the IRI, which continues inside the same component
    let base_nofrag = &base[..base.len() - b.fragment.map(|f| f.len() + 1).unwrap_or(0)];
    if iri.len() > base_nofrag.len() && iri.starts_with(base_nofrag) && !iri[base_nofrag.len()..].starts_with('#') {
        return "base-is-string-prefix";
    }
    if first.contains(':') {
        return "first-segment-has-colon";
    }
    if rest_path.starts_with('/') {
        return "empty-segment-after-common-directory";
    }
    if rest_path.is_empty() {
        return "iri-path-is-common-directory";
    }
    if b.authority.is_none() && !b.path.starts_with('/') {
        return "rootless-base";
    }
    "other"
}

fn dotdot_count(r: &str) -> usize {
    let p = rfc::split(r);
    p.path.split('/').filter(|s| *s == "..").count()
}

fn seg_pool() -> Vec<&'static str> {
    vec!["a", "b", "c", "ab", "", "x:y", "é", "è", "éa", "%2e", "a;p", "a.b", ":", "@", "d", "bc", "ü", "..."]
}
fn seg() -> BoxedStrategy<&'static str> {
    prop_oneof![16 => pick(seg_pool()), 1 => pick(vec![".", ".."])].boxed()
}

#[derive(Clone, Debug)]
struct Gen {
    scheme: &'static str,
    auth: Option<&'static str>,
    rooted: bool,
    segs: Vec<&'static str>,
    q: Option<&'static str>,
    f: Option<&'static str>,
    // edits
    keep: usize,
    add: Vec<&'static str>,
    q2: u8,
    f2: u8,
    qpool: Option<&'static str>,
    fpool: Option<&'static str>,
    auth2: u8,
    scheme2: u8,
    suffix: Option<&'static str>,
    same_path: bool,
}

fn compose(scheme: &str, auth: Option<&str>, rooted: bool, segs: &[&str], q: Option<&str>, f: Option<&str>) -> String {
    let mut out = format!("{scheme}:");
    let mut path = segs.join("/");
    if let Some(a) = auth {
        out.push_str("//");
        out.push_str(a);
        if !segs.is_empty() {
            path = format!("/{path}");
        }
    } else if rooted {
        path = format!("/{path}");
    }
    out.push_str(&path);
    if let Some(q) = q {
        out.push('?');
        out.push_str(q);
    }
    if let Some(f) = f {
        out.push('#');
        out.push_str(f);
    }
    out
}

fn build(g: Gen) -> (String, String) {
    let base = compose(g.scheme, g.auth, g.rooted, &g.segs, g.q, g.f);
    let scheme = match g.scheme2 {
        0 => "https",
        1 => "b",
        _ => g.scheme,
    };
    let auth = match g.auth2 {
        0 => Some("ab"),
        1 => None,
        2 => Some("a:80"),
        3 => Some(""),
        _ => g.auth,
    };
    let mut segs: Vec<&str> = if g.same_path { g.segs.clone() } else { g.segs[..g.keep.min(g.segs.len())].to_vec() };
    if !g.same_path {
        segs.extend(g.add.iter().copied());
    }
    let q = match g.q2 {
        0 => None,
        1 => g.qpool,
        _ => g.q,
    };
    let f = match g.f2 {
        0 => None,
        1 => g.fpool,
        _ => g.f,
    };
    let mut iri = compose(scheme, auth, g.rooted, &segs, q, f);
    if let Some(s) = g.suffix {
        iri = format!("{base}{s}");
    }
    (base, iri)
}

impl Check for C17 {
    type Case = Case;
    const ID: &'static str = "C17";
    fn rule() -> String {
        "(base, IRI, parents) triples of valid absolute IRIs where the IRI is derived from the base by keeping a prefix of its path segments and appending segments from a pool (empty, dot, colon-bearing, multi-byte, prefix-of-each-other segments), by editing query/fragment/authority/scheme, or by appending characters to the base string. Non-trivial = the longest common byte prefix reaches into (or beyond) the path of the base; distinct by hash of the case.".into()
    }
    fn assumptions() -> Vec<String> {
        vec![
            "'resolving' = sophia's own BaseIri::resolve (the property's observe_at); the RFC 3986 reference resolver is also run and disagreements between the two resolvers are counted (class rfc-resolver-differs), not failed: they are C09's recorded resolver findings".into(),
            "parent-directory steps of a reference = number of '..' segments in its path".into(),
            "the 'always relativised' clause is not demanded when the IRI's path contains dot segments, the base has a query and the IRI has none: no relative reference resolves to such an IRI, so clause 1 and clause 3 cannot both be met".into(),
        ]
    }
    fn cases(tier: Tier) -> u32 {
        tier.pick(1_500_000, 45_000_000)
    }
    fn strategy(_tier: Tier) -> BoxedStrategy<Case> {
        let segs = prop::collection::vec(seg(), 0..6);
        let add = prop::collection::vec(seg(), 0..4);
        let qpool = vec![None, Some(""), Some("q"), Some("qx"), Some("a/b"), Some("a?b"), Some("q/../r"), Some("x:y")];
        let fpool = vec![None, Some(""), Some("f"), Some("fx"), Some("f/g?h"), Some("../f")];
        let g1 = (
            pick(vec!["http", "a", "x-ample", "urn"]),
            pick(vec![Some("a"), Some("a"), None, Some(""), Some("a:80"), Some("u@h"), Some("[::1]"), Some("é.org")]),
            any::<bool>(),
            segs,
            pick(qpool.clone()),
            pick(fpool.clone()),
        );
        let g2 = (
            0..7usize,
            add,
            0..5u8,
            0..5u8,
            pick(qpool),
            pick(fpool),
            prop_oneof![12 => Just(9u8), 1 => 0..4u8],
            prop_oneof![20 => Just(9u8), 1 => 0..2u8],
            prop_oneof![8 => Just(None), 1 => pick(vec![Some("c"), Some("/"), Some("x:y"), Some("?"), Some("#"), Some("é"), Some("/.."), Some("//d"), Some(":8"), Some("?q"), Some("#f")])],
            prop::bool::weighted(0.15),
        );
        (g1, g2, pick(vec![0u8, 1, 2, 3, 255]))
            .prop_map(|((scheme, auth, rooted, segs, q, f), (keep, add, q2, f2, qpool, fpool, auth2, scheme2, suffix, same_path), parents)| {
                let (base, iri) = build(Gen { scheme, auth, rooted, segs, q, f, keep, add, q2, f2, qpool, fpool, auth2, scheme2, suffix, same_path });
                Case { base, iri, parents }
            })
            .boxed()
    }
    fn fixed_cases(_tier: Tier, _seed: u64) -> Vec<Case> {
        // the repository's own matrix (bases x references) and then some, for every parents value
        let bases = [
            "http://a/b/c/d?q#f?f",
            "http://a/b/c/d?q",
            "http://a/b/c/d#f?f",
            "http://a/b/c/d",
            "x-ample:bb/c/d?q#f?f",
            "x-ample:bb/c/d",
            "http://a",
            "http://a/",
            "http://a?q",
            "a:",
            "a:?q",
            "a:b",
            "a:/b",
            "http://a/b/",
            "http://a//b//c",
        ];
        let refs = [
            "", "#F0", "?Q0", "?Q0#F0", "P0", "P0#F0", "P0?Q0", "./", "./#F1", "./?Q1", "../P1", "../", "../?Q2", "../../P2", "../../", "../../../P3", "/R", "/", "x/y/z", "./x:y", ".//d",
            "g;x", "../..//e", "//h/p", "http://a/b/c/dd", "http://ab/",
        ];
        let mut v = vec![];
        for b in bases {
            for r in refs {
                if !rfc::is_iri(b) || !rfc::is_iri_reference(r) {
                    continue;
                }
                let iri = rfc::resolve(b, r);
                if !rfc::is_iri(&iri) {
                    continue;
                }
                for p in [0u8, 1, 2, 3] {
                    v.push(Case { base: b.to_string(), iri: iri.clone(), parents: p });
                }
            }
        }
        v
    }
    fn run(case: &Case, ctx: &mut Ctx) {
        use sophia_iri::relativize::Relativizer;
        use sophia_iri::resolve::BaseIri;
        use sophia_iri::Iri;
        let (base, iri, parents) = (case.base.as_str(), case.iri.as_str(), case.parents);
        if !(rfc::is_iri(base) && rfc::is_iri(iri)) {
            ctx.class("skipped:not-valid-IRIs");
            return;
        }
        if Iri::new(base).is_err() || Iri::new(iri).is_err() || BaseIri::new(base).is_err() {
            // C09's business
            ctx.class("skipped:validator-disagrees");
            return;
        }
        let tr = trigger(base, iri);
        ctx.class(format!("trigger:{tr}"));
        ctx.class(format!("parents:{parents}"));
        let b = rfc::split(base);
        let i = rfc::split(iri);
        let path_begin = base.len() - b.path.len() - b.query.map(|q| q.len() + 1).unwrap_or(0) - b.fragment.map(|f| f.len() + 1).unwrap_or(0);
        let l = lcp(base, iri);
        if l > path_begin || (l == path_begin && b.scheme == i.scheme && b.authority == i.authority) {
            ctx.nontrivial();
        }
        if !iri.is_char_boundary(l) {
            ctx.class("divergence-inside-multibyte-char");
        }
        let got = catch(|| {
            let rel = Relativizer::new(BaseIri::new(base).unwrap(), parents);
            rel.relativize(Iri::new(iri).unwrap()).map(|r| r.unwrap().into_owned())
        });
        let same_doc = b.scheme == i.scheme && b.authority == i.authority && b.path == i.path;
        match got {
            Err(p) => ctx.fail(format!("relativize/panic/{tr}"), format!("base {base:?} iri {iri:?} parents {parents}: panicked: {p}")),
            Ok(None) => {
                ctx.class("result:None");
                if same_doc {
                    let unsatisfiable = path_has_dot_segment(i.path) && b.query.is_some() && i.query.is_none();
                    if unsatisfiable {
                        ctx.class("same-document:no-reference-exists");
                    } else {
                        ctx.fail(
                            format!("relativize/none-for-same-document/{tr}"),
                            format!("base {base:?} iri {iri:?} parents {parents}: None, but the IRI differs from the base at most in query/fragment and must always be relativised"),
                        );
                    }
                }
            }
            Ok(Some(r)) => {
                ctx.class("result:Some");
                let n = dotdot_count(&r);
                ctx.class(format!("result:dotdot={}", n.min(4)));
                if !rfc::is_iri_reference(&r) {
                    ctx.fail(format!("relativize/invalid-reference/{tr}"), format!("base {base:?} iri {iri:?} parents {parents}: returned {r:?}, not an IRI reference"));
                    return;
                }
                if n > parents as usize {
                    ctx.fail(
                        format!("relativize/too-many-parent-steps/{tr}"),
                        format!("base {base:?} iri {iri:?} parents {parents}: returned {r:?} with {n} '..' segments"),
                    );
                }
                let back = catch(|| BaseIri::new(base).unwrap().resolve(r.as_str()).map(|x| x.unwrap()).map_err(|e| e.to_string()));
                let rfc_back = rfc::resolve(base, &r);
                // every resolution entry point must give the IRI back, not only BaseIri::resolve(&str)
                let others: Vec<(&str, Result<Result<String, String>, String>)> = vec![
                    (
                        "BaseIri::resolve_into(&str)",
                        catch(|| {
                            let mut buf = String::from("junk");
                            buf.clear();
                            BaseIri::new(base).unwrap().resolve_into(r.as_str(), &mut buf).map(|x| x.unwrap().to_string()).map_err(|e| e.to_string())
                        }),
                    ),
                    (
                        "BaseIri::resolve_into(IriRef)",
                        catch(|| {
                            let mut buf = String::new();
                            let x = BaseIri::new(base.to_string()).unwrap().resolve_into(sophia_iri::IriRef::new(r.as_str()).map_err(|e| e.to_string())?, &mut buf);
                            Ok(x.unwrap().to_string())
                        }),
                    ),
                    (
                        "Iri::resolve(IriRef)",
                        catch(|| Ok(Iri::new(base).unwrap().resolve(sophia_iri::IriRef::new(r.as_str()).map_err(|e| e.to_string())?).unwrap())),
                    ),
                    (
                        "BaseIriRef::resolve(&str)",
                        catch(|| sophia_iri::resolve::BaseIriRef::new(base).map_err(|e| e.to_string())?.resolve(r.as_str()).map(|x| x.unwrap()).map_err(|e| e.to_string())),
                    ),
                ];
                if matches!(&back, Ok(Ok(x)) if x == iri) {
                    for (name, res) in others {
                        if !matches!(&res, Ok(Ok(x)) if x == iri) {
                            ctx.fail(
                                format!("relativize/wrong-reference-through-other-entry-point/{tr}"),
                                format!("base {base:?} iri {iri:?} parents {parents}: returned {r:?}, which BaseIri::resolve gives back as the IRI, but {name} gives {res:?}"),
                            );
                            return;
                        }
                    }
                }
                match back {
                    Ok(Ok(x)) if x == iri => {
                        if rfc_back != iri {
                            ctx.class("rfc-resolver-differs");
                            ctx.class(format!("rfc-resolver-differs:{}", if b.authority.is_none() { "base-without-authority" } else { "base-with-authority" }));
                            if std::env::var_os("C17_DEBUG").is_some() {
                                eprintln!("rfc-differs: base {base:?} iri {iri:?} parents {parents} -> {r:?}; rfc gives {rfc_back:?}");
                            }
                        }
                    }
                    other => {
                        let note = if rfc_back == iri { " (the RFC 3986 reference resolver does give the IRI back: resolver divergence)" } else { "" };
                        ctx.fail(
                            format!("relativize/wrong-reference/{tr}"),
                            format!("base {base:?} iri {iri:?} parents {parents}: returned {r:?}, which resolves to {other:?}, RFC 3986 resolver: {rfc_back:?}{note}"),
                        );
                    }
                }
            }
        }
    }
    fn show(case: &Case) -> Value {
        json!({"base": case.base, "iri": case.iri, "parents": case.parents})
    }
}

pub fn main(opts: &Opts) -> i32 {
    drive::<C17>(opts)
}
pub fn worker(_args: &[String]) -> i32 {
    2
}
